import numpy as np
from incomplete_cooperative.run.model import ModelInstance
from incomplete_cooperative.evaluation import evaluate
def pol(env):
    m=env.action_masks(); return int(np.flatnonzero(m)[-1])
def noop(env): pass
if __name__=='__main__':
    out=[]
    for procs in (1,3,1):
        inst=ModelInstance(number_of_players=4, game_generator='noisy_factory', seed=11, run_steps_limit=4, linear=True)
        e,a=evaluate(pol, inst.get_env, 6, 4, inst.gap_function_callable, procs, noop)
        out.append((e,a))
    print(np.array_equal(out[0][1],out[1][1]), np.array_equal(out[0][1],out[2][1]), np.array_equal(out[0][0],out[1][0]))
    print(out[0][1])
