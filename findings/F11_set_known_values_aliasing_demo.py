"""C17 finding 1: the bulk reset `set_known_values` wipes the game BEFORE it reads its arguments.

`IncompleteCooperativeGame.set_known_values(known_values, coalitions)` calls `self._init_values()` first and only
then materialises `known_values` (np.fromiter) and `coalitions` (inside set_values).  Both parameters are declared as
plain `Iterable`s, and the game's own getters hand out objects that are live views / lazy generators over the very
storage that has just been zeroed:

  * `g.get_values()` / `g.get_upper_bounds()` / `g.get_lower_bounds()` (no coalition filter) return a VIEW of `g._values`;
  * `get_known_coalitions(g)` and `(g.get_value(c) for c in cs)` are lazy generators reading `g`.

So a bulk reset whose arguments were obtained from the same game stores zeros (silently) or raises after the
knowledge has already been destroyed.  The oracle is the same call with detached (copied / listed) arguments.

Run with cwd = the repository root.  Exit 1 + FAIL on the unrepaired code, exit 0 + PASS once the arguments are
materialised before the reset.
"""
import os
import sys

sys.path.insert(0, os.getcwd())

import numpy as np  # noqa: E402

from incomplete_cooperative.coalitions import (Coalition, all_coalitions,  # noqa: E402
                                               get_known_coalitions)
from incomplete_cooperative.game import IncompleteCooperativeGame  # noqa: E402


def state(g):
    """(known, lower, upper) for every coalition, read through the public single-coalition getters."""
    return [(g.is_value_known(c), float(g.get_lower_bound(c)), float(g.get_upper_bound(c)))
            for c in all_coalitions(g.number_of_players)]


failures = []


def report(name, call, expected, observed):
    if expected != observed:
        failures.append(name)
        print(f"FAIL [{name}]")
        print(f"   input   : {call}")
        print(f"   expected: {expected}")
        print(f"   observed: {observed}")


for n in (1, 2, 3):
    size = 2**n
    values = np.arange(size, dtype=float) * 1.5  # empty coalition 0, others non-zero

    # --- case A: values argument is the array returned by the game's own get_values() -------------------------
    g = IncompleteCooperativeGame(n)
    g.set_values(values)
    expected = [(True, float(v), float(v)) for v in values]
    assert state(g) == expected
    g.set_known_values(g.get_values())              # "re-set every coalition to the value it has"
    report(f"A n={n}", f"g.set_values({values.tolist()}); g.set_known_values(g.get_values())", expected, state(g))

    # --- case A': same through get_upper_bounds() --------------------------------------------------------------
    g = IncompleteCooperativeGame(n)
    g.set_values(values)
    g.set_known_values(g.get_upper_bounds())
    report(f"A' n={n}", f"g.set_values({values.tolist()}); g.set_known_values(g.get_upper_bounds())",
           expected, state(g))

    # --- case B: coalitions argument is the lazy generator get_known_coalitions(g) -----------------------------
    g = IncompleteCooperativeGame(n)
    g.set_values(values)
    g.unset_value(Coalition(size - 1))              # grand coalition unknown again
    known_ids = [c.id for c in get_known_coalitions(g)]
    new_vals = [10.0 * i for i in range(len(known_ids))]
    expected = [(False, 0.0, 0.0)] * size
    for i, v in zip(known_ids, new_vals):
        expected[i] = (True, v, v)
    try:
        g.set_known_values(new_vals, get_known_coalitions(g))   # "keep what is known, with new values"
        observed = state(g)
    except Exception as e:  # the reset has already happened when this is raised
        observed = f"raised {e!r}; state afterwards {state(g)}"
    report(f"B n={n}", f"known={known_ids}; g.set_known_values({new_vals}, get_known_coalitions(g))",
           expected, observed)

    # --- case C: values argument is a lazy generator over the game's own values --------------------------------
    g = IncompleteCooperativeGame(n)
    g.set_values(values)
    keep = [Coalition(i) for i in range(size) if i % 2 == 1]
    expected = [(False, 0.0, 0.0)] * size
    expected[0] = (True, 0.0, 0.0)
    for c in keep:
        expected[c.id] = (True, float(values[c.id]), float(values[c.id]))
    try:
        g.set_known_values((g.get_value(c) for c in keep), keep)  # "forget everything except `keep`"
        observed = state(g)
    except Exception as e:
        observed = f"raised {e!r}; state afterwards {state(g)}"
    report(f"C n={n}", f"g.set_known_values((g.get_value(c) for c in {[c.id for c in keep]}), same coalitions)",
           expected, observed)

if failures:
    print(f"FAIL: {len(failures)} cases: set_known_values resets the game before reading arguments that alias it")
    sys.exit(1)
print("PASS")
sys.exit(0)
