"""C12: `solve --run-steps-limit 0` takes a step anyway and then records gap 0 for steps that never happened.

run/solve.py turns the limit into `instance.run_steps_limit or 2**n` (0 is falsy -> 2**n), while the environment built by
ModelInstance.get_env keeps done_after_n_actions=0.  (The sibling commands eval / greedy / best_states test `is None`.)
eval_one then performs one step, sees done=True, breaks, and leaves every later row of the gap matrix at its initial 0.0.
The saved matrix therefore claims that the gap collapses to exactly 0 after the first revealed coalition although the
information is far from complete; the same zero padding happens for every evaluate() call whose environment ends an episode
through its own step limit before run_steps_limit is reached.

Run with cwd = repository root.  Exits 1 / prints FAIL on the defective code, exits 0 / prints PASS once repaired.
"""
import os
import sys

sys.path.insert(0, os.getcwd())
os.environ.setdefault("OMP_NUM_THREADS", "1")

import json  # noqa: E402
import math  # noqa: E402
import tempfile  # noqa: E402
from pathlib import Path  # noqa: E402

import numpy as np  # noqa: E402

from incomplete_cooperative.__main__ import main  # noqa: E402
from incomplete_cooperative.coalitions import Coalition  # noqa: E402
from incomplete_cooperative.evaluation import evaluate  # noqa: E402
from incomplete_cooperative.run.model import ModelInstance  # noqa: E402
from incomplete_cooperative.solvers import SOLVERS  # noqa: E402

N, SEED, GEN, REPS = 4, 11, "xos", 3


def oracle_gap(n, known, vals):
    """Exploitability of the superadditive bounds, written from the definition."""
    size = 2**n
    lo, up = np.zeros(size), np.zeros(size)
    for s in range(size):
        if known[s]:
            lo[s] = up[s] = vals[s]
    for s in sorted(range(size), key=lambda x: bin(x).count("1")):
        if not known[s]:
            lo[s] = max(lo[t] + lo[s ^ t] for t in range(1, s) if t & s == t)
    for s in range(size):
        if not known[s]:
            up[s] = min(vals[t] - lo[t ^ s] for t in range(size) if t & s == s and t != s and known[t])
    total = 0.0
    for i in range(n):
        for s in range(size):
            if not s >> i & 1:
                k = bin(s).count("1")
                total += math.factorial(k) * math.factorial(n - k - 1) / math.factorial(n) * (up[s | 1 << i] - lo[s])
    return total - vals[size - 1]


def hidden_games(limit):
    """Re-draw the hidden games of the repetitions (same seed, same order of environment creation)."""
    inst = ModelInstance(number_of_players=N, game_generator=GEN, seed=SEED, run_steps_limit=limit)
    games = []
    for _ in range(REPS):
        env = inst.get_env()
        env.reset()
        games.append(np.array(env.full_game.get_values([Coalition(i) for i in range(2**N)]), float))
    return games


def check(tag, limit, gaps, actions, games):
    """Every row must be the gap of the information actually held at that time; at most `limit` coalitions are revealed."""
    problems = []
    for j in range(gaps.shape[1]):
        known = np.zeros(2**N, bool)
        known[[0, 2**N - 1] + [1 << i for i in range(N)]] = True
        taken = int(np.sum(~np.isnan(actions[:, j]))) if actions.size else 0
        if taken > limit:
            problems.append(f"{tag}: repetition {j} revealed {taken} coalition(s), limit is {limit}")
        gap = oracle_gap(N, known, games[j])
        for t in range(gaps.shape[0] - 1):
            if not np.isnan(actions[t, j]):
                known[int(actions[t, j])] = True
                gap = oracle_gap(N, known, games[j])
            recorded = gaps[t + 1, j]
            if not (np.isnan(recorded) or abs(recorded - gap) <= 1e-9 * max(1.0, abs(gap))):
                problems.append(f"{tag}: repetition {j} row {t + 1}: recorded gap {recorded!r}, but with the "
                                f"{int(known.sum())} known coalitions the gap is {gap!r}")
                break
    return problems


problems = []

# (a) the command line itself: python -m incomplete_cooperative ... --run-steps-limit 0 ... solve --solver random
with tempfile.TemporaryDirectory() as tmp:
    try:
        main(args=["prog", "--model-dir", tmp, "--number-of-players", str(N), "--game-generator", GEN, "--seed", str(SEED),
                   "--parallel-environments", "1", "--run-steps-limit", "0", "--unique-name", "u",
                   "solve", "--solver", "random", "--solve-repetitions", str(REPS)])
    except ValueError as err:  # the coalition-plot saver (which runs after data.json is written) rejects an empty action matrix
        print("note: saver raised after data.json was written:", err)
    saved = json.loads((Path(tmp) / "data.json").read_text())["u"]
gaps = np.array(saved["data"], float).reshape(-1, REPS)
actions = np.array(saved["actions"], float).reshape(-1, REPS)
problems += check("solve --run-steps-limit 0", 0, gaps, actions, hidden_games(0))

# (b) the same padding at the level of evaluate(): environment limit 2, evaluate limit 5
inst = ModelInstance(number_of_players=N, game_generator=GEN, seed=SEED, run_steps_limit=2, parallel_environments=1)
solver = SOLVERS["greedy"](inst)
gaps_b, actions_b = evaluate(solver.next_step, inst.get_env, REPS, 5, inst.gap_function_callable, 1, solver.after_reset)
problems += check("evaluate(limit 5) on environments with done_after_n_actions=2", 2, gaps_b, actions_b, hidden_games(2))

if problems:
    print("FAIL")
    print(f"input: number_of_players={N}, generator={GEN!r}, seed={SEED}, repetitions={REPS}, processes=1")
    for p in problems:
        print("  " + p)
    print("gap matrix of (a), shape", gaps.shape, "first rows:\n", gaps[:4])
    print("action matrix of (a), first rows:\n", actions[:3])
    print("expected: no coalition is revealed with limit 0 (eval/greedy/best_states keep a limit of 0), and no row reports "
          "a gap of 0.0 while the information is incomplete")
    sys.exit(1)
print("PASS")
