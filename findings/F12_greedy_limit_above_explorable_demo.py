"""C13 / expected-greedy: a step limit larger than the number of explorable coalitions crashes the search.

`run/greedy.py:get_greedy_rewards` keeps looping `while len(action_sequence) < max_steps`.  Once every explorable
coalition has been put into the sequence, `possible_next_action_sequences` is the empty list, the stacked array of
expected gaps is `np.array([])` (one-dimensional) and `np.mean(..., axis=1)` raises `numpy.exceptions.AxisError`.
`greedy_func` itself chooses such a limit when `--run-steps-limit` is not given: `2**n`, while only `2**n - n - 2`
coalitions are explorable, so `python -m incomplete_cooperative --number-of-players 3 greedy` (and `ugreedy`) always
crashes.  The sibling `solve` path (evaluation.eval_one) accepts the same limit and simply stops when nothing is left.

Run with cwd = the worktree:  /venv/bin/python /tmp/hunt_out/G07/finding_1.py
Exit 1 + FAIL on the unchanged code, exit 0 + PASS once the search copes with the limit (clipping, or padding the curve).
"""
import os
import sys

sys.dont_write_bytecode = True
sys.path.insert(0, os.getcwd())
os.environ.setdefault("OMP_NUM_THREADS", "1")

import traceback  # noqa: E402
from random import Random  # noqa: E402

import numpy as np  # noqa: E402

from incomplete_cooperative.bounds import BOUNDS  # noqa: E402
from incomplete_cooperative.coalitions import Coalition  # noqa: E402
from incomplete_cooperative.game import IncompleteCooperativeGame  # noqa: E402
from incomplete_cooperative.run.greedy import get_greedy_rewards  # noqa: E402
from incomplete_cooperative.run.model import GAP_FUNCTIONS, ModelInstance  # noqa: E402


def make_env(n, seed, limit):
    return ModelInstance(number_of_players=n, game_class="superadditive", game_generator="factory",
                         gap_function="exploitability", seed=seed, run_steps_limit=limit).get_env()


def mean_gaps(n, games, known_ids):
    """Gap of every sampled game when exactly `known_ids` are known (fresh game, package bounds)."""
    out = []
    for full in games:
        g = IncompleteCooperativeGame(n, BOUNDS["superadditive"])
        coalitions = [Coalition(i) for i in sorted(known_ids)]
        g.set_known_values(full.get_values(coalitions), coalitions)
        g.compute_bounds()
        out.append(GAP_FUNCTIONS["exploitability"](g))
    return np.array(out)


def check(n, max_steps, repetitions, processes, randomize):
    label = f"n={n} max_steps={max_steps} repetitions={repetitions} processes={processes} randomize={randomize}"
    env = make_env(n, 1, max_steps)
    explorable = [c.id for c in env.explorable_coalitions]
    initial = [c.id for c in env.initially_known_coalitions]
    try:
        curve, acts = get_greedy_rewards(env, max_steps, repetitions, GAP_FUNCTIONS["exploitability"], processes,
                                         Random(3) if randomize else None)
    except Exception as ex:  # noqa
        traceback.print_exc()
        return [f"{label}: get_greedy_rewards raised {type(ex).__name__}: {ex} "
                f"(only {len(explorable)} coalitions are explorable; expected a curve, not a crash)"]
    problems = []
    # the same games the search sampled: a fresh, equally seeded environment
    env2 = make_env(n, 1, max_steps)
    games = [env2.generator() for _ in range(repetitions)]
    if len(set(acts)) != len(acts) or any(a not in explorable for a in acts):
        problems.append(f"{label}: sequence {acts} repeats a coalition or leaves the explorable ones {explorable}")
    curve = np.asarray(curve, dtype=float)
    final = mean_gaps(n, games, set(initial) | set(explorable))
    for t in range(curve.shape[0]):
        row = curve[t]
        if np.all(np.isnan(row)):
            continue
        expected = mean_gaps(n, games, set(initial) | set(acts[:t])) if t <= len(acts) else final
        if not np.allclose(row, expected, atol=1e-9):
            problems.append(f"{label}: row {t} of the curve is {row}, the gap of the known set is {expected}")
    means = [m for m in np.mean(curve, axis=1) if not np.isnan(m)]
    if any(b > a + 1e-9 for a, b in zip(means, means[1:])):
        problems.append(f"{label}: curve {means} is not non-increasing")
    return problems


def main():
    problems = []
    # control: limit == number of explorable coalitions works
    problems += check(3, 3, 2, 1, False)
    # one more than there are explorable coalitions, the default limit 2**n, several process counts, the randomised variant
    for n, max_steps, reps, procs, rnd in [(3, 4, 2, 1, False), (3, 8, 1, 2, False), (3, 8, 2, 1, True), (4, 16, 1, 3, False)]:
        problems += check(n, max_steps, reps, procs, rnd)
    if problems:
        print("FAIL")
        for p in problems:
            print(" -", p)
        sys.exit(1)
    print("PASS")
    sys.exit(0)


if __name__ == "__main__":
    main()
