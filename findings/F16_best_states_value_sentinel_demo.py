"""C11: best-states loses a true minimum when a set's mean gap equals the placeholder -1.

`get_best_exploitability` marks "no set seen yet for this size" with the magic value -1 and tests
`np.mean(best[steps]) == -1` to decide whether the slot is still empty.  A set whose real mean gap is exactly
-1 is therefore treated as "empty" and overwritten by the NEXT set of that size, whatever its gap.
The statement quantifies over all games / gap functions; for a game outside the class the bounds computer
assumes (here: an integer game that is not superadditive, bounded with the superadditive computer) the
exploitability is negative and hits -1 exactly.

Run with cwd = repository root.  Exits 1 and prints FAIL on the defective code, 0 / PASS once repaired.
"""
import itertools
import math
import os
import sys

os.environ.setdefault("OMP_NUM_THREADS", "1")
sys.path.insert(0, os.getcwd())

import numpy as np  # noqa: E402

from incomplete_cooperative.bounds import BOUNDS  # noqa: E402
from incomplete_cooperative.coalitions import Coalition, minimal_game_coalitions  # noqa: E402
from incomplete_cooperative.exploitability import compute_exploitability  # noqa: E402
from incomplete_cooperative.game import IncompleteCooperativeGame  # noqa: E402
from incomplete_cooperative.icg_gym import ICG_Gym  # noqa: E402
from incomplete_cooperative.run.best_states import get_best_exploitability  # noqa: E402

N_PLAYERS = 4
VALUES = [0, 6, -4, 3, 1, -2, 3, -4, -1, 1, 0, 7, 3, 0, 6, 4]  # v(S) indexed by coalition id
LIMIT = 1


def full_game() -> IncompleteCooperativeGame:
    game = IncompleteCooperativeGame(N_PLAYERS)
    game.set_values(np.array(VALUES, dtype=float))
    return game


# ---- independent oracle: superadditive bounds + exploitability, written from the definitions -----------------
def oracle_gap(known: set[int]) -> float:
    n, size = N_PLAYERS, 2**N_PLAYERS
    lo, up = [0.0] * size, [0.0] * size
    for s in sorted(range(size), key=lambda x: bin(x).count("1")):
        if s in known:
            lo[s] = up[s] = float(VALUES[s])
            continue
        sub, best = (s - 1) & s, -math.inf
        while sub:
            best = max(best, lo[sub] + lo[s ^ sub])
            sub = (sub - 1) & s
        lo[s] = best
    for s in range(size):
        if s not in known:
            up[s] = min(VALUES[t] - lo[t ^ s] for t in known if t & s == s and t != s)
    total = 0.0
    for i in range(n):
        phi = 0.0
        for s in range(size):
            if not s >> i & 1:
                k = bin(s).count("1")
                phi += math.factorial(k) * math.factorial(n - k - 1) * (up[s | 1 << i] - lo[s])
        total += phi / math.factorial(n)
    return total - VALUES[size - 1]


def main() -> int:
    incomplete = IncompleteCooperativeGame(N_PLAYERS, BOUNDS["superadditive_cached"])
    minimal = list(minimal_game_coalitions(N_PLAYERS))
    env = ICG_Gym(incomplete, full_game, minimal, compute_exploitability)

    best, best_actions = get_best_exploitability(env, LIMIT, 1, compute_exploitability, processes=2)

    k0 = {c.id for c in minimal}
    unknown = [s for s in range(2**N_PLAYERS) if s not in k0]
    ok = True
    for size in range(LIMIT + 1):
        gaps = {combo: oracle_gap(k0 | set(combo)) for combo in itertools.combinations(unknown, size)}
        expected = min(gaps.values())
        observed = float(np.mean(best[size]))
        attained = gaps.get(tuple(sorted(best_actions[size])))
        print(f"size {size}: reported min mean gap {observed!r} with set {best_actions[size]}, "
              f"true minimum {expected!r} (attained by {[c for c, g in gaps.items() if g == expected]})")
        if not math.isclose(observed, expected, rel_tol=1e-9, abs_tol=1e-9) or \
                attained is None or not math.isclose(attained, expected, rel_tol=1e-9, abs_tol=1e-9):
            ok = False
            print(f"  per-set gaps in enumeration order: {[round(g, 6) for g in gaps.values()]}")
    if ok:
        print("PASS")
        return 0
    print(f"FAIL: game values {VALUES} (n={N_PLAYERS}), minimal starting knowledge, limit {LIMIT}, "
          f"computer 'superadditive_cached', gap 'exploitability': a set with mean gap exactly -1 is taken for the "
          f"'nothing seen yet' placeholder and replaced by a worse set")
    return 1


if __name__ == "__main__":
    sys.exit(main())
