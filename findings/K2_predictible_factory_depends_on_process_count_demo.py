"""C12: the 'predictible_factory' generator keeps its state in the module global `generators._LAST_OWNER`.  Each pool worker has
its own copy of that counter (and the parent advances it while building the environments), so the hidden game of repetition j -
and with it the recorded actions - depends on the number of worker processes.

Every configuration is run in a fresh interpreter so that the global counter always starts from its import-time value.
Run with cwd = repository root.  Exits 1 and prints FAIL on the defective code.
"""
import json, os, subprocess, sys
os.environ.setdefault("OMP_NUM_THREADS", "1")
sys.dont_write_bytecode = True
sys.path.insert(0, os.getcwd())

N, REPS, LIMIT, SEED = 4, 6, 3, 5


def child(procs):
    import numpy as np
    from incomplete_cooperative.evaluation import evaluate
    from incomplete_cooperative.run.model import ModelInstance
    from incomplete_cooperative.solvers import SOLVERS
    inst = ModelInstance(number_of_players=N, game_generator="predictible_factory", seed=SEED, run_steps_limit=LIMIT,
                         parallel_environments=procs)
    solver = SOLVERS["greedy"](inst)
    gaps, acts = evaluate(solver.next_step, inst.get_env, REPS, LIMIT, inst.gap_function_callable, procs, solver.after_reset)
    print(json.dumps({"gaps": gaps.tolist(), "actions": acts.tolist()}))


def main():
    results = {}
    for procs in (1, 2, 3):
        out = subprocess.run([sys.executable, os.path.abspath(__file__), "child", str(procs)], capture_output=True, text=True,
                             cwd=os.getcwd(), env={**os.environ, "PYTHONDONTWRITEBYTECODE": "1"})
        if out.returncode != 0:
            print("FAIL: child crashed", out.stderr[-500:])
            sys.exit(1)
        results[procs] = json.loads(out.stdout.strip().splitlines()[-1])
        print(f"processes={procs}: actions (rows = steps, columns = repetitions) = {results[procs]['actions']}")
    bad = [p for p in (2, 3) if results[p] != results[1]]
    if bad:
        print("FAIL")
        print(f"  input: generator='predictible_factory', solver='greedy', n={N}, seed={SEED}, repetitions={REPS}, steps={LIMIT}")
        print(f"  observed: matrices for processes={bad} differ from those for processes=1")
        print("  expected: identical gap and action matrices for every number of worker processes")
        sys.exit(1)
    print("PASS")


if __name__ == "__main__":
    if len(sys.argv) == 3 and sys.argv[1] == "child":
        child(int(sys.argv[2]))
    else:
        main()
