"""F9 (C14 / R6): a node described by a list that contains the grand coalition.

Nodes of the regret tree are addressed by lists of coalitions; always-known coalitions in such a list are ignored (the package's
own test_metacoalition_ids_non_viable requires it for singletons).  The size filter of get_metacoalition_id compared with
2**n instead of n, so the grand coalition - present in every list of a game's known coalitions - was mapped to player id -1
and the lookup raised.  Run with PYTHONPATH=/repo; exits 1 if a node lookup fails or is not a distribution.
"""
import itertools
import sys
import warnings

import numpy as np

from incomplete_cooperative.coalitions import Coalition, all_coalitions, grand_coalition
from incomplete_cooperative.regret import GameRegretMinimizer

warnings.simplefilter("ignore")
bad = 0
for n, limit in [(3, 2), (4, 2), (5, 2)]:
    rm = GameRegretMinimizer(n, limit)
    viable = [c for c in all_coalitions(n) if len(c) not in (0, 1, n)]
    leaves = [list(x) for x in itertools.combinations(viable, limit)]
    rm.regret_min_iteration(np.random.default_rng(0).random(len(leaves)), leaves)
    k0 = [Coalition(0)] + [Coalition(2 ** p) for p in range(n)] + [grand_coalition(n)]      # the minimal information of every game
    for extra in ([], [viable[0]]):
        node = k0 + extra
        try:
            cur, avg = rm.regret_matching_strategy(node), rm.get_average_strategy(node)
            same = np.allclose(cur, rm.regret_matching_strategy(extra))
            ok = abs(cur.sum() - 1) < 1e-5 and abs(avg.sum() - 1) < 1e-5 and same
            print(f"n={n}: node = minimal information + {[c.id for c in extra]}: {'ok' if ok else 'WRONG'}")
            bad += not ok
        except Exception as e:  # noqa: BLE001
            print(f"n={n}: node = minimal information + {[c.id for c in extra]}: FAIL {type(e).__name__}: {e}")
            bad += 1
print("FAIL" if bad else "PASS")
sys.exit(1 if bad else 0)
