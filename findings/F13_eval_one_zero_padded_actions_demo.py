"""C12: eval_one() breaks out of its loop when the environment reports `done` (all bounds tight, or nothing left to reveal) and
leaves the rest of the pre-allocated action vector at 0.0.  The action matrix returned by evaluate() then contains id 0 (the empty
coalition: never explorable, never revealed), repeated, instead of a padding value; with the default step limit of `solve`
(2**n rows > 2**n - n - 2 explorable coalitions) EVERY column ends in n + 2 such fake entries.

Run with cwd = repository root.  Exits 1 and prints FAIL on the defective code.
"""
import os, sys
os.environ.setdefault("OMP_NUM_THREADS", "1")
sys.dont_write_bytecode = True
sys.path.insert(0, os.getcwd())
import numpy as np
from incomplete_cooperative.evaluation import evaluate
from incomplete_cooperative.run.model import ModelInstance
from incomplete_cooperative.solvers import SOLVERS


def explorable(coalition_id, n):
    size = bin(int(coalition_id)).count("1")
    return float(coalition_id).is_integer() and 0 < coalition_id < 2**n - 1 and size >= 2


def check(gen, solver_name, n, seed, reps, limit, procs):
    inst = ModelInstance(number_of_players=n, game_generator=gen, seed=seed, run_steps_limit=limit, parallel_environments=procs)
    solver = SOLVERS[solver_name](inst)
    steps = inst.run_steps_limit or 2**n   # exactly what run/solve.py passes
    gaps, acts = evaluate(solver.next_step, inst.get_env, reps, steps, inst.gap_function_callable, procs, solver.after_reset)
    problems = []
    for j in range(reps):
        col = acts[:, j]
        real = col[~np.isnan(col)]           # NaN is the padding value the savers / best_states use for "no action"
        not_expl = [float(x) for x in real if not explorable(x, n)]
        if not_expl or len(set(real.tolist())) != len(real):
            problems.append((j, col.tolist()))
    cfg = f"generator={gen!r}, solver={solver_name!r}, n={n}, seed={seed}, repetitions={reps}, run_steps_limit={limit}, processes={procs}"
    return cfg, problems


def main():
    failed = False
    for args in (("graph_random", "greedy", 4, 7, 7, 5, 1),      # limit 5 < 10 explorable: the bounds become tight early
                 ("xos", "largest", 3, 0, 3, None, 1),           # default limit of `solve`: 2**n rows
                 ("noisy_factory", "random", 4, 1, 4, None, 2)):
        cfg, problems = check(*args)
        if problems:
            failed = True
            print("FAIL:", cfg)
            for j, col in problems[:3]:
                print(f"   repetition {j}: recorded action column = {col}")
            print("   observed: id 0.0 (empty coalition, not explorable, never revealed) recorded, several times, after the episode ended")
            print("   expected: only distinct explorable ids that were actually revealed; NaN for steps that were never taken")
        else:
            print("ok:", cfg)
    if failed:
        sys.exit(1)
    print("PASS")


if __name__ == "__main__":
    main()
