import numpy as np
from incomplete_cooperative.run.model import ModelInstance
from incomplete_cooperative.evaluation import evaluate
from incomplete_cooperative.solvers import SOLVERS
if __name__=='__main__':
    res={}
    for procs in (1,2,4):
        inst=ModelInstance(number_of_players=4, game_generator='factory_fixed', seed=5, run_steps_limit=3)
        s=SOLVERS['random'](inst)
        e,a=evaluate(s.next_step, inst.get_env, 8, 3, inst.gap_function_callable, procs, s.after_reset)
        res[procs]=a
        print(procs, 'distinct action columns:', len({tuple(c) for c in a.T}), a.T.tolist())
    print('same for 1 and 2 processes:', np.array_equal(res[1],res[2]))
