"""C15: a graph game with exact integer weights cannot be normalised (its tabulated form can); a float32 one
normalises to values that differ from the tabulated form by ~1e-8.  Root cause: GraphCooperativeGame keeps the
caller's dtype, IncompleteCooperativeGame converts to float64.

Run with cwd=/tmp/wt6/H09.  Exits 1 / prints FAIL on the unchanged code.
"""
import os
import sys

sys.path.insert(0, os.getcwd())
import numpy as np  # noqa: E402

from incomplete_cooperative.game import IncompleteCooperativeGame  # noqa: E402
from incomplete_cooperative.game_properties import is_superadditive  # noqa: E402
from incomplete_cooperative.graph_game import GraphCooperativeGame  # noqa: E402
from incomplete_cooperative.normalize import denormalize_game, normalize_game  # noqa: E402


def tabulate(game):
    table = IncompleteCooperativeGame(game.number_of_players)
    table.set_values(game.get_values())
    return table


problems = []

# (a) exact integer weights 1, 2, 3 on the triangle
weights = np.array([[0, 1, 2], [0, 0, 3], [0, 0, 0]])
graph = GraphCooperativeGame(weights)
table = tabulate(graph)
original = graph.get_values().copy()
assert is_superadditive(graph) and is_superadditive(table)
normalize_game(table)
expected = table.get_values()  # [0, 0, 0, 1/6, 0, 2/6, 3/6, 1]
try:
    info = normalize_game(graph)
    got = graph.get_values()
    if not np.allclose(got, expected, rtol=0, atol=1e-12):
        problems.append(f"(a) integer graph {weights.tolist()}: normalised {got.tolist()} != tabulated {expected.tolist()}")
    denormalize_game(graph, info)
    if not np.allclose(graph.get_values(), original, rtol=0, atol=1e-12):
        problems.append(f"(a) integer graph: round trip gives {graph.get_values().tolist()} instead of {original.tolist()}")
except Exception as exc:  # noqa: BLE001
    problems.append(f"(a) integer graph {weights.tolist()} (values {original.tolist()}): normalize_game raised "
                    f"{type(exc).__name__}: {exc}; expected the tabulated result {expected.tolist()}")

# (b) float32 weights
weights32 = np.random.default_rng(0).random((5, 5)).astype(np.float32)
graph = GraphCooperativeGame(weights32)
table = tabulate(graph)
normalize_game(graph)
normalize_game(table)
diff = float(np.max(np.abs(graph.get_values() - table.get_values())))
if diff > 1e-12:
    problems.append(f"(b) float32 graph (default_rng(0).random((5,5)).astype(float32)): graph and tabulated "
                    f"normalisation differ by {diff:.3g} (expected <= 1e-12, float64 rounding)")

if problems:
    print("FAIL")
    for p in problems:
        print(p)
    sys.exit(1)
print("PASS")
