"""C19: save() under an EXISTING name is not a no-op.  save_json() refuses to touch the existing entry, but its sibling
save_data_plot() has no such guard and runs first: it silently overwrites data_plots/<name>.png with the plot of the NEW data, so
the plot of the earlier entry is lost and no longer matches data.json.  (save_draw_coalitions() then raises FileExistsError.)

Run with cwd = repository root.  Exits 1 and prints FAIL on the defective code.
"""
import hashlib, os, sys, tempfile
os.environ.setdefault("OMP_NUM_THREADS", "1")
os.environ.setdefault("MPLBACKEND", "Agg")
sys.dont_write_bytecode = True
sys.path.insert(0, os.getcwd())
from argparse import Namespace
from pathlib import Path
import numpy as np
from incomplete_cooperative.run.save import Output, save


def snapshot(root):
    return {str(p.relative_to(root)): hashlib.sha256(p.read_bytes()).hexdigest()
            for p in sorted(Path(root).rglob("*")) if p.is_file()}


def main():
    first = Output(np.array([[4.0, 5.0], [2.0, 3.0], [0.0, 1.0]]), np.array([[3.0, 5.0], [6.0, 3.0]]),
                   Namespace(func="solve_func", seed=1))
    second = Output(np.array([[40.0, 50.0], [39.0, 49.0], [38.0, 48.0]]), np.array([[6.0, 6.0], [5.0, 5.0]]),
                    Namespace(func="solve_func", seed=2))
    with tempfile.TemporaryDirectory() as tmp:
        root = Path(tmp) / "model"
        save(root, "run", first)
        before = snapshot(root)
        raised = None
        try:
            save(root, "run", second)
        except Exception as ex:  # noqa
            raised = f"{type(ex).__name__}: {ex}"
        after = snapshot(root)
    changed = sorted(k for k in before if after.get(k) != before[k])
    added = sorted(k for k in after if k not in before)
    print("sequence: save(dir, 'run', A); save(dir, 'run', B)")
    print("second save raised:", raised)
    if changed or added:
        print("FAIL")
        print("  observed: files of the existing entry changed by the second save:", changed, "new files:", added)
        print("  expected: saving under an existing name changes nothing (as data.json, which kept entry A)")
        sys.exit(1)
    print("PASS")


if __name__ == "__main__":
    main()
