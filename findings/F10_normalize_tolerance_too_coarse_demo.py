"""C15: normalize_game collapses nearly additive (but NOT additive) exact games to the zero game and loses their surplus.

_normalize_icg treats the game as additive whenever |v(N) - sum v(i)| <= 1e-9 * max|v|.  That relative cut-off is seven
orders of magnitude coarser than float64 rounding, so exactly representable integer / dyadic games whose cooperation
surplus is small compared with the singleton values are normalised to identically 0 (grand coalition 0 instead of 1)
and denormalize_game cannot restore the original grand-coalition value.
Run with cwd = repository root.  Exits 1 / prints FAIL on the defective code, exits 0 / prints PASS once repaired.
"""
import sys

import numpy as np

sys.path.insert(0, ".")
from incomplete_cooperative.coalitions import all_coalitions, grand_coalition  # noqa: E402
from incomplete_cooperative.game import IncompleteCooperativeGame  # noqa: E402
from incomplete_cooperative.game_properties import is_superadditive  # noqa: E402
from incomplete_cooperative.normalize import denormalize_game, normalize_game  # noqa: E402


def build(n, singleton, surplus):
    """Additive game with v(i) = singleton, plus `surplus` on the grand coalition only (all values exact in float64)."""
    game = IncompleteCooperativeGame(n)
    for coalition in all_coalitions(game):
        game.set_value(len(coalition) * singleton, coalition)
    game.set_value(n * singleton + surplus, grand_coalition(n))
    return game


CASES = [
    ("integer game, n=3, v(i)=2**31, v(N)=3*2**31+4", 3, float(2**31), 4.0),
    ("dyadic game, n=3, v(i)=1, v(N)=3+2**-30", 3, 1.0, 2.0**-30),
    ("integer game, n=5, v(i)=10**10, v(N)=5*10**10+40", 5, 1e10, 40.0),
]

failures = []
for name, n, singleton, surplus in CASES:
    game = build(n, singleton, surplus)
    original = game.get_values().copy()
    assert is_superadditive(game), "the library must accept the input as superadditive"
    # the input is exact: the surplus is recovered without any rounding
    assert original[-1] - n * singleton == surplus and surplus > 0

    expected = np.zeros(2**n)
    expected[-1] = 1.0  # not additive => grand coalition 1, everything else (singletons, additive sub-coalitions) 0

    info = normalize_game(game)
    normalized = game.get_values().copy()
    denormalize_game(game, info)
    restored = game.get_values().copy()

    problems = []
    if not np.allclose(normalized, expected, rtol=0, atol=1e-12):
        problems.append(f"normalized grand coalition = {normalized[-1]!r} (expected 1.0); "
                        f"normalized values = {normalized.tolist()}")
    # 'to float rounding': allow 8 ulps of the largest value
    tol = 8 * np.spacing(np.max(np.abs(original)))
    err = np.max(np.abs(restored - original))
    if err > tol:
        problems.append(f"denormalize(normalize(v)) differs from v by {err!r} at the grand coalition "
                        f"(restored {restored[-1]!r}, original {original[-1]!r}, float tolerance {tol!r})")
    if problems:
        failures.append((name, problems))

if failures:
    print("FAIL")
    for name, problems in failures:
        print(f"  input: {name}")
        for p in problems:
            print(f"    observed: {p}")
    print("  expected: a superadditive game that is not additive normalises to grand coalition 1 and "
          "denormalising restores the original values to float rounding")
    sys.exit(1)
print("PASS")
