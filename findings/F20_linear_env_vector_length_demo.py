"""C16: the size-aggregated observation / mask are shorter than n when the underlying environment has no explorable
coalition of size n-1 (np.bincount without minlength), so they no longer match the declared spaces.

Run with cwd=/tmp/wt6/H09.  Exits 1 / prints FAIL on the unchanged code.
"""
import os
import sys
from functools import partial

sys.path.insert(0, os.getcwd())
import numpy as np  # noqa: E402

from incomplete_cooperative.bounds import BOUNDS  # noqa: E402
from incomplete_cooperative.coalitions import all_coalitions, minimal_game_coalitions  # noqa: E402
from incomplete_cooperative.game import IncompleteCooperativeGame  # noqa: E402
from incomplete_cooperative.generators import GENERATORS  # noqa: E402
from incomplete_cooperative.icg_gym import ICG_Gym  # noqa: E402
from incomplete_cooperative.icg_gym_linear import ICG_Gym_Linear  # noqa: E402
from incomplete_cooperative.norms import l1_norm  # noqa: E402

problems = []
for n in (4, 5, 6):
    game = IncompleteCooperativeGame(n, BOUNDS["superadditive"])
    # minimal information plus the values of all coalitions N \ {i}
    known = list(minimal_game_coalitions(n)) + [c for c in all_coalitions(n) if len(c) == n - 1]
    gym = ICG_Gym(game, partial(GENERATORS["factory"], n, np.random.default_rng(0)), known, l1_norm)
    lin = ICG_Gym_Linear(gym, np.random.default_rng(0))
    obs, _ = lin.reset()
    mask = lin.action_masks()
    expected_mask = np.zeros(n, bool)
    for c in gym.explorable_coalitions:
        expected_mask[len(c)] |= not gym.incomplete_game.is_value_known(c)
    if obs.shape != (n,) or obs.shape != lin.observation_space.shape:
        problems.append(f"n={n}, known = minimal + all coalitions of size n-1: reset observation has shape {obs.shape}, "
                        f"expected ({n},) = observation_space.shape {lin.observation_space.shape}")
    if mask.shape != (n,) or not np.array_equal(mask, expected_mask):
        problems.append(f"n={n}: action mask {mask.tolist()} (length {len(mask)}), expected {expected_mask.tolist()} "
                        f"for action_space Discrete({lin.action_space.n})")
    k = int(np.flatnonzero(mask)[0])
    obs, *_ = lin.step(k)
    if obs.shape != (n,):
        problems.append(f"n={n}: observation after step(size={k}) has shape {obs.shape}, expected ({n},)")

if problems:
    print("FAIL")
    for p in problems:
        print(p)
    sys.exit(1)
print("PASS")
