"""C19: saving under a NEW name must leave every earlier entry unchanged (its plots included, cf. F14/F15).

The names "a" and "./a" are different names (two different keys of data.json), but the plot saver joins the raw
name onto its directory, so both resolve to data_plots/a.png: the second save redraws the first run's plot with the
second run's data and then dies with FileExistsError in the coalition-plot saver.

Run with cwd = the repository root:  python demo_1.py   (exit 1 = property violated)
"""
import hashlib
import os
import sys
import tempfile
from argparse import Namespace
from pathlib import Path

sys.path.insert(0, os.getcwd())
import matplotlib  # noqa: E402

matplotlib.use("Agg")
import numpy as np  # noqa: E402

from incomplete_cooperative.run.save import get_outputs_from_file, save  # noqa: E402
from incomplete_cooperative.run.save import Output  # noqa: E402


def digest(path: Path) -> str:
    return hashlib.sha256(path.read_bytes()).hexdigest()[:16]


def snapshot(root: Path) -> dict:
    return {str(p.relative_to(root)): digest(p) for p in sorted(root.rglob("*")) if p.is_file() and p.name != "data.json"}


first = Output(np.array([[0.9, 0.8], [0.5, 0.4], [0.1, 0.0]]), np.array([[3.0, 5.0], [6.0, np.nan]]),
               Namespace(func="solve", number_of_players=3))
second = Output(np.array([[5.0, 7.0], [6.0, 9.0], [8.0, 8.5]]), np.array([[6.0, 6.0], [5.0, 3.0]]),
                Namespace(func="solve", number_of_players=3))

with tempfile.TemporaryDirectory() as tmp:
    root = Path(tmp) / "model"
    save(root, "a", first)
    before = snapshot(root)
    error = None
    try:
        save(root, "./a", second)          # e.g. `--unique-name ./a`
    except Exception as exc:  # noqa: BLE001
        error = exc
    after = snapshot(root)
    stored = get_outputs_from_file(root / "data.json")

changed = sorted(name for name in before if after.get(name) != before[name])
print("names stored in data.json      :", sorted(stored))
print("second save raised             :", repr(error))
print("files of run 'a' before        :", before)
print("files of run 'a' after './a'   :", {k: after.get(k) for k in before})
print("expected: no file of the earlier entry 'a' changes (a new name was saved)")
print("observed: changed files        :", changed)
if changed:
    print("FAIL")
    sys.exit(1)
print("PASS")
