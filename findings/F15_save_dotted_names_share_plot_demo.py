"""C19: save_data_plot() builds the file name with `(path / unique_name).with_suffix(".png")`, which REPLACES everything after the
last dot of the name.  Two different names that differ only after the last dot - e.g. the default names, ISO timestamps with
microseconds such as 2026-10-01T12:00:00.123456 - map to the same plot file, so saving under a NEW name overwrites the plot of an
EARLIER entry.

Run with cwd = repository root.  Exits 1 and prints FAIL on the defective code.
"""
import hashlib, os, sys, tempfile
os.environ.setdefault("OMP_NUM_THREADS", "1")
os.environ.setdefault("MPLBACKEND", "Agg")
sys.dont_write_bytecode = True
sys.path.insert(0, os.getcwd())
from argparse import Namespace
from pathlib import Path
import numpy as np
from incomplete_cooperative.run.save import Output, get_outputs_from_file, save


def snapshot(root):
    return {str(p.relative_to(root)): hashlib.sha256(p.read_bytes()).hexdigest()
            for p in sorted(Path(root).rglob("*")) if p.is_file() and p.name != "data.json"}


def main():
    names = ["2026-10-01T12:00:00.123456", "2026-10-01T12:00:00.654321", "run.1", "run.2", "run"]
    failures = []
    with tempfile.TemporaryDirectory() as tmp:
        root = Path(tmp) / "model"
        for i, name in enumerate(names):
            out = Output(np.array([[4.0 + i, 5.0], [2.0, 3.0 + i], [0.5 * i, 1.0]]), np.array([[3.0, 5.0], [6.0, 3.0]]),
                         Namespace(func="solve_func", seed=i))
            before = snapshot(root) if root.exists() else {}
            save(root, name, out)
            after = snapshot(root)
            changed = sorted(k for k in before if after.get(k) != before[k])
            print(f"save(dir, {name!r}, ...): files of earlier entries that changed: {changed}")
            if changed:
                failures.append((name, changed))
        plots = sorted(p.name for p in (root / "data_plots").iterdir())
        entries = sorted(get_outputs_from_file(root / "data.json"))
    print("entries in data.json:", entries)
    print("files in data_plots :", plots)
    if failures or len(plots) != len(names):
        print("FAIL")
        for name, changed in failures:
            print(f"  saving under the NEW name {name!r} overwrote {changed}")
        print(f"  observed: {len(plots)} plot files for {len(names)} distinct entries; expected one plot per entry, earlier ones untouched")
        sys.exit(1)
    print("PASS")


if __name__ == "__main__":
    main()
