"""C12, independence clause: with the registered continuous-valued generator `xos_one`
every repetition of evaluate() is played on ONE and the same hidden game.

Run with cwd = the worktree:  /venv/bin/python /tmp/hunt3_out/H07/demo_1.py
Exit code 1 = property violated (FAIL), 0 = holds.
"""
import itertools
import os
import sys

sys.path.insert(0, os.getcwd())

import numpy as np

from incomplete_cooperative.evaluation import evaluate
from incomplete_cooperative.run.model import ModelInstance
from incomplete_cooperative.solvers import SOLVERS

N, REPS, SEED = 4, 6, 5


def hidden_games(generator: str, seed: int) -> list[np.ndarray]:
    """The hidden game each repetition of evaluate() is played on (same env construction as `solve`)."""
    instance = ModelInstance(number_of_players=N, game_generator=generator, seed=seed, run_steps_limit=2**N)
    games = []
    for _ in range(REPS):
        env = instance.get_env()          # what evaluate() calls once per repetition
        _, info = env.reset()             # what eval_one() does first
        games.append(np.array(info["game"].get_values()))
    return games


def gaps(generator: str, seed: int, processes: int) -> np.ndarray:
    instance = ModelInstance(number_of_players=N, game_generator=generator, seed=seed, run_steps_limit=2**N,
                             parallel_environments=processes)
    solver = SOLVERS["largest"](instance)  # deterministic solver: the curve is a function of the hidden game only
    return evaluate(solver.next_step, instance.get_env, REPS, 2**N, instance.gap_function_callable,
                    processes, solver.after_reset)[0]


fail = False
for generator in ("xos", "xos_one"):
    games = hidden_games(generator, SEED)
    replays = [(a, b) for a, b in itertools.combinations(range(REPS), 2) if np.array_equal(games[a], games[b])]
    curves = gaps(generator, SEED, 1)
    distinct_curves = len({tuple(curves[:, j]) for j in range(REPS)})
    other_seed_same = np.array_equal(hidden_games(generator, SEED + 1)[0], games[0])
    print(f"{generator:8s}: {REPS} repetitions -> {REPS - len({g.tobytes() for g in games}) } duplicated hidden games, "
          f"{len(replays)} replaying pairs, {distinct_curves} distinct gap curves, "
          f"same game under another seed: {other_seed_same}")
    if generator == "xos_one":
        print("  row 0 of the gap matrix (gap at minimal information, one entry per repetition):", curves[0])
        print(f"  expected: {REPS} pairwise different hidden games / {REPS} different gap curves "
              f"(continuous-valued family, independent draws); observed: {len({g.tobytes() for g in games})} game, "
              f"{distinct_curves} curve")
        if replays or distinct_curves < REPS:
            fail = True

print("FAIL: repetitions of xos_one are replays of one another" if fail else "PASS")
sys.exit(1 if fail else 0)
