"""C15: a float game that is superadditive over the reals (checked exactly) and nearly additive normalises outside [0,1].

Run with cwd=/tmp/wt6/H09.  Exits 1 / prints FAIL on the unchanged code.
"""
import os
import sys
from fractions import Fraction as F

sys.path.insert(0, os.getcwd())
import numpy as np  # noqa: E402

from incomplete_cooperative.game import IncompleteCooperativeGame  # noqa: E402
from incomplete_cooperative.game_properties import is_superadditive  # noqa: E402
from incomplete_cooperative.normalize import normalize_game  # noqa: E402

N = 3
# coalition ids 0..7 (bit i = player i).  An additive game plus a synergy of 35 ulp between players 0 and 1.
HEX = ['0x0.0p+0', '0x1.2bf59f0604f4ap-4', '0x1.37166f0397658p-2', '0x1.8213d6c518a4ep-2',
       '0x1.488775cebe380p-9', '0x1.3639dab47ae66p-4', '0x1.39a77def34e1fp-2', '0x1.84a4e5b0b6215p-2']
values = np.array([float.fromhex(x) for x in HEX])


def exactly_superadditive(v, n):
    """Superadditivity over the reals of the stored doubles, by exact rational arithmetic."""
    for u in range(1, 2**n):
        s = (u - 1) & u
        while s:
            if F(float(v[u])) < F(float(v[s])) + F(float(v[u ^ s])):
                return False
            s = (s - 1) & u
    return True


game = IncompleteCooperativeGame(N)
game.set_values(values)
assert exactly_superadditive(values, N), "input must be superadditive over the reals"
assert is_superadditive(game, rtol=0, atol=0), "the library must accept the input without any tolerance"
exact_surplus = [F(float(values[u])) - sum(F(float(values[1 << i])) for i in range(N) if u >> i & 1) for u in range(2**N)]
exact_normalised = [float(s / exact_surplus[-1]) for s in exact_surplus]

normalize_game(game)
got = game.get_values()
TOL = 1e-9  # far above float rounding
ok_range = got.min() >= -TOL and got.max() <= 1 + TOL
ok_sa = is_superadditive(game)
ok_grand = abs(got[-1] - 1) <= TOL or not np.any(got)
if ok_range and ok_sa and ok_grand:
    print("PASS")
    sys.exit(0)
print("FAIL")
print("input values (coalition id order):", [repr(float(x)) for x in values])
print("exactly superadditive over the reals: True; is_superadditive(rtol=0): True")
print("expected normalised values (exact arithmetic):", exact_normalised)
print("observed normalised values                   :", got.tolist())
print(f"observed max = {got.max()!r} (expected <= 1); normalised game superadditive per library: {ok_sa}")
sys.exit(1)
