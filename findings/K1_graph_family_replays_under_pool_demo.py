"""C12: the graph / graph_tirangular / graph_increasing / graph_decreasing / graph_beta_* / graph_03_03 / graph_poiss_* generators
draw from the module-global, unseeded `generators._gen` instead of the environment's stream.  Under a worker pool every task
unpickles / inherits the same copy of that generator, so all repetitions are evaluated on THE SAME hidden game, the result
depends on the process count, and the seed has no influence at all.

Run with cwd = repository root.  Exits 1 and prints FAIL on the defective code.
"""
import os, sys
os.environ.setdefault("OMP_NUM_THREADS", "1")
sys.dont_write_bytecode = True
sys.path.insert(0, os.getcwd())
import numpy as np
from incomplete_cooperative.evaluation import evaluate
from incomplete_cooperative.run.model import ModelInstance
from incomplete_cooperative.solvers import SOLVERS

N, REPS, LIMIT, SEED = 4, 8, 3, 5


def run(gen, procs):
    inst = ModelInstance(number_of_players=N, game_generator=gen, seed=SEED, run_steps_limit=LIMIT,
                         parallel_environments=procs)
    solver = SOLVERS["largest"](inst)
    return evaluate(solver.next_step, inst.get_env, REPS, LIMIT, inst.gap_function_callable, procs, solver.after_reset)


def distinct_columns(m):
    return len({tuple(m[:, j]) for j in range(m.shape[1])})


def main():
    failures = []
    for gen in ("graph_beta_2_3", "graph_tirangular", "graph"):
        res = {p: run(gen, p) for p in (1, 2, 4)}
        again = run(gen, 1)
        for p, (gaps, acts) in res.items():
            d = distinct_columns(gaps)
            print(f"{gen}: processes={p}: {d} distinct gap trajectories among {REPS} repetitions; row 0 = {np.round(gaps[0], 4)}")
            if d < REPS:
                failures.append(f"{gen}, seed={SEED}, repetitions={REPS}, processes={p}: only {d} distinct hidden games "
                                f"(continuous-valued generator: expected {REPS} distinct, independently drawn games)")
        for p in (2, 4):
            if not (np.array_equal(res[1][0], res[p][0]) and np.array_equal(res[1][1], res[p][1])):
                failures.append(f"{gen}, seed={SEED}: result with processes={p} differs from processes=1")
        if not np.array_equal(res[1][0], again[0]):
            failures.append(f"{gen}: two runs with the same seed={SEED} and processes=1 differ (seed ignored)")
    if failures:
        print("FAIL")
        for f in failures:
            print("  -", f)
        print("expected: for a fixed seed the same matrices for every process count, and 8 pairwise different hidden games")
        sys.exit(1)
    print("PASS")


if __name__ == "__main__":
    main()
