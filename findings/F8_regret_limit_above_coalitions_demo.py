"""F8 (C14 / R5): GameRegretMinimizer with a reveal limit above the number of viable coalitions.

The ranking of coalition sets clips the limit (metacoalition_ids_by_coalition_size), the count of regret minimisers did
not: for limit > 2**n - n - 2 the terminal node got a minimiser with nothing left to choose, its strategy was 0/0, and
the bottom-up sweep spread the NaN to every node.  Run with PYTHONPATH=/repo; exits 1 if a strategy is not a distribution.
"""
import itertools
import sys
import warnings

import numpy as np

from incomplete_cooperative.coalitions import all_coalitions
from incomplete_cooperative.regret import GameRegretMinimizer

warnings.simplefilter("ignore")
bad = 0
for n, limit in [(3, 2), (3, 3), (3, 4), (3, 10), (4, 10), (4, 11), (4, 50)]:
    for plus in (False, True):
        rm = GameRegretMinimizer(n, limit, plus)
        viable = [c for c in all_coalitions(n) if len(c) not in (0, 1, n)]
        leaves = [list(x) for x in itertools.combinations(viable, min(limit, len(viable)))]
        rng = np.random.default_rng(0)
        for _ in range(3):
            rm.regret_min_iteration(rng.random(len(leaves)), leaves)
        root, avg = rm.regret_matching_strategy([]), rm.get_average_strategy([])
        ok = np.isfinite(root).all() and np.isfinite(avg).all() and abs(root.sum() - 1) < 1e-5 and abs(avg.sum() - 1) < 1e-5
        print(f"n={n} limit={limit} plus={plus}: minimisers={rm.number_of_regret_minimizers} of {rm.viable_metacoalitions} sets, root={np.round(root, 3)} -> {'ok' if ok else 'NOT A DISTRIBUTION'}")
        bad += not ok
sys.exit(1 if bad else 0)
