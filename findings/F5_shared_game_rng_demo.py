import numpy as np, sys
from incomplete_cooperative.run.model import ModelInstance
from incomplete_cooperative.evaluation import evaluate
from incomplete_cooperative.solvers import SOLVERS
res={}
for procs in (1,2,4,7):
    inst=ModelInstance(number_of_players=4, game_generator='noisy_factory', seed=7, run_steps_limit=3)
    s=SOLVERS['greedy'](inst)
    seen=[]
    e,a=evaluate(s.next_step, inst.get_env, 12, 3, inst.gap_function_callable, procs, s.after_reset)
    res[procs]=(e,a)
    print(procs, len(set(np.round(e[0],6))), 'distinct initial gaps')
print(all(np.array_equal(res[1][0],res[p][0]) and np.array_equal(res[1][1],res[p][1]) for p in res))
