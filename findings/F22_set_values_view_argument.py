"""C17: `set_values` reads its `values` argument twice, the second time after it has already written.

A caller who passes a live view of this very game (what `get_values()` / `get_upper_bounds()` return, sliced or
reversed - no copy is made) gets known coalitions whose lower bound differs from their upper bound, and
`get_value` / `get_values` disagree about "the" value.  Sibling of the repaired F11 (`set_known_values`).

Run with cwd = the repository root:  python demo_1.py   (exit 1 = property violated)
"""
import os
import sys

sys.path.insert(0, os.getcwd())  # the package is taken from the current directory (the worktree)

import numpy as np  # noqa: E402

from incomplete_cooperative.coalitions import Coalition
from incomplete_cooperative.game import IncompleteCooperativeGame

failures = []


def report(title, game, expected):
    n_coal = 2**game.number_of_players
    lower = np.array([game.get_lower_bound(Coalition(i)) for i in range(n_coal)])
    upper = np.array([game.get_upper_bound(Coalition(i)) for i in range(n_coal)])
    single = np.array([game.get_value(Coalition(i)) for i in range(n_coal)])
    bulk = np.array(game.get_values())
    print(title)
    print("  expected value of every (known) coalition:", expected)
    print("  observed get_value(c) for each c          :", single)
    print("  observed get_values()                     :", bulk)
    print("  observed lower bounds                     :", lower)
    print("  observed upper bounds                     :", upper)
    ok = all(game.is_value_known(Coalition(i)) for i in range(n_coal)) and \
        np.array_equal(lower, expected) and np.array_equal(upper, expected) and \
        np.array_equal(single, expected) and np.array_equal(bulk, expected)
    print("  ->", "ok" if ok else "VIOLATION: a known coalition must have lower = upper = its value")
    if not ok:
        failures.append(title)


# 1. the complement game  w(S) = v(N \ S):  id(N \ S) = 2^n - 1 - id(S), so it is the reversed value vector
game = IncompleteCooperativeGame(2)
game.set_values(np.array([0., 1., 2., 5.]))
game.set_values(game.get_values()[::-1])          # bulk set, all coalitions
report("complement game: g.set_values(g.get_values()[::-1])", game, np.array([5., 2., 1., 0.]))

# 2. bulk set of a subset: coalitions 2, 3, 4 receive the current values of coalitions 1, 2, 3
game = IncompleteCooperativeGame(3)
game.set_values(np.arange(8.))
game.set_values(game.get_values()[1:4], [Coalition(2), Coalition(3), Coalition(4)])
report("shift: g.set_values(g.get_values()[1:4], [C(2), C(3), C(4)])", game,
       np.array([0., 1., 1., 2., 3., 5., 6., 7.]))

# control: the same calls with a materialised argument are fine
game = IncompleteCooperativeGame(2)
game.set_values(np.array([0., 1., 2., 5.]))
game.set_values(game.get_values()[::-1].copy())
report("control (argument copied by the caller)", game, np.array([5., 2., 1., 0.]))

if failures:
    print("FAIL:", failures)
    sys.exit(1)
print("PASS")
