"""C15: exact integer (dyadic) superadditive games that are NOT additive are flattened to the zero game, and
de-normalising does not restore them: the additive-game guard compares the surplus with max|v| * eps * 2n^2 although
every subtraction was exact, so the "residue" it discards is the real surplus.

Run with cwd=/tmp/wt6/H09.  Exits 1 / prints FAIL on the unchanged code.
"""
import os
import sys
from fractions import Fraction as F

sys.path.insert(0, os.getcwd())
import numpy as np  # noqa: E402

from incomplete_cooperative.game import IncompleteCooperativeGame  # noqa: E402
from incomplete_cooperative.game_properties import is_superadditive  # noqa: E402
from incomplete_cooperative.normalize import denormalize_game, normalize_game  # noqa: E402

B = 2.0**48
CASES = {
    # coalition ids 0..7, bit i = player i
    "singletons (+2^48, -2^48, 0), players 0 and 1 create a surplus of 1":
        [0.0, B, -B, 1.0, 0.0, B, -B, 1.0],
    "singletons 2^49 each, the grand coalition creates a surplus of 4":
        [0.0, 2 * B, 2 * B, 4 * B, 2 * B, 4 * B, 4 * B, 6 * B + 4],
}


def exactly_superadditive(v, n):
    for u in range(1, 2**n):
        s = (u - 1) & u
        while s:
            if F(v[u]) < F(v[s]) + F(v[u ^ s]):
                return False
            s = (s - 1) & u
    return True


problems = []
for label, vals in CASES.items():
    n = 3
    vals = [float(x) for x in vals]
    assert all(x == int(x) for x in vals)  # exact integers, all exactly representable
    assert exactly_superadditive(vals, n)
    game = IncompleteCooperativeGame(n)
    game.set_values(np.array(vals))
    assert is_superadditive(game, rtol=0, atol=0)
    surplus = [F(vals[u]) - sum(F(vals[1 << i]) for i in range(n) if u >> i & 1) for u in range(2**n)]
    assert surplus[-1] > 0  # the game is not additive
    expected = [float(s / surplus[-1]) for s in surplus]
    info = normalize_game(game)
    got = game.get_values().tolist()
    denormalize_game(game, info)
    back = game.get_values().tolist()
    if not np.allclose(got, expected, rtol=0, atol=1e-9):
        problems.append(f"{label}\n   values     {vals}\n   expected normalised {expected}\n   observed normalised {got}")
    if back != vals and not np.allclose(back, vals, rtol=1e-15, atol=0):
        problems.append(f"{label}\n   values     {vals}\n   after normalise+denormalise {back}")

if problems:
    print("FAIL")
    for p in problems:
        print(p)
    sys.exit(1)
print("PASS")
