"""C19 finding 1: a run name containing a path separator makes save() fail in the plot saver, which runs BEFORE data.json is written,
so the computed matrices are lost (run with cwd=/tmp/wt6/H07).  Exits 1 / FAIL on the unchanged code."""
import hashlib
import os
import shutil
import sys
import tempfile
from argparse import Namespace
from pathlib import Path

os.environ.setdefault("OMP_NUM_THREADS", "1")
os.environ.setdefault("MPLBACKEND", "Agg")
sys.path.insert(0, os.getcwd())

import numpy as np  # noqa: E402

from incomplete_cooperative.run.save import Output, get_outputs_from_file, save  # noqa: E402

tmp = Path(tempfile.mkdtemp(prefix="h07_f1_"))
model_dir = tmp / "model"
problems = []
try:
    gaps1 = np.array([[3.0, 2.5], [1.0, 0.5], [0.0, 0.0]])
    acts1 = np.array([[7.0, 11.0], [13.0, np.nan]])
    save(model_dir, "first", Output(gaps1, acts1, Namespace(func="eval", seed=1)))
    first_before = (model_dir / "data.json").read_text()

    gaps2 = np.array([[9.0, 8.0], [4.0, np.nan], [-1.0, 1e30]])
    acts2 = np.array([[3.0, 5.0], [6.0, np.nan]])
    name = "exp/run1"
    error = None
    try:
        save(model_dir, name, Output(gaps2, acts2, Namespace(func="eval", seed=2)))
    except Exception as e:  # noqa: BLE001
        error = e
    stored = get_outputs_from_file(model_dir / "data.json")
    if name not in stored:
        problems.append(f"save(model_dir, {name!r}, ...) raised {error!r} and the run is not in data.json afterwards: "
                        f"its gap and action matrices are lost (entries present: {sorted(stored)})")
    else:
        if not (np.array_equal(stored[name].data, gaps2, equal_nan=True)
                and np.array_equal(stored[name].actions, acts2, equal_nan=True)):
            problems.append("the stored matrices differ from the saved ones")
    if "first" not in stored or not np.array_equal(stored["first"].data, gaps1, equal_nan=True):
        problems.append("the earlier entry 'first' changed")

    # additional observation (not part of the verdict): a new name that normalises to an old file name overwrites that run's plot
    plot = model_dir / "data_plots" / "first.png"
    digest = hashlib.sha256(plot.read_bytes()).hexdigest()
    try:
        save(model_dir, "./first", Output(gaps2 * 2, acts2, Namespace(func="eval", seed=3)))
    except Exception as e:  # noqa: BLE001
        print(f"note: save(model_dir, './first', ...) raised {e!r}")
    if hashlib.sha256(plot.read_bytes()).hexdigest() != digest:
        print("note: saving the NEW name './first' overwrote data_plots/first.png of the earlier run 'first'")
finally:
    shutil.rmtree(tmp, ignore_errors=True)

if problems:
    print("FAIL")
    print("input: save(model_dir, 'first', ...) followed by save(model_dir, 'exp/run1', Output(3x2 gaps, 2x2 actions, metadata))")
    print("expected: the new run is stored in data.json and reads back exactly; the earlier entry is unchanged")
    print("observed:")
    for p in problems:
        print("  -", p)
    sys.exit(1)
print("PASS")
