#!/usr/bin/env python3
"""Confirm a behaviour-preserving refactoring written by a sub-agent and store it under /verif/twins/<id>-<k>/.

usage: tools/confirm_twin.py <id> <k>      (reads $TWIN_SRC/<id>/patch_k.diff, equiv_k.py, notes.json; default TWIN_SRC=/tmp/twin_out)

In a scratch git worktree of /repo (removed afterwards): the patch applies; the agent's differential script (original sources from
git vs the patched tree, separate interpreters, exact comparison) exits 0; every BASELINE stable test still passes."""
import json
import os
import shutil
import subprocess
import sys
import tempfile
import xml.etree.ElementTree as ET
from pathlib import Path

VERIF = Path(__file__).resolve().parent.parent
tid, k = sys.argv[1], sys.argv[2]
src = Path(os.environ.get("TWIN_SRC", "/tmp/twin_out")) / tid
patch, equiv = src / f"patch_{k}.diff", src / f"equiv_{k}.py"
notes = {}
try:
    for n in json.loads((src / "notes.json").read_text()):
        if str(n.get("k")) == str(k):
            notes = n
except Exception:
    pass
sid = f"{tid}-{k}"
wt = Path(tempfile.mkdtemp(prefix=f"icg_twinconf_{sid}_"))
wt.rmdir()
subprocess.run(["git", "-C", "/repo", "worktree", "add", "-q", "--detach", str(wt), "HEAD"], check=True)
try:
    ap = subprocess.run(["git", "-C", str(wt), "apply", str(patch)], capture_output=True, text=True)
    if ap.returncode != 0:
        print(f"{sid}: patch does not apply: {ap.stderr[:300]}")
        sys.exit(2)
    env = dict(os.environ, OMP_NUM_THREADS="1", MKL_NUM_THREADS="1", PYTHONPATH=str(wt))
    eq = subprocess.run(["/venv/bin/python", str(equiv)], cwd=wt, capture_output=True, text=True, timeout=3600, env=env)
    touched = [l[6:] for l in patch.read_text().splitlines() if l.startswith("+++ b/")]
    need_learn = any(t.endswith(("run/model.py", "icg_gym.py", "icg_gym_linear.py", "feature_extractors.py", "run/learn.py")) for t in touched)
    xml = wt / "r.xml"
    cmd = ["/venv/bin/python", "-m", "pytest", "-q", "-p", "no:cacheprovider", "--timeout=3000", "--continue-on-collection-errors",
           f"--junitxml={xml}", "-n", os.environ.get("CONFIRM_JOBS", "4")]
    if not need_learn:
        cmd += ["--deselect", "incomplete_cooperative/tests/test_run_learn.py"]
    env.pop("PYTHONPATH")
    subprocess.run(cmd, cwd=wt, capture_output=True, text=True, env=env)
    stable = set(json.load(open("/root/.vp/BASELINE.json"))["stable_pass"])
    if not need_learn:
        stable = {t for t in stable if "test_run_learn" not in t}
    passed = set()
    for tc in ET.parse(xml).getroot().iter("testcase"):
        if not any(c.tag in ("failure", "error", "skipped") for c in tc):
            passed.add(f"{tc.get('classname')}::{tc.get('name')}")
    missing = sorted(stable - passed)
    ok = eq.returncode == 0 and not missing
    print(f"{sid}: equiv exit {eq.returncode}, missing stable tests {len(missing)} {missing[:3]} -> {'CONFIRMED' if ok else 'REJECTED'}")
    if not ok:
        print("   equiv tail:", (eq.stdout + eq.stderr)[-300:])
        sys.exit(1)
    dest = VERIF / "twins" / sid
    dest.mkdir(parents=True, exist_ok=True)
    shutil.copy(patch, dest / "patch.diff")
    shutil.copy(equiv, dest / "equiv.py")
    (dest / "meta.json").write_text(json.dumps({"kind": notes.get("kind", ""), "summary": notes.get("summary", ""), "files": touched,
                                                "why_equivalent": notes.get("why_equivalent", "")}, indent=1))
    (dest / "confirm.json").write_text(json.dumps({"applies": True, "equiv_rc": eq.returncode, "stable_missing": missing,
                                                   "suite": f"{len(stable) - len(missing)}/{len(stable)} stable tests pass ({'incl.' if need_learn else 'without'} learn tests)"}, indent=1))
finally:
    subprocess.run(["git", "-C", "/repo", "worktree", "remove", "--force", str(wt)], capture_output=True)
    shutil.rmtree(wt, ignore_errors=True)
