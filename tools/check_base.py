#!/usr/bin/env python3
"""Developer tool: run every check against the pinned base commit of /repo (the tree before any `fix:` commit) and verify that
every finding recorded as `fixed` (and every `open` one) in known_findings.json is REPORTED there - a fixed entry suppresses
nothing, so on the unrepaired tree the violation must come back under exactly the recorded key."""
import json
import subprocess
import sys
import tempfile
from pathlib import Path

VERIF = Path(__file__).resolve().parent.parent
base = subprocess.run(["git", "-C", "/repo", "log", "--format=%H", "--grep=^fix:", "--invert-grep", "-1"], capture_output=True, text=True).stdout.strip()
known = json.loads((VERIF / "known_findings.json").read_text())["findings"]
props = sorted({k["property"] for k in known})
sys.path.insert(0, str(VERIF))
from icgsa.__main__ import run_rules  # noqa: E402
from icgsa.core import Program  # noqa: E402
from icgsa.report import Collector  # noqa: E402

with tempfile.TemporaryDirectory(prefix="icg_base_") as td:
    tar = subprocess.run(["git", "-C", "/repo", "archive", base, "incomplete_cooperative"], capture_output=True).stdout
    subprocess.run(["tar", "-x", "-C", td], input=tar, check=True)
    prog = Program(td)
    seen: dict[str, set[str]] = {}
    for pid in props:
        col = Collector(pid)
        errs = run_rules(prog, pid, col)
        seen[pid] = {f.key for f in col.findings}
        print(f"{pid}: {len(seen[pid])} distinct finding keys on the base tree, {len(col.undecided)} undecided, {len(errs)} analysis errors")
# a finding whose entry names the repair that INTRODUCED it ("since") cannot exist on the base tree
missing = [(k["property"], k["key"]) for k in known if k["key"] not in seen.get(k["property"], set()) and not k.get("since")]
later = [(k["property"], k["key"], k["since"]) for k in known if k.get("since")]
for p, k in missing:
    print("NOT REPORTED ON THE BASE TREE:", p, k)
for p, k, c in later:
    print(f"not expected on the base tree (introduced by {c}):", p, k)
print(f"{len(known) - len(missing) - len(later)}/{len(known) - len(later)} recorded findings are reported on the base commit {base[:7]}")
sys.exit(1 if missing else 0)
