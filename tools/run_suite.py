#!/usr/bin/env python3
"""Run the pinned suite of a tree (default /repo) with xdist and compare with BASELINE.stable_pass.

usage: tools/run_suite.py [repo_dir] [-n N] [extra pytest args...]
Prints the stable-pass tests that did not pass.  Developer tool only (not part of any check).
"""
import json
import subprocess
import sys
import tempfile
import xml.etree.ElementTree as ET
from pathlib import Path

args = sys.argv[1:]
repo = "/repo"
if args and not args[0].startswith("-"):
    repo = args.pop(0)
n = "12"
if "-n" in args:
    i = args.index("-n"); n = args[i + 1]; del args[i:i + 2]
base = json.load(open("/root/.vp/BASELINE.json"))
stable = set(base["stable_pass"])
with tempfile.TemporaryDirectory() as td:
    xml = Path(td) / "r.xml"
    cmd = ["/venv/bin/python", "-m", "pytest", "-q", "-p", "no:cacheprovider", "--timeout=900",
           "--continue-on-collection-errors", f"--junitxml={xml}", "-n", n] + args
    r = subprocess.run(cmd, cwd=repo, capture_output=True, text=True)
    print(r.stdout[-1500:])
    passed = set()
    for tc in ET.parse(xml).getroot().iter("testcase"):
        ok = not any(c.tag in ("failure", "error", "skipped") for c in tc)
        name = f"{tc.get('classname')}::{tc.get('name')}"
        cn = tc.get("classname") or ""
        # BASELINE names: module.Class::test or module::test
        if ok:
            passed.add(name)
    def norm(s):
        return s
    missing = sorted(t for t in stable if t not in passed)
    print(f"stable_pass={len(stable)} passed_now={len(passed & stable)} missing={len(missing)}")
    for t in missing[:40]:
        print("  MISSING", t)
    sys.exit(1 if missing else 0)
