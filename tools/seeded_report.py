#!/usr/bin/env python3
"""Run every check of the seeded change's property (and all other properties) against each /verif/seeded/<id>/patch.diff
and write seeded/RESULTS.md + the "detection" block of each meta.json.  Developer tool (not a check)."""
import json
import shutil
import subprocess
import tempfile
from pathlib import Path

VERIF = Path(__file__).resolve().parent.parent
seed_dir = VERIF / "seeded"
props = [json.loads(l)["id"] for l in (VERIF / "properties.jsonl").read_text().splitlines() if l.strip()]
def analyse(d: Path):
    meta = json.loads((d / "meta.json").read_text())
    target = meta["property"]
    with tempfile.TemporaryDirectory(prefix="icg_seedrep_") as td:
        shutil.copytree("/repo/incomplete_cooperative", Path(td) / "incomplete_cooperative", ignore=shutil.ignore_patterns("__pycache__"))
        r = subprocess.run(["patch", "-p1", "-s", "-i", str(d / "patch.diff")], cwd=td, capture_output=True, text=True)
        if r.returncode != 0:
            return (d.name, target, "patch does not apply on the current tree", "", "")
        res = {}
        for pid in props:
            out = subprocess.run([str(VERIF / "check"), pid, "--repo", td, "--no-evidence"], capture_output=True, text=True)
            rules = sorted({ln.split("rule=")[1].split()[0] for ln in out.stdout.splitlines() if ln.startswith("VIOLATION") and "rule=" in ln})
            first = next((ln for ln in out.stdout.splitlines() if ln.startswith("VIOLATION")), "")
            err = next((ln for ln in out.stdout.splitlines() if ln.startswith("ANALYSIS-ERROR")), "")
            if out.returncode == 1:
                res[pid] = {"exit": 1, "rules": rules, "first": first.split(": ", 1)[-1][:220]}
            elif out.returncode == 2:
                res[pid] = {"exit": 2, "rules": [], "first": err[:220]}
    own = res.get(target)
    verdict = "VIOLATION reported" if own and own["exit"] == 1 else ("ANALYSIS-ERROR (idiom outside the recognised family, exit 2)" if own else "not reported")
    others = {k: v["rules"] for k, v in res.items() if k != target and v["exit"] == 1}
    meta["detection"] = {"own_property": own or {"exit": 0}, "verdict": verdict, "also_reported_by": others}
    (d / "meta.json").write_text(json.dumps(meta, indent=1))
    return (d.name, target, verdict, ", ".join(own["rules"]) if own and own["exit"] == 1 else "", ", ".join(f"{k}:{'/'.join(v)}" for k, v in sorted(others.items())))


from concurrent.futures import ThreadPoolExecutor  # noqa: E402
import os  # noqa: E402
with ThreadPoolExecutor(int(os.environ.get("SEED_JOBS", "8"))) as ex:
    rows = list(ex.map(analyse, sorted(p for p in seed_dir.iterdir() if (p / "patch.diff").exists())))
lines = ["# Seeded changes vs. the checks", "",
         "Each change was written by a sub-agent that saw only the property text and its own scratch worktree; it was then confirmed independently",
         "(`tools/confirm_seed.py`: demo passes on the clean tree, fails with the patch, the pinned stable tests still pass) and is analysed here on a",
         "scratch copy of `/repo` with the patch applied (`tools/seeded_report.py`).", "",
         "| seeded change | property | what was changed | verdict of the property's own check | rules that fired | also reported under |", "|---|---|---|---|---|---|"]
for name, target, verdict, rules, others in rows:
    meta = json.loads((seed_dir / name / "meta.json").read_text())
    lines.append(f"| {name} | {target} | {meta.get('summary', '')[:160].replace('|', '/')} | {verdict} | {rules} | {others} |")
n = len(rows)
det = sum(1 for r in rows if r[2].startswith("VIOLATION"))
und = sum(1 for r in rows if r[2].startswith("ANALYSIS"))
lines += ["", f"Totals: {n} confirmed seeded changes; {det} reported as VIOLATION by the property's own check, {und} stopped the check with ANALYSIS-ERROR (exit 2), {n - det - und} not reported."]
(seed_dir / "RESULTS.md").write_text("\n".join(lines) + "\n")
print("\n".join(lines[-3:]))
