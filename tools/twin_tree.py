#!/usr/bin/env python3
"""Whole-tree benign twins: rewrite EVERY function of the package in a behaviour-preserving way and run all checks.

usage: tools/twin_tree.py [rename|reformat|asserts|all]

  reformat  ast.unparse round trip of every module (layout, comments, quotes, parentheses change)
  rename    alpha-renaming of every local variable / loop variable / comprehension variable in every function
  asserts   an `assert True` + a logging call inserted at the top of every function body

Each variant tree is written to a scratch directory outside /repo and /verif, analysed with `./check <ID> --repo <dir>`
for all properties, and removed.  Every check must exit 0 (developer tool - quietness of the rules).
"""
import ast
import json
import shutil
import subprocess
import sys
import tempfile
from pathlib import Path

VERIF = Path(__file__).resolve().parent.parent
sys.path.insert(0, str(VERIF))
PKG = Path("/repo/incomplete_cooperative")


def rename_locals(tree: ast.Module) -> None:
    counter = [0]
    for fn in [n for n in ast.walk(tree) if isinstance(n, ast.FunctionDef)]:
        params = set()
        for n in ast.walk(fn):
            if isinstance(n, ast.arguments):
                for a in n.posonlyargs + n.args + n.kwonlyargs:
                    params.add(a.arg)
                if n.vararg:
                    params.add(n.vararg.arg)
                if n.kwarg:
                    params.add(n.kwarg.arg)
        bound = set()
        glob = set()
        for n in ast.walk(fn):
            if isinstance(n, ast.Name) and isinstance(n.ctx, ast.Store):
                bound.add(n.id)
            if isinstance(n, (ast.Global, ast.Nonlocal)):
                glob.update(n.names)
            if isinstance(n, ast.ExceptHandler) and n.name:
                params.add(n.name)
            if isinstance(n, (ast.Import, ast.ImportFrom)):
                for al in n.names:
                    params.add((al.asname or al.name).split(".")[0])
            if isinstance(n, (ast.FunctionDef, ast.ClassDef)) and n is not fn:
                params.add(n.name)
        targets = bound - params - glob
        mapping = {}
        for name in sorted(targets):
            counter[0] += 1
            mapping[name] = f"v{counter[0]}_{name[:1]}"
        for n in ast.walk(fn):
            if isinstance(n, ast.Name) and n.id in mapping:
                n.id = mapping[n.id]


def add_asserts(tree: ast.Module) -> None:
    for fn in [n for n in ast.walk(tree) if isinstance(n, ast.FunctionDef)]:
        body = fn.body
        i = 1 if body and isinstance(body[0], ast.Expr) and isinstance(body[0].value, ast.Constant) and isinstance(body[0].value.value, str) else 0
        extra = ast.parse("assert True, 'twin'\n__import__('logging').getLogger('twin').debug('enter')").body
        fn.body = body[:i] + extra + body[i:] if len(body) > i else body[:i] + extra + [ast.Pass()]
    ast.fix_missing_locations(tree)


def strip_annotations(tree: ast.Module) -> None:
    for n in ast.walk(tree):
        if isinstance(n, ast.FunctionDef):
            n.returns = None
            for a in n.args.posonlyargs + n.args.args + n.args.kwonlyargs:
                a.annotation = None
            if n.args.vararg:
                n.args.vararg.annotation = None
            if n.args.kwarg:
                n.args.kwarg.annotation = None


def reorder_defs(tree: ast.Module) -> None:
    """Reverse the order of methods inside every class, and of consecutive top-level function definitions."""
    for n in ast.walk(tree):
        if isinstance(n, ast.ClassDef):
            idx = [i for i, x in enumerate(n.body) if isinstance(x, ast.FunctionDef)]
            fns = [n.body[i] for i in idx][::-1]
            for i, f in zip(idx, fns):
                n.body[i] = f
    body = tree.body
    i = 0
    while i < len(body):
        j = i
        while j < len(body) and isinstance(body[j], ast.FunctionDef) and not body[j].decorator_list:
            j += 1
        if j - i > 1:
            body[i:j] = body[i:j][::-1]
        i = max(j, i + 1)


def build(kind: str, dest: Path) -> None:
    shutil.copytree(PKG, dest / "incomplete_cooperative", ignore=shutil.ignore_patterns("__pycache__"))
    for p in (dest / "incomplete_cooperative").rglob("*.py"):
        if "tests" in p.parts:
            continue
        tree = ast.parse(p.read_text())
        if kind == "rename":
            rename_locals(tree)
        elif kind == "asserts":
            add_asserts(tree)
        elif kind == "hoist":
            from icgsa.mutate import hoist_call_arguments
            hoist_call_arguments(tree)
        elif kind == "flipcmp":
            from icgsa.mutate import flip_comparisons
            flip_comparisons(tree)
        elif kind == "swapif":
            from icgsa.mutate import swap_branches
            swap_branches(tree)
        elif kind == "kwcalls":
            from icgsa.core import Program
            from icgsa.mutate import keyword_calls, package_signatures
            global _SIG
            try:
                _SIG
            except NameError:
                _SIG = package_signatures(Program("/repo"))
            keyword_calls(tree, _SIG)
        elif kind == "shift":
            from icgsa.mutate import shift_powers
            shift_powers(tree)
        elif kind == "unroll":
            from icgsa.mutate import unroll_list_comprehensions
            unroll_list_comprehensions(tree)
        elif kind == "noannot":
            strip_annotations(tree)
        elif kind == "reorder":
            reorder_defs(tree)
        p.write_text(ast.unparse(tree) + "\n")


def main() -> int:
    kinds = sys.argv[1:] or ["all"]
    if kinds == ["all"]:
        kinds = ["reformat", "rename", "asserts", "reorder", "hoist", "noannot", "flipcmp", "swapif", "kwcalls", "shift", "unroll"]
    props = [json.loads(l)["id"] for l in (VERIF / "properties.jsonl").read_text().splitlines() if l.strip()]
    bad = 0
    for kind in kinds:
        with tempfile.TemporaryDirectory(prefix=f"icg_twin_{kind}_") as td:
            build(kind, Path(td))
            # the twin must still be valid Python
            for p in Path(td).rglob("*.py"):
                compile(p.read_text(), str(p), "exec")
            for pid in props:
                r = subprocess.run([str(VERIF / "check"), pid, "--repo", td, "--no-evidence"], capture_output=True, text=True)
                if r.returncode != 0:
                    bad += 1
                    lines = [ln for ln in r.stdout.splitlines() if ln.startswith(("VIOLATION", "ANALYSIS-ERROR"))]
                    print(f"[{kind}] {pid}: exit {r.returncode}")
                    for ln in lines[:6]:
                        print("     ", ln[:260])
            print(f"[{kind}] done")
    print("twin trees:", "all checks silent" if not bad else f"{bad} check(s) raised")
    return 1 if bad else 0


if __name__ == "__main__":
    sys.exit(main())
