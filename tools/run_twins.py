#!/usr/bin/env python3
"""Developer tool: run all 20 checks against behaviour-preserving refactorings (benign twins written by independent agents).

usage: tools/run_twins.py [--dir /verif/twins]      each <dir>/<id>/patch.diff is applied to a scratch copy of /repo's package.
A check that exits 1 on such a tree raised a FALSE ALARM; exit 2 is a refusal (idiom outside the recognised family)."""
import json
import shutil
import subprocess
import sys
import tempfile
from concurrent.futures import ThreadPoolExecutor
from pathlib import Path

VERIF = Path(__file__).resolve().parent.parent
args = sys.argv[1:]
tdir = VERIF / "twins"
if "--dir" in args:
    tdir = Path(args[args.index("--dir") + 1])
props = [json.loads(l)["id"] for l in (VERIF / "properties.jsonl").read_text().splitlines() if l.strip()]


def analyse(d: Path):
    with tempfile.TemporaryDirectory(prefix="icg_twin_") as td:
        shutil.copytree("/repo/incomplete_cooperative", Path(td) / "incomplete_cooperative", ignore=shutil.ignore_patterns("__pycache__"))
        r = subprocess.run(["patch", "-p1", "-s", "-i", str(d / "patch.diff")], cwd=td, capture_output=True, text=True)
        if r.returncode != 0:
            return d.name, "patch-failed", {}
        res = {}
        for pid in props:
            out = subprocess.run([str(VERIF / "check"), pid, "--repo", td, "--no-evidence"], capture_output=True, text=True)
            if out.returncode != 0:
                lines = [ln for ln in out.stdout.splitlines() if ln.startswith(("VIOLATION", "ANALYSIS-ERROR"))]
                res[pid] = (out.returncode, [ln[:230] for ln in lines[:3]])
        return d.name, "ok", res


seeds = sorted(p for p in tdir.iterdir() if (p / "patch.diff").exists())
with ThreadPoolExecutor(8) as ex:
    rows = list(ex.map(analyse, seeds))
alarms = refusals = 0
for name, st, res in rows:
    if st != "ok":
        print(f"{name}: {st}")
        continue
    a = {p: v for p, v in res.items() if v[0] == 1}
    u = {p: v for p, v in res.items() if v[0] == 2}
    alarms += bool(a)
    refusals += bool(u) and not a
    print(f"{name}: " + ("silent" if not res else f"FALSE ALARM under {sorted(a)}" * bool(a) + f" refusal (exit 2) under {sorted(u)}" * bool(u)))
    for p, (rc, lines) in sorted(res.items()):
        for ln in lines[:2]:
            print("      ", p, ln)
print(f"\n{len(rows)} refactorings: {len(rows) - alarms - refusals} silent, {alarms} with a false alarm, {refusals} refused (exit 2 only)")
