#!/usr/bin/env python3
"""Run the checks against seeded changes.

usage: tools/run_seeded.py [--dir /verif/seeded] [--all-props] [ids...]

For every <dir>/<id>/patch.diff: copy /repo's package to a scratch directory outside /repo and /verif, apply the patch
there, run `./check <property> --repo <scratch> --no-evidence` for the property named in meta.json (or for all properties
with --all-props) and report which rules fired.  The scratch copy is removed afterwards.  Developer tool - not a check.
"""
import json
import shutil
import subprocess
import sys
import tempfile
from pathlib import Path

VERIF = Path(__file__).resolve().parent.parent
args = sys.argv[1:]
seed_dir = VERIF / "seeded"
all_props = False
if "--dir" in args:
    i = args.index("--dir"); seed_dir = Path(args[i + 1]); del args[i:i + 2]
if "--all-props" in args:
    all_props = True; args.remove("--all-props")
ids = args or sorted(p.name for p in seed_dir.iterdir() if (p / "patch.diff").exists())
props = [json.loads(l)["id"] for l in (VERIF / "properties.jsonl").read_text().splitlines() if l.strip()]
summary = []
for sid in ids:
    d = seed_dir / sid
    meta = json.loads((d / "meta.json").read_text()) if (d / "meta.json").exists() else {}
    target = meta.get("property") or sid.split("-")[0]
    with tempfile.TemporaryDirectory(prefix="icg_seed_") as td:
        shutil.copytree("/repo/incomplete_cooperative", Path(td) / "incomplete_cooperative",
                        ignore=shutil.ignore_patterns("__pycache__"))
        r = subprocess.run(["patch", "-p1", "-s", "-i", str(d / "patch.diff")], cwd=td, capture_output=True, text=True)
        if r.returncode != 0:
            print(f"{sid}: PATCH DOES NOT APPLY: {r.stdout.strip()[:200]} {r.stderr.strip()[:200]}")
            summary.append((sid, target, "patch-failed", []))
            continue
        fired = {}
        for pid in (props if all_props else [target]):
            out = subprocess.run([str(VERIF / "check"), pid, "--repo", td, "--no-evidence"], capture_output=True, text=True)
            rules = sorted({ln.split("rule=")[1].split()[0] for ln in out.stdout.splitlines() if ln.startswith("VIOLATION") and "rule=" in ln})
            errs = [ln for ln in out.stdout.splitlines() if ln.startswith("ANALYSIS-ERROR")]
            if out.returncode == 1:
                fired[pid] = rules
            elif out.returncode == 2:
                fired[pid] = ["ANALYSIS-ERROR: " + (errs[0][:160] if errs else "?")]
        status = "DETECTED" if target in fired and not str(fired[target][0]).startswith("ANALYSIS") else \
            ("UNDECIDED" if target in fired else "MISSED")
        print(f"{sid}: property {target}: {status} {fired.get(target, '')}" + (f" | other properties: { {k: v for k, v in fired.items() if k != target} }" if all_props else ""))
        summary.append((sid, target, status, fired))
n = len(summary)
print(f"\n{sum(1 for s in summary if s[2] == 'DETECTED')}/{n} detected, {sum(1 for s in summary if s[2] == 'UNDECIDED')} undecided (exit 2), "
      f"{sum(1 for s in summary if s[2] == 'MISSED')} missed")
