#!/usr/bin/env python3
"""Regenerate MANIFEST.json from icgsa.rules.PROPERTIES (run from /verif)."""
import json
import sys
from pathlib import Path

here = Path(__file__).resolve().parent.parent
sys.path.insert(0, str(here))
from icgsa.rules import PROPERTIES  # noqa: E402
from icgsa.rules.manifest_texts import TEXTS, NOT_APPLICABLE  # noqa: E402

props = [json.loads(l) for l in (here / "properties.jsonl").read_text().splitlines() if l.strip()]
checks = []
na = []
for p in props:
    pid = p["id"]
    if pid in PROPERTIES and pid in TEXTS:
        t = TEXTS[pid]
        checks.append({
            "property_id": pid,
            "quick_cmd": f"./check {pid} --tier quick",
            "thorough_cmd": f"./check {pid} --tier thorough",
            "evidence_file": f"/verif/evidence/{pid}.json",
            "replay_cmd_template": "./check --replay {path}",
            "engine": "icgsa",
            "level_claimed": {"category": "other", "text": t["level"], "design_ref": t["design_ref"]},
            "level_note": t["note"],
            "technique": t["technique"],
        })
    else:
        na.append({"property_id": pid, "reason": NOT_APPLICABLE.get(pid, "check not built yet in this session (static rules pending)")})
manifest = {
    "version": 1,
    "setup_cmd": "true",
    "hooks": {
        "guard": "INCOMPLETE_COOPERATIVE_VERIF",
        "enable": "none needed: the checks read /repo's source with ast and never import or run the package",
        "baseline_off_cmd": "cd /repo && /venv/bin/python -m pytest -ra -q -p no:cacheprovider --timeout=900 --continue-on-collection-errors",
        "source_commits": [],
        "add_only": True,
    },
    "engines": [{
        "name": "icgsa",
        "path": "/verif/icgsa",
        "serves_properties": [c["property_id"] for c in checks],
        "kind_free_text": "repository-specific static analyser: ast loader + name/registry/partial resolution, provenance terms, "
                          "path-sensitive typestate walk, small abstract domains (coalition classes, index spaces, RNG ownership, bit-set algebra)",
    }],
    "checks": checks,
    "not_applicable": na,
    "notes": "All checks are static analysis (family fixed by the task). Exit 0 holds / 1 VIOLATION / 2 ANALYSIS-ERROR "
             "(vanished anchor, unknown idiom, too few sites). Known findings: /verif/known_findings.json.",
}
(here / "MANIFEST.json").write_text(json.dumps(manifest, indent=1) + "\n")
print(f"{len(checks)} checks, {len(na)} not applicable")
