#!/usr/bin/env python3
"""Confirm a seeded change independently and, if confirmed, store it under /verif/seeded/<id>/.

usage: tools/confirm_seed.py <property> <k> [--full]     (reads /tmp/seed_out/<property>/patch_k.diff, demo_k.py, notes.json)

Steps (in a scratch git worktree of /repo outside /repo and /verif, removed afterwards):
  1. demo on the clean tree            -> must PASS (exit 0)
  2. apply the patch, demo again       -> must FAIL (exit != 0)
  3. pinned suite with the patch       -> every BASELINE stable test must pass (learn tests only with --full
                                          or when the patch touches run/model.py / icg_gym*.py / feature_extractors.py)
"""
import json
import os
import shutil
import subprocess
import sys
import tempfile
import xml.etree.ElementTree as ET
from pathlib import Path

VERIF = Path(__file__).resolve().parent.parent
prop, k = sys.argv[1], sys.argv[2]
full = "--full" in sys.argv
src = Path(os.environ.get("SEED_SRC", "/tmp/seed_out")) / prop
patch = src / f"patch_{k}.diff"
demo = src / f"demo_{k}.py"
notes = {}
try:
    for n in json.loads((src / "notes.json").read_text()):
        if str(n.get("k")) == str(k):
            notes = n
except Exception:
    pass
sid = f"{prop}-{os.environ.get('SEED_TAG', '')}{k}"
wt = Path(tempfile.mkdtemp(prefix=f"icg_confirm_{sid}_"))
wt.rmdir()
subprocess.run(["git", "-C", "/repo", "worktree", "add", "-q", "--detach", str(wt), "HEAD"], check=True)
ran = []
try:
    def run_demo():
        r = subprocess.run(["/venv/bin/python", str(demo)], cwd=wt, capture_output=True, text=True, timeout=1800,
                           env=dict(os.environ, OMP_NUM_THREADS="1", PYTHONPATH=str(wt)))
        return r.returncode, (r.stdout + r.stderr)[-400:]
    rc0, out0 = run_demo()
    ran.append(f"demo on clean tree: exit {rc0}")
    ap = subprocess.run(["git", "-C", str(wt), "apply", str(patch)], capture_output=True, text=True)
    if ap.returncode != 0:
        print(f"{sid}: patch does not apply: {ap.stderr[:300]}")
        sys.exit(2)
    rc1, out1 = run_demo()
    ran.append(f"demo with patch: exit {rc1}")
    touched = [l[6:] for l in patch.read_text().splitlines() if l.startswith("+++ b/")]
    need_learn = full or any(t.endswith(("run/model.py", "icg_gym.py", "icg_gym_linear.py", "feature_extractors.py", "run/learn.py")) for t in touched)
    xml = wt / "r.xml"
    cmd = ["/venv/bin/python", "-m", "pytest", "-q", "-p", "no:cacheprovider", "--timeout=3000", "--continue-on-collection-errors",
           f"--junitxml={xml}", "-n", os.environ.get("CONFIRM_JOBS", "6")]
    if not need_learn:
        cmd += ["--deselect", "incomplete_cooperative/tests/test_run_learn.py"]
    env = dict(os.environ, OMP_NUM_THREADS="1", MKL_NUM_THREADS="1")
    subprocess.run(cmd, cwd=wt, capture_output=True, text=True, env=env)
    base = json.load(open("/root/.vp/BASELINE.json"))
    stable = set(base["stable_pass"])
    if not need_learn:
        stable = {t for t in stable if "test_run_learn" not in t}
    passed = set()
    for tc in ET.parse(xml).getroot().iter("testcase"):
        if not any(c.tag in ("failure", "error", "skipped") for c in tc):
            passed.add(f"{tc.get('classname')}::{tc.get('name')}")
    missing = sorted(stable - passed)
    ran.append(f"pinned suite with patch ({'incl.' if need_learn else 'without'} learn tests): {len(stable) - len(missing)}/{len(stable)} stable tests pass")
    ok = rc0 == 0 and rc1 != 0 and not missing
    print(f"{sid}: clean demo exit {rc0}, patched demo exit {rc1}, missing stable tests {len(missing)} {missing[:3]} -> {'CONFIRMED' if ok else 'REJECTED'}")
    if not ok:
        print("   clean:", out0.strip().splitlines()[-1:] , "patched:", out1.strip().splitlines()[-1:])
        sys.exit(1)
    dest = VERIF / "seeded" / sid
    dest.mkdir(parents=True, exist_ok=True)
    shutil.copy(patch, dest / "patch.diff")
    shutil.copy(demo, dest / "demo.py")
    meta = {"id": sid, "property": prop, "origin": "written by a sub-agent that saw only the property text and its own scratch worktree",
            "summary": notes.get("summary", ""), "why_breaks": notes.get("why_breaks", ""), "needs": notes.get("needs", ""),
            "files": touched, "confirmed": ran,
            "how_to_run": "git -C /repo apply /verif/seeded/%s/patch.diff; (cd /repo && /venv/bin/python /verif/seeded/%s/demo.py) must exit non-zero; git -C /repo checkout -- ." % (sid, sid)}
    (dest / "meta.json").write_text(json.dumps(meta, indent=1))
finally:
    subprocess.run(["git", "-C", "/repo", "worktree", "remove", "--force", str(wt)], capture_output=True)
    shutil.rmtree(wt, ignore_errors=True)
