#!/usr/bin/env python3
"""Developer tool: print the findings a property's rules report for the named self-validation variants.

usage: /venv/bin/python tools/show_variant.py <PROPERTY> <substring of variant name> [...]
"""
import sys
from pathlib import Path

sys.path.insert(0, str(Path(__file__).resolve().parent.parent))
from icgsa.core import Program  # noqa: E402
from icgsa.mutate import analyse_variant, apply_variant  # noqa: E402
from icgsa.variants import VARIANTS  # noqa: E402

pid, pats = sys.argv[1], sys.argv[2:]
prog = Program("/repo")
for v in VARIANTS:
    if pid in v.props and any(p in v.name for p in pats):
        ov = apply_variant(prog, v)
        if ov is None:
            print(f"== {v.name}: SKIPPED (anchor absent)")
            continue
        col, errs = analyse_variant(prog, pid, ov)
        print(f"== {v.name} [{v.kind}]")
        for f in col.findings:
            print("   VIOLATION", f.rule, f.func, "|", f.message[:200])
        for u in col.undecided:
            print("   UNDECIDED", str(u)[:200])
        for e in errs:
            print("   ERROR", str(e)[:200])
