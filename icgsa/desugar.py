"""icgsa.desugar -- syntax-level read-through applied to every module tree when it is loaded (and to every variant tree).

``match`` statements are rewritten into the if / elif chain they abbreviate, for the pattern forms whose meaning is a plain test of the
subject (class patterns without sub-patterns, literal and constant-value patterns, ``None`` / ``True`` / ``False``, or-patterns of those,
captures, the wildcard, ``[*_, last]``, guards).  Any other pattern is left alone: the rules then meet a statement they do not know and
refuse (exit 2).  Nothing is evaluated; positions are copied from the original statement so that reports still point at the source."""
from __future__ import annotations

import ast
import copy


def _loc(new: ast.AST, old: ast.AST) -> ast.AST:
    for n in ast.walk(new):
        if not hasattr(n, "lineno") or getattr(n, "lineno", None) is None:
            ast.copy_location(n, old)
    ast.fix_missing_locations(new)
    return new


def _pattern_test(p: ast.pattern, subj: ast.expr):
    """(test expression or True, statements binding captured names) or None when the pattern is not understood."""
    s = lambda: copy.deepcopy(subj)  # noqa: E731
    if isinstance(p, ast.MatchClass) and not p.patterns and not p.kwd_patterns:
        return ast.Call(func=ast.Name(id="isinstance", ctx=ast.Load()), args=[s(), copy.deepcopy(p.cls)], keywords=[]), []
    if isinstance(p, ast.MatchValue):
        return ast.Compare(left=s(), ops=[ast.Eq()], comparators=[copy.deepcopy(p.value)]), []
    if isinstance(p, ast.MatchSingleton):
        return ast.Compare(left=s(), ops=[ast.Is()], comparators=[ast.Constant(value=p.value)]), []
    if isinstance(p, ast.MatchAs):
        if p.pattern is None:
            binds = [] if p.name is None else [ast.Assign(targets=[ast.Name(id=p.name, ctx=ast.Store())], value=s())]
            return True, binds
        inner = _pattern_test(p.pattern, subj)
        if inner is None:
            return None
        t, b = inner
        return t, b + ([ast.Assign(targets=[ast.Name(id=p.name, ctx=ast.Store())], value=s())] if p.name else [])
    if isinstance(p, ast.MatchOr):
        parts = [_pattern_test(q, subj) for q in p.patterns]
        if any(x is None or x[1] or x[0] is True for x in parts):
            return None
        tests = [x[0] for x in parts]
        if all(isinstance(t, ast.Call) and isinstance(t.func, ast.Name) and t.func.id == "isinstance" for t in tests):
            return ast.Call(func=ast.Name(id="isinstance", ctx=ast.Load()), args=[s(), ast.Tuple(elts=[t.args[1] for t in tests], ctx=ast.Load())], keywords=[]), []
        return ast.BoolOp(op=ast.Or(), values=tests), []
    if isinstance(p, ast.MatchSequence) and len(p.patterns) == 2 and isinstance(p.patterns[0], ast.MatchStar) and p.patterns[0].name is None \
            and isinstance(p.patterns[1], ast.MatchAs) and p.patterns[1].pattern is None and p.patterns[1].name:
        # [*_, last]: a non-empty sequence, last = subject[-1]
        test = ast.Compare(left=ast.Call(func=ast.Name(id="len", ctx=ast.Load()), args=[s()], keywords=[]), ops=[ast.Gt()], comparators=[ast.Constant(value=0)])
        bind = ast.Assign(targets=[ast.Name(id=p.patterns[1].name, ctx=ast.Store())],
                          value=ast.Subscript(value=s(), slice=ast.UnaryOp(op=ast.USub(), operand=ast.Constant(value=1)), ctx=ast.Load()))
        return test, [bind]
    return None


class _Desugar(ast.NodeTransformer):
    def visit_Match(self, node: ast.Match):
        self.generic_visit(node)
        subj = node.subject
        pre: list[ast.stmt] = []
        if not isinstance(subj, (ast.Name, ast.Attribute)) or (isinstance(subj, ast.Attribute) and not isinstance(subj.value, ast.Name)):
            tmp = f"__match_subject_{node.lineno}"
            pre.append(ast.Assign(targets=[ast.Name(id=tmp, ctx=ast.Store())], value=subj))
            subj = ast.Name(id=tmp, ctx=ast.Load())
        arms = []
        for case in node.cases:
            r = _pattern_test(case.pattern, subj)
            if r is None:
                return node                      # a pattern that is not a plain test: left for the rules to refuse
            test, binds = r
            if case.guard is not None:
                if binds:
                    return node                  # a guard that may read the captured names
                test = case.guard if test is True else ast.BoolOp(op=ast.And(), values=[test, case.guard])
            arms.append((test, binds + list(case.body)))
        chain: list[ast.stmt] = []
        for test, body in reversed(arms):
            if test is True:
                chain = body
            else:
                chain = [ast.If(test=test, body=body, orelse=chain)]
        out = pre + chain
        return [_loc(st, node) for st in out]


def desugar(tree: ast.Module) -> ast.Module:
    if not any(isinstance(n, ast.Match) for n in ast.walk(tree)):
        return tree
    return ast.fix_missing_locations(_Desugar().visit(tree))
