"""icgsa.mutate -- self-validation of the rules on AST-computed variants (thorough tier)."""
from __future__ import annotations

from .core import Program
from .report import Collector


def self_validate(prog: Program, pid: str, col: Collector, errors: list[str]) -> dict:
    return {"self_validation": "not built yet"}
