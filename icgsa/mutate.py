"""icgsa.mutate -- self-validation of the rules (thorough tier).

For the CURRENT tree, re-analyse in-memory variants of single functions:

* breaking variants: one construct that a rule guards is broken (the variant still parses; most also still
  pass the repository's test-suite).  The property's rules must report a finding of the expected rule.
* benign twins: a behaviour-preserving rewrite.  The rules must stay silent (no finding, nothing undecided).

A variant is computed on the AST: the function is located by qualified name, printed in the canonical
``ast.unparse`` form (independent of the repository's layout and comments), one anchored fragment is
rewritten, and the result is parsed back into the module tree.  A variant whose anchor is absent on the
current tree is *skipped and listed* (the tree has changed there), never counted as a success.

Nothing is executed: variants exist only as ASTs handed to the same static rules.
"""
from __future__ import annotations

import ast
import copy
import textwrap
from dataclasses import dataclass, field

from .core import AnalysisError, Program
from .report import Collector, load_known


@dataclass
class Variant:
    name: str
    props: tuple
    file: str                  # repo-relative path
    func: str                  # "func" or "Class.method"; "" = module level statement list
    old: str
    new: str
    expect: tuple = ()         # rule ids of which at least one must fire (breaks); () = any finding
    kind: str = "break"        # break | twin
    count: int = 1             # which occurrence (1-based); 0 = all
    extra: tuple = ()          # further (old, new) fragments replaced in the same printed text (each must be present exactly once)


def _find(tree: ast.Module, func: str):
    parts = func.split(".")
    body = tree.body
    node = None
    parent_body = None
    for p in parts:
        found = None
        for n in _iter_defs(body):
            if isinstance(n, (ast.FunctionDef, ast.ClassDef)) and n.name == p:
                found = n
                break
        if found is None:
            return None, None
        parent_body = body
        node = found
        body = found.body
    return node, parent_body


def _iter_defs(body):
    for n in body:
        yield n
        if isinstance(n, ast.If):
            yield from _iter_defs(n.body)
            yield from _iter_defs(n.orelse)


def apply_variant(prog: Program, v: Variant):
    """Returns the override dict {rel: tree} or None if the anchor is absent."""
    mod = None
    for m in prog.modules.values():
        if m.rel() == v.file or str(m.path).endswith(v.file):
            mod = m
    if mod is None:
        return None
    tree = copy.deepcopy(mod.tree)
    if v.func:
        node, parent = _find(tree, v.func)
        if node is None:
            return None
        pad = " " * (4 * (len(v.func.split(".")) - 1))
        text = textwrap.indent(ast.unparse(node), pad)
    else:
        text = ast.unparse(tree)
    if v.old not in text:
        return None
    if v.count == 0:
        new_text = text.replace(v.old, v.new)
    else:
        idx = -1
        for _ in range(v.count):
            idx = text.find(v.old, idx + 1)
            if idx < 0:
                return None
        new_text = text[:idx] + v.new + text[idx + len(v.old):]
    for o2, n2 in v.extra:
        if new_text.count(o2) != 1:
            return None
        new_text = new_text.replace(o2, n2)
    try:
        new_ast = ast.parse(textwrap.dedent(new_text) if v.func else new_text)
    except SyntaxError as e:
        raise AnalysisError(f"variant {v.name} does not parse: {e}")
    if v.func:
        new_node = new_ast.body[0]
        # keep positions roughly meaningful
        ast.increment_lineno(new_node, getattr(node, "lineno", 1) - 1)
        for i, n in enumerate(parent):
            if n is node:
                parent[i] = new_node
                break
        else:
            # nested under an ``if``: replace by walking
            for holder in ast.walk(tree):
                for fld in ("body", "orelse"):
                    lst = getattr(holder, fld, None)
                    if isinstance(lst, list):
                        for i, n in enumerate(lst):
                            if n is node:
                                lst[i] = new_node
    else:
        tree = new_ast
    ast.fix_missing_locations(tree)
    return {mod.rel(): tree}


def reset_caches() -> None:
    from .rules import common, bounds, gameplay, hygiene
    hygiene._SCOPE_CACHE.clear()
    common._FT_CACHE.clear()
    bounds._COMP_CACHE.clear()
    gameplay._LAZY_FUNCS.clear()


def analyse_variant(prog: Program, pid: str, overrides: dict):
    from .__main__ import run_rules
    reset_caches()
    p2 = Program(prog.root, overrides=overrides)
    col = Collector(pid)
    errs = run_rules(p2, pid, col)
    reset_caches()
    return col, errs



# --------------------------------------------------------------------------------------
# whole-tree benign twins: every function of the package rewritten in a behaviour-preserving way
# --------------------------------------------------------------------------------------

def rename_locals(tree: ast.Module) -> None:
    """Alpha-rename every local / loop / comprehension variable of every function (parameters keep their names)."""
    counter = [0]
    for fn in [n for n in ast.walk(tree) if isinstance(n, ast.FunctionDef)]:
        params = set()
        for n in ast.walk(fn):
            if isinstance(n, ast.arguments):
                for a in n.posonlyargs + n.args + n.kwonlyargs:
                    params.add(a.arg)
                if n.vararg:
                    params.add(n.vararg.arg)
                if n.kwarg:
                    params.add(n.kwarg.arg)
        bound, glob = set(), set()
        for n in ast.walk(fn):
            if isinstance(n, ast.Name) and isinstance(n.ctx, ast.Store):
                bound.add(n.id)
            if isinstance(n, (ast.Global, ast.Nonlocal)):
                glob.update(n.names)
            if isinstance(n, ast.ExceptHandler) and n.name:
                params.add(n.name)
            if isinstance(n, (ast.Import, ast.ImportFrom)):
                for al in n.names:
                    params.add((al.asname or al.name).split(".")[0])
            if isinstance(n, (ast.FunctionDef, ast.ClassDef)) and n is not fn:
                params.add(n.name)
        mapping = {}
        for name in sorted(bound - params - glob):
            counter[0] += 1
            mapping[name] = f"v{counter[0]}_{name[:1]}"
        for n in ast.walk(fn):
            if isinstance(n, ast.Name) and n.id in mapping:
                n.id = mapping[n.id]


def add_asserts(tree: ast.Module) -> None:
    """Insert an assert and a logging call at the top of every function body."""
    for fn in [n for n in ast.walk(tree) if isinstance(n, ast.FunctionDef)]:
        body = fn.body
        i = 1 if body and isinstance(body[0], ast.Expr) and isinstance(body[0].value, ast.Constant) and isinstance(body[0].value.value, str) else 0
        extra = ast.parse("assert True, 'twin'\n__import__('logging').getLogger('twin').debug('enter')").body
        fn.body = body[:i] + extra + (body[i:] or [ast.Pass()])
    ast.fix_missing_locations(tree)


def hoist_call_arguments(tree: ast.Module) -> None:
    """x = f(g(a), h(b))  ->  _h1 = g(a); _h2 = h(b); x = f(_h1, _h2)   (statement-level calls only; evaluation order kept)."""
    counter = [0]

    def simple(e: ast.expr) -> bool:
        return isinstance(e, (ast.Name, ast.Constant)) or (isinstance(e, ast.Attribute) and simple(e.value)) or isinstance(e, (ast.Starred, ast.Lambda))

    def rewrite_block(body: list) -> list:
        out = []
        for st in body:
            for fld in ("body", "orelse", "finalbody"):
                blk = getattr(st, fld, None)
                if isinstance(blk, list) and blk and isinstance(blk[0], ast.stmt):
                    setattr(st, fld, rewrite_block(blk))
            if isinstance(st, ast.Try):
                for h in st.handlers:
                    h.body = rewrite_block(h.body)
            call = None
            if isinstance(st, (ast.Expr, ast.Assign, ast.Return)) and isinstance(getattr(st, "value", None), ast.Call):
                call = st.value
            if call is not None and not any(isinstance(n, (ast.Yield, ast.YieldFrom, ast.Await, ast.NamedExpr)) for n in ast.walk(call)) \
                    and not (isinstance(call.func, ast.Name) and call.func.id in ("super", "isinstance", "locals", "vars")):
                pre = []
                # the callee's receiver must not be affected by the arguments' side effects: only hoist when all arguments are calls/operators on plain names
                for i, a in enumerate(call.args):
                    if not simple(a) and not isinstance(a, (ast.GeneratorExp,)):
                        counter[0] += 1
                        nm = f"_h{counter[0]}"
                        pre.append(ast.Assign(targets=[ast.Name(id=nm, ctx=ast.Store())], value=a, lineno=st.lineno, col_offset=0))
                        call.args[i] = ast.Name(id=nm, ctx=ast.Load())
                out.extend(pre)
            out.append(st)
        return out
    for fn in [n for n in ast.walk(tree) if isinstance(n, ast.FunctionDef)]:
        fn.body = rewrite_block(fn.body)
    ast.fix_missing_locations(tree)


def strip_annotations(tree: ast.Module) -> None:
    """Remove every parameter and return annotation (rules must not depend on type hints being present)."""
    for n in ast.walk(tree):
        if isinstance(n, ast.FunctionDef):
            n.returns = None
            for a in n.args.posonlyargs + n.args.args + n.args.kwonlyargs:
                a.annotation = None
            if n.args.vararg:
                n.args.vararg.annotation = None
            if n.args.kwarg:
                n.args.kwarg.annotation = None


def reorder_defs(tree: ast.Module) -> None:
    """Reverse the order of the methods of every class and of runs of undecorated top-level functions."""
    for n in ast.walk(tree):
        if isinstance(n, ast.ClassDef):
            idx = [i for i, x in enumerate(n.body) if isinstance(x, ast.FunctionDef)]
            fns = [n.body[i] for i in idx][::-1]
            for i, f in zip(idx, fns):
                n.body[i] = f
    body = tree.body
    i = 0
    while i < len(body):
        j = i
        while j < len(body) and isinstance(body[j], ast.FunctionDef) and not body[j].decorator_list:
            j += 1
        if j - i > 1:
            body[i:j] = body[i:j][::-1]
        i = max(j, i + 1)


def flip_comparisons(tree: ast.Module) -> None:
    """``a <= b`` becomes ``b >= a`` (and so on) for every single ordered comparison."""
    flip = {ast.Lt: ast.Gt, ast.LtE: ast.GtE, ast.Gt: ast.Lt, ast.GtE: ast.LtE}
    for n in ast.walk(tree):
        if isinstance(n, ast.Compare) and len(n.ops) == 1 and type(n.ops[0]) in flip:
            n.left, n.comparators = n.comparators[0], [n.left]
            n.ops = [flip[type(n.ops[0])]()]


def swap_branches(tree: ast.Module) -> None:
    """``if c: A else: B`` becomes ``if not c: B else: A`` (plain else only); ``x if c else y`` becomes ``y if not c else x``."""
    for n in ast.walk(tree):
        if isinstance(n, ast.If) and n.orelse and not (len(n.orelse) == 1 and isinstance(n.orelse[0], ast.If)):
            n.test = ast.UnaryOp(op=ast.Not(), operand=n.test)
            n.body, n.orelse = n.orelse, n.body
        elif isinstance(n, ast.IfExp):
            n.test = ast.UnaryOp(op=ast.Not(), operand=n.test)
            n.body, n.orelse = n.orelse, n.body
    ast.fix_missing_locations(tree)


def shift_powers(tree: ast.Module) -> None:
    """``2 ** e`` becomes ``1 << e`` (integer exponents in this package: player counts, players, ids)."""
    for n in ast.walk(tree):
        if isinstance(n, ast.BinOp) and isinstance(n.op, ast.Pow) and isinstance(n.left, ast.Constant) and n.left.value == 2 and type(n.left.value) is int:
            n.left = ast.Constant(1)
            n.op = ast.LShift()
    ast.fix_missing_locations(tree)


class _Rename(ast.NodeTransformer):
    def __init__(self, mapping: dict) -> None:
        self.mapping = mapping

    def visit_Name(self, node: ast.Name):
        if node.id in self.mapping:
            return ast.copy_location(ast.Name(id=self.mapping[node.id], ctx=node.ctx), node)
        return node


def unroll_list_comprehensions(tree: ast.Module) -> None:
    """``v = [elt for x in it if c]`` (one generator, simple target, statement level) becomes
    ``v = []`` + ``for x_: if c: v.append(elt)`` with a fresh loop variable."""
    counter = [0]

    def rewrite(body: list) -> list:
        out = []
        for st in body:
            for field in ("body", "orelse", "finalbody"):
                if hasattr(st, field) and isinstance(getattr(st, field), list) and getattr(st, field) and isinstance(getattr(st, field)[0], ast.stmt):
                    setattr(st, field, rewrite(getattr(st, field)))
            if isinstance(st, ast.Try):
                for h in st.handlers:
                    h.body = rewrite(h.body)
            if isinstance(st, ast.Assign) and len(st.targets) == 1 and isinstance(st.targets[0], ast.Name) and isinstance(st.value, ast.ListComp) \
                    and len(st.value.generators) == 1 and isinstance(st.value.generators[0].target, ast.Name) and not st.value.generators[0].is_async:
                g = st.value.generators[0]
                counter[0] += 1
                fresh = f"{g.target.id}_u{counter[0]}"
                ren = _Rename({g.target.id: fresh})
                elt = ren.visit(copy.deepcopy(st.value.elt))
                conds = [ren.visit(copy.deepcopy(c)) for c in g.ifs]
                app: ast.stmt = ast.Expr(ast.Call(func=ast.Attribute(value=ast.Name(id=st.targets[0].id, ctx=ast.Load()), attr="append", ctx=ast.Load()), args=[elt], keywords=[]))
                for c in reversed(conds):
                    app = ast.If(test=c, body=[app], orelse=[])
                out.append(ast.Assign(targets=[ast.Name(id=st.targets[0].id, ctx=ast.Store())], value=ast.List(elts=[], ctx=ast.Load())))
                out.append(ast.For(target=ast.Name(id=fresh, ctx=ast.Store()), iter=g.iter, body=[app], orelse=[]))
            else:
                out.append(st)
        return out

    for fn in [n for n in ast.walk(tree) if isinstance(n, ast.FunctionDef)]:
        fn.body = rewrite(fn.body)
    ast.fix_missing_locations(tree)


def keyword_calls(tree: ast.Module, signatures: dict | None = None) -> None:
    """Calls of package functions / uniquely named package methods pass their arguments by keyword instead of by position.

    ``signatures`` maps a bare function name (module-level function, unique in the package) or ``.method`` (method name defined
    by exactly one class, no decorators) to its positional parameter names.  Calls with ``*args`` are left alone.
    """
    signatures = signatures or {}
    for n in ast.walk(tree):
        if not isinstance(n, ast.Call) or any(isinstance(a, ast.Starred) for a in n.args) or not n.args:
            continue
        if isinstance(n.func, ast.Name) and n.func.id in signatures:
            params = signatures[n.func.id]
        elif isinstance(n.func, ast.Attribute) and "." + n.func.attr in signatures and not (isinstance(n.func.value, ast.Name) and n.func.value.id in ("np", "numpy", "os", "json", "math")):
            params = signatures["." + n.func.attr]
        else:
            continue
        if len(n.args) > len(params) or any(k.arg in params[:len(n.args)] for k in n.keywords if k.arg):
            continue
        n.keywords = [ast.keyword(arg=params[i], value=a) for i, a in enumerate(n.args)] + n.keywords
        n.args = []
    ast.fix_missing_locations(tree)


def package_signatures(prog: Program) -> dict:
    """Signatures usable by ``keyword_calls``: names that identify exactly one definition in the package (tests and protocols excluded)."""
    funcs: dict[str, list] = {}
    meths: dict[str, list] = {}
    for m in prog.modules.values():
        if "/tests/" in m.rel() or m.rel().endswith("protocols.py"):
            continue
        for d in m.tree.body:
            if isinstance(d, ast.FunctionDef):
                funcs.setdefault(d.name, []).append(d)
            elif isinstance(d, ast.ClassDef):
                for x in d.body:
                    if isinstance(x, ast.FunctionDef):
                        meths.setdefault(x.name, []).append(x)
    sig = {}
    for name, ds in funcs.items():
        d = ds[0]
        if len(ds) == 1 and not d.decorator_list and not d.args.posonlyargs and not d.args.vararg and name not in meths:
            sig[name] = [a.arg for a in d.args.args]
    for name, ds in meths.items():
        d = ds[0]
        if len(ds) == 1 and not d.decorator_list and not d.args.posonlyargs and not d.args.vararg and not name.startswith("__") and name not in funcs \
                and d.args.args and d.args.args[0].arg == "self":
            sig["." + name] = [a.arg for a in d.args.args[1:]]
    return sig


TREE_TWINS = {"alpha-renaming of all locals in every function": rename_locals,
              "every type annotation of every signature removed": strip_annotations,
              "methods of every class and runs of top-level functions in reverse order": reorder_defs,
              "every ordered comparison written the other way round (a <= b as b >= a)": flip_comparisons,
              "every if/else and conditional expression with negated test and swapped branches": swap_branches,
              "arguments of package functions and uniquely named methods passed by keyword": keyword_calls,
              "every 2 ** e written as 1 << e": shift_powers,
              "every statement-level list comprehension unrolled into an append loop": unroll_list_comprehensions,
              "assert + logging call inserted at the top of every function": add_asserts,
              "call arguments hoisted into fresh locals in every function": hoist_call_arguments}


def tree_twin_overrides(prog: Program, transform) -> dict:
    ov = {}
    sig = package_signatures(prog) if transform is keyword_calls else None
    for m in prog.modules.values():
        t = copy.deepcopy(m.tree)
        transform(t, sig) if sig is not None else transform(t)
        # round trip through source so that positions are consistent
        ov[m.rel()] = ast.parse(ast.unparse(t))
    return ov


def self_validate(prog: Program, pid: str, base: Collector, errors: list[str]) -> dict:
    from .variants import VARIANTS
    mine = [v for v in VARIANTS if pid in v.props]
    base_keys = {f.key for f in base.findings}
    base_und = {(u["rule"], u["function"], u["message"]) for u in base.undecided}
    results = []
    detected = silent = skipped = 0
    failures = []
    for v in mine:
        ov = apply_variant(prog, v)
        if ov is None:
            skipped += 1
            results.append({"variant": v.name, "kind": v.kind, "status": "skipped (anchor absent on this tree)"})
            continue
        col, errs = analyse_variant(prog, pid, ov)
        new = [f for f in col.findings if f.key not in base_keys]
        new_und = [u for u in col.undecided if (u["rule"], u["function"], u["message"]) not in base_und]
        if v.kind == "break":
            hit = [f for f in new if not v.expect or f.rule in v.expect]
            if hit:
                detected += 1
                results.append({"variant": v.name, "kind": "break", "status": "detected", "rule": hit[0].rule, "where": hit[0].where,
                                "message": hit[0].message[:200]})
            else:
                failures.append(f"breaking variant '{v.name}' was not reported by {v.expect or 'any rule'} "
                                f"(new findings: {[f.rule for f in new]}, undecided: {len(new_und)}, errors: {errs[:1]})")
                results.append({"variant": v.name, "kind": "break", "status": "MISSED"})
        else:
            if not new and not new_und and not errs:
                silent += 1
                results.append({"variant": v.name, "kind": "twin", "status": "silent"})
            else:
                failures.append(f"benign twin '{v.name}' raised {[f.rule + ':' + f.message[:80] for f in new]} undecided={[u['message'][:80] for u in new_und]} errors={errs[:1]}")
                results.append({"variant": v.name, "kind": "twin", "status": "ALARM"})
    ntree = 0
    for tname, tf in TREE_TWINS.items():
        col, errs = analyse_variant(prog, pid, tree_twin_overrides(prog, tf))
        new = [f for f in col.findings if f.key not in base_keys]
        new_und = [u for u in col.undecided if (u["rule"], u["function"], u["message"]) not in base_und]
        base_errs = set(errors)
        if not new and not new_und and not [e for e in errs if e not in base_errs]:
            ntree += 1
            results.append({"variant": "whole tree: " + tname, "kind": "twin", "status": "silent"})
        else:
            failures.append(f"whole-tree twin '{tname}' raised {[f.rule + ':' + f.message[:80] for f in new]} undecided={[u['message'][:60] for u in new_und]} errors={errs[:1]}")
            results.append({"variant": "whole tree: " + tname, "kind": "twin", "status": "ALARM"})
    import os
    if os.environ.get("ICGSA_STRICT_SKIP") == "1":
        for r in results:
            if r["status"].startswith("skipped"):
                failures.append(f"variant '{r['variant']}' skipped: anchor not found")
    for f in failures:
        errors.append("self-validation: " + f)
    print(f"[{pid}] self-validation: {detected}/{sum(1 for v in mine if v.kind == 'break')} breaking variants detected, "
          f"{silent}/{sum(1 for v in mine if v.kind == 'twin')} benign twins silent, {ntree}/{len(TREE_TWINS)} whole-tree twins silent, "
          f"{skipped} skipped (anchor absent)")
    nb = sum(1 for v in mine if v.kind == "break")
    nt = sum(1 for v in mine if v.kind == "twin")
    return {
        "self_validation": {
            "breaking_variants": nb, "detected": detected, "benign_twins": nt, "silent": silent, "skipped": skipped,
            "whole_tree_twins": len(TREE_TWINS), "whole_tree_twins_silent": ntree,
            "results": results,
        },
        "obligations_variants": nb + nt + len(TREE_TWINS),
        "discharged_variants": detected + silent + ntree,
    }
