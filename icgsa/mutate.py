"""icgsa.mutate -- self-validation of the rules (thorough tier).

For the CURRENT tree, re-analyse in-memory variants of single functions:

* breaking variants: one construct that a rule guards is broken (the variant still parses; most also still
  pass the repository's test-suite).  The property's rules must report a finding of the expected rule.
* benign twins: a behaviour-preserving rewrite.  The rules must stay silent (no finding, nothing undecided).

A variant is computed on the AST: the function is located by qualified name, printed in the canonical
``ast.unparse`` form (independent of the repository's layout and comments), one anchored fragment is
rewritten, and the result is parsed back into the module tree.  A variant whose anchor is absent on the
current tree is *skipped and listed* (the tree has changed there), never counted as a success.

Nothing is executed: variants exist only as ASTs handed to the same static rules.
"""
from __future__ import annotations

import ast
import copy
import textwrap
from dataclasses import dataclass, field

from .core import AnalysisError, Program
from .report import Collector, load_known


@dataclass
class Variant:
    name: str
    props: tuple
    file: str                  # repo-relative path
    func: str                  # "func" or "Class.method"; "" = module level statement list
    old: str
    new: str
    expect: tuple = ()         # rule ids of which at least one must fire (breaks); () = any finding
    kind: str = "break"        # break | twin
    count: int = 1             # which occurrence (1-based); 0 = all


def _find(tree: ast.Module, func: str):
    parts = func.split(".")
    body = tree.body
    node = None
    parent_body = None
    for p in parts:
        found = None
        for n in _iter_defs(body):
            if isinstance(n, (ast.FunctionDef, ast.ClassDef)) and n.name == p:
                found = n
                break
        if found is None:
            return None, None
        parent_body = body
        node = found
        body = found.body
    return node, parent_body


def _iter_defs(body):
    for n in body:
        yield n
        if isinstance(n, ast.If):
            yield from _iter_defs(n.body)
            yield from _iter_defs(n.orelse)


def apply_variant(prog: Program, v: Variant):
    """Returns the override dict {rel: tree} or None if the anchor is absent."""
    mod = None
    for m in prog.modules.values():
        if m.rel() == v.file or str(m.path).endswith(v.file):
            mod = m
    if mod is None:
        return None
    tree = copy.deepcopy(mod.tree)
    if v.func:
        node, parent = _find(tree, v.func)
        if node is None:
            return None
        pad = " " * (4 * (len(v.func.split(".")) - 1))
        text = textwrap.indent(ast.unparse(node), pad)
    else:
        text = ast.unparse(tree)
    if v.old not in text:
        return None
    if v.count == 0:
        new_text = text.replace(v.old, v.new)
    else:
        idx = -1
        for _ in range(v.count):
            idx = text.find(v.old, idx + 1)
            if idx < 0:
                return None
        new_text = text[:idx] + v.new + text[idx + len(v.old):]
    try:
        new_ast = ast.parse(textwrap.dedent(new_text) if v.func else new_text)
    except SyntaxError as e:
        raise AnalysisError(f"variant {v.name} does not parse: {e}")
    if v.func:
        new_node = new_ast.body[0]
        # keep positions roughly meaningful
        ast.increment_lineno(new_node, getattr(node, "lineno", 1) - 1)
        for i, n in enumerate(parent):
            if n is node:
                parent[i] = new_node
                break
        else:
            # nested under an ``if``: replace by walking
            for holder in ast.walk(tree):
                for fld in ("body", "orelse"):
                    lst = getattr(holder, fld, None)
                    if isinstance(lst, list):
                        for i, n in enumerate(lst):
                            if n is node:
                                lst[i] = new_node
    else:
        tree = new_ast
    ast.fix_missing_locations(tree)
    return {mod.rel(): tree}


def reset_caches() -> None:
    from .rules import common, bounds, gameplay
    common._FT_CACHE.clear()
    bounds._COMP_CACHE.clear()
    gameplay._LAZY_FUNCS.clear()


def analyse_variant(prog: Program, pid: str, overrides: dict):
    from .__main__ import run_rules
    reset_caches()
    p2 = Program(prog.root, overrides=overrides)
    col = Collector(pid)
    errs = run_rules(p2, pid, col)
    reset_caches()
    return col, errs


def self_validate(prog: Program, pid: str, base: Collector, errors: list[str]) -> dict:
    from .variants import VARIANTS
    mine = [v for v in VARIANTS if pid in v.props]
    base_keys = {f.key for f in base.findings}
    base_und = {(u["rule"], u["function"], u["message"]) for u in base.undecided}
    results = []
    detected = silent = skipped = 0
    failures = []
    for v in mine:
        ov = apply_variant(prog, v)
        if ov is None:
            skipped += 1
            results.append({"variant": v.name, "kind": v.kind, "status": "skipped (anchor absent on this tree)"})
            continue
        col, errs = analyse_variant(prog, pid, ov)
        new = [f for f in col.findings if f.key not in base_keys]
        new_und = [u for u in col.undecided if (u["rule"], u["function"], u["message"]) not in base_und]
        if v.kind == "break":
            hit = [f for f in new if not v.expect or f.rule in v.expect]
            if hit:
                detected += 1
                results.append({"variant": v.name, "kind": "break", "status": "detected", "rule": hit[0].rule, "where": hit[0].where,
                                "message": hit[0].message[:200]})
            else:
                failures.append(f"breaking variant '{v.name}' was not reported by {v.expect or 'any rule'} "
                                f"(new findings: {[f.rule for f in new]}, undecided: {len(new_und)}, errors: {errs[:1]})")
                results.append({"variant": v.name, "kind": "break", "status": "MISSED"})
        else:
            if not new and not new_und and not errs:
                silent += 1
                results.append({"variant": v.name, "kind": "twin", "status": "silent"})
            else:
                failures.append(f"benign twin '{v.name}' raised {[f.rule + ':' + f.message[:80] for f in new]} undecided={[u['message'][:80] for u in new_und]} errors={errs[:1]}")
                results.append({"variant": v.name, "kind": "twin", "status": "ALARM"})
    import os
    if os.environ.get("ICGSA_STRICT_SKIP") == "1":
        for r in results:
            if r["status"].startswith("skipped"):
                failures.append(f"variant '{r['variant']}' skipped: anchor not found")
    for f in failures:
        errors.append("self-validation: " + f)
    print(f"[{pid}] self-validation: {detected}/{sum(1 for v in mine if v.kind == 'break')} breaking variants detected, "
          f"{silent}/{sum(1 for v in mine if v.kind == 'twin')} benign twins silent, {skipped} skipped (anchor absent)")
    nb = sum(1 for v in mine if v.kind == "break")
    nt = sum(1 for v in mine if v.kind == "twin")
    return {
        "self_validation": {
            "breaking_variants": nb, "detected": detected, "benign_twins": nt, "silent": silent, "skipped": skipped,
            "results": results,
        },
        "obligations_variants": nb + nt,
        "discharged_variants": detected + silent,
    }
