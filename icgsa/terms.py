"""icgsa.terms -- provenance terms and program-order events for one function.

The builder walks a function body once, substituting unique reaching definitions of local
names, and records *events* (calls, stores, augmented assignments, returns ...) in
evaluation order, each with its structural context (enclosing loops, guards, with blocks).
Rules are filters over events plus pattern matches over terms.  Nothing is executed: a term
is an expression tree over parameters, resolved global names, constants and loop elements.

Term grammar (nested tuples, hashable):
  ('const', v) ('global', qual) ('param', name) ('elem', iterable, uid) ('unknown', text)
  ('call', f, args, kwargs) ('attr', obj, name) ('index', obj, idx) ('slice', lo, hi, step)
  ('bin', op, a, b) ('un', op, a) ('cmp', op, a, b) ('bool', op, operands) ('ifexp', t, a, b)
  ('phi', test, a, b) ('lambda', params, body) ('lparam', name, uid)
  ('comp', kind, elt, gens) with gens = ((elemterm, iterable, conds), ...)
  ('tuple', items) ('list', items) ('set', items) ('dict', pairs) ('star', x) ('fstr', parts)
  ('loopmod', name, uid)  value of a name re-assigned inside loop ``uid`` (unknown at the head)
  ('with', ctx)           value bound by ``with ctx as name``
"""
from __future__ import annotations

import ast
from typing import Iterator

from .core import FuncRef, Module, Program, bound_names, src

BINOPS = {ast.Add: "+", ast.Sub: "-", ast.Mult: "*", ast.Div: "/", ast.FloorDiv: "//", ast.Mod: "%",
          ast.Pow: "**", ast.BitAnd: "&", ast.BitOr: "|", ast.BitXor: "^", ast.LShift: "<<",
          ast.RShift: ">>", ast.MatMult: "@"}
UNOPS = {ast.USub: "-", ast.UAdd: "+", ast.Not: "not", ast.Invert: "~"}


def _empty_list(v: ast.expr) -> bool:
    return (isinstance(v, ast.List) and not v.elts) or \
        (isinstance(v, ast.Call) and isinstance(v.func, ast.Name) and v.func.id == "list" and not v.args and not v.keywords)


def _names(node: ast.AST, ctx=None) -> set:
    return {n.id for n in ast.walk(node) if isinstance(n, ast.Name) and (ctx is None or isinstance(n.ctx, ctx))}


def _fold_append_loops(body: list) -> list:
    """``v = []`` ... ``for x in it: ...; v.append(elt)`` is read as the loop without the append, followed by ``v = [elt for x in it]``
    - when the list is built by that one unconditional append (or, in a loop that does nothing else, an append under plain ifs), is not
    touched between its creation and the loop, and ``elt`` depends only on the loop variable and on names the loop does not assign.
    The comprehension and its unrolled spelling then have the same term; a loop that fills several lists is read as one
    comprehension per list (loop fission)."""
    body = [ast.copy_location(ast.Assign(targets=[st.target], value=st.value), st)
            if isinstance(st, ast.AnnAssign) and st.value is not None and st.simple and isinstance(st.target, ast.Name) and _empty_list(st.value) else st
            for st in body]                                              # `v: list[T] = []` binds like `v = []`
    out = []
    for st in body:
        # `a, b = [], []` binds like `a = []` and `b = []` (no value mentions a target)
        if isinstance(st, ast.Assign) and len(st.targets) == 1 and isinstance(st.targets[0], ast.Tuple) and isinstance(st.value, ast.Tuple) \
                and len(st.targets[0].elts) == len(st.value.elts) and all(isinstance(t, ast.Name) for t in st.targets[0].elts) \
                and any(_empty_list(v) for v in st.value.elts) and not (_names(st.value) & _names(st.targets[0])) \
                and not any(isinstance(v, ast.Starred) for v in st.value.elts):
            out.extend(ast.copy_location(ast.Assign(targets=[t], value=v), st) for t, v in zip(st.targets[0].elts, st.value.elts))
        else:
            out.append(st)
    i = 0
    while i < len(out):
        loop = out[i]
        if not (isinstance(loop, ast.For) and not loop.orelse and isinstance(loop.target, (ast.Name, ast.Tuple))):
            i += 1
            continue
        target_names = _names(loop.target)
        stored_in_loop = set().union(*[_names(st, ast.Store) for st in loop.body]) if loop.body else set()
        new_loop_body = list(loop.body)
        made = []
        for st in list(loop.body):
            inner, conds = st, []
            if len(loop.body) == 1:
                while isinstance(inner, ast.If) and not inner.orelse and len(inner.body) == 1:
                    conds.append(inner.test)
                    inner = inner.body[0]
            if not (isinstance(inner, ast.Expr) and isinstance(inner.value, ast.Call) and isinstance(inner.value.func, ast.Attribute)
                    and inner.value.func.attr == "append" and isinstance(inner.value.func.value, ast.Name) and len(inner.value.args) == 1
                    and not inner.value.keywords and not isinstance(inner.value.args[0], ast.Starred)):
                continue
            v = inner.value.func.value.id
            elt = inner.value.args[0]
            # creation: the closest earlier `v = []` of this block, with no mention of v in between
            k = next((j for j in range(i - 1, -1, -1) if any(v in _names(out[j]) for _ in [0])), None)
            if k is None or not (isinstance(out[k], ast.Assign) and len(out[k].targets) == 1 and isinstance(out[k].targets[0], ast.Name)
                                 and out[k].targets[0].id == v and _empty_list(out[k].value)):
                continue
            others = [x for x in loop.body if x is not st]
            if any(v in _names(x) for x in others) or v in _names(loop.iter) or v in _names(elt) or any(v in _names(c) for c in conds):
                continue
            free = _names(elt) | set().union(*[_names(c) for c in conds]) if conds else _names(elt)
            if free & (stored_in_loop - target_names):
                continue
            if any(isinstance(n, (ast.Yield, ast.YieldFrom, ast.Await, ast.NamedExpr)) for part in [elt] + conds for n in ast.walk(part)):
                continue
            comp = ast.ListComp(elt=elt, generators=[ast.comprehension(target=loop.target, iter=loop.iter, ifs=conds, is_async=0)])
            asg = ast.Assign(targets=[ast.Name(id=v, ctx=ast.Store())], value=comp)
            for n in (comp, asg):
                ast.copy_location(n, loop)
            ast.fix_missing_locations(asg)
            made.append((k, asg))
            new_loop_body.remove(st)
        if not made:
            i += 1
            continue
        drop = {k for k, _ in made}
        repl = []
        if new_loop_body:
            nl = ast.For(target=loop.target, iter=loop.iter, body=new_loop_body, orelse=[], type_comment=None)
            ast.copy_location(nl, loop)
            repl.append(nl)
        repl.extend(asg for _, asg in made)
        out = [x for j, x in enumerate(out[:i]) if j not in drop] + repl + out[i + 1:]
        i = i - len(drop) + len(repl)
    return out


def _unfold_quantifiers(body: list) -> list:
    """``return all(e for x in it if c)`` is read as ``for x in it: if c: if not e: return False`` + ``return True`` (and any / not all /
    not any accordingly): the quantifier and its early-exit loop have the same events, frames and returns."""
    out = []
    for st in body:
        out.append(st)
        if not (isinstance(st, ast.Return) and st.value is not None):
            continue
        v, neg = st.value, False
        while isinstance(v, ast.UnaryOp) and isinstance(v.op, ast.Not):
            v, neg = v.operand, not neg
        if not (isinstance(v, ast.Call) and isinstance(v.func, ast.Name) and v.func.id in ("all", "any") and len(v.args) == 1 and not v.keywords
                and isinstance(v.args[0], (ast.GeneratorExp, ast.ListComp))):
            continue
        comp = v.args[0]
        is_all = v.func.id == "all"
        hit = ast.Return(value=ast.Constant(value=(not is_all) != neg))            # the value returned at the first deciding element
        test = ast.UnaryOp(op=ast.Not(), operand=comp.elt) if is_all else comp.elt
        inner: ast.stmt = ast.If(test=test, body=[hit], orelse=[])
        for g in reversed(comp.generators):
            if g.is_async:
                inner = None
                break
            for c in reversed(g.ifs):
                inner = ast.If(test=c, body=[inner], orelse=[])
            inner = ast.For(target=g.target, iter=g.iter, body=[inner], orelse=[])
        if inner is None:
            continue
        last = ast.Return(value=ast.Constant(value=is_all != neg))
        for n in (inner, last):
            for sub in ast.walk(n):
                if not hasattr(sub, "lineno"):
                    ast.copy_location(sub, st)
            ast.fix_missing_locations(n)
        out[-1:] = [inner, last]
    return out


NUMPY_ELEMENTWISE = {"logical_or": ("bin", "|"), "bitwise_or": ("bin", "|"), "logical_and": ("bin", "&"), "bitwise_and": ("bin", "&"),
                     "logical_xor": ("bin", "^"), "bitwise_xor": ("bin", "^"),
                     "logical_not": ("un", "~"), "invert": ("un", "~"), "bitwise_not": ("un", "~"),
                     "add": ("bin", "+"), "subtract": ("bin", "-"), "multiply": ("bin", "*"), "divide": ("bin", "/"), "true_divide": ("bin", "/"),
                     "negative": ("un", "-")}
NUMPY_REDUCTIONS = {"sum", "max", "min", "mean", "all", "any", "argmin", "argmax", "prod", "std", "cumsum", "cumprod"}


def _substitute(t, mapping: dict):
    if not isinstance(t, tuple):
        return t
    if t in mapping:
        return mapping[t]
    return tuple(_substitute(x, mapping) for x in t)


def _fold_returns(returns: list, depth: int, falls_through: bool):
    """The value of a function as ONE term: `if c: return A` ... `return B` is `A if c else B` (guards relative to the function body)."""
    result = ("const", None) if falls_through or not returns else None
    for value, rctx in reversed(returns):
        # implied guards (the rest of a block after `if c: return`) are the complement of an earlier return, which wraps this one anyway
        guards = [fr for fr in rctx[depth:] if fr[0] == "if" and not (len(fr) > 4 and fr[4] == "implied")]
        if any(fr[0] in ("for", "while", "comp", "try") for fr in rctx[depth:]):
            return ("unknown", "return inside a loop of an inlined helper")
        if result is None:
            result = value
            continue
        t = value
        for fr in reversed(guards):
            t = ("ifexp", fr[1], t, result) if fr[2] else ("ifexp", fr[1], result, t)
        result = t if guards else value
    return result if result is not None else ("const", None)


def _splice_stars(t):
    """f(*(a, b)) is f(a, b): a starred tuple / list display among call arguments is spliced in (after fusion has substituted the element)."""
    if not isinstance(t, tuple) or not t:
        return t
    t = tuple(_splice_stars(x) if isinstance(x, tuple) else x for x in t)
    if len(t) == 4 and t[0] == "call" and isinstance(t[2], tuple) and any(isinstance(a, tuple) and len(a) == 2 and a[0] == "star" and isinstance(a[1], tuple)
                                                                       and a[1] and a[1][0] in ("tuple", "list") for a in t[2]):
        args = []
        for a in t[2]:
            if isinstance(a, tuple) and len(a) == 2 and a[0] == "star" and isinstance(a[1], tuple) and a[1] and a[1][0] in ("tuple", "list"):
                args.extend(a[1][1])
            else:
                args.append(a)
        t = ("call", t[1], tuple(args), t[3])
    return t


def _fuse(c):
    """(B(x) for x in (E(y) for y in Z if p) if q(x))  ->  (B(E(y)) for y in Z if p if q(E(y))): a single-generator comprehension over a
    single-generator generator expression is one comprehension over the inner iterable (map over filter, starmap over filter, ...)."""
    while isinstance(c, tuple) and len(c) == 4 and c[0] == "comp" and len(c[3]) == 1:
        elem, it, conds = c[3][0]
        if not (isinstance(it, tuple) and len(it) == 4 and it[0] == "comp" and it[1] == "gen" and len(it[3]) == 1):
            break
        ielem, iit, iconds = it[3][0]
        mapping = {elem: it[2]}
        c = ("comp", c[1], _substitute(c[2], mapping), ((ielem, iit, tuple(iconds) + tuple(_substitute(q, mapping) for q in conds)),))
    return c


def zip_view(it, uid):
    """zip(X, [g(x) for x in X], A if c else B, ...) seen as an iteration over X itself: (X, element of X, (x, g(x), a(x) if c else b(x), ...)),
    when every other argument is X or an unconditional single-generator comprehension over X (or a conditional choice between such).
    None when ``it`` is not of that form."""
    if not (isinstance(it, tuple) and len(it) == 4 and it[0] == "call" and it[1] == ("global", "zip") and not it[3] and len(it[2]) >= 2):
        return None

    def component(y, base, e2):
        if y == base:
            return e2
        if len(y) == 4 and y[0] == "comp" and y[1] in ("list", "gen") and len(y[3]) == 1 and y[3][0][1] == base and not y[3][0][2]:
            return _substitute(y[2], {y[3][0][0]: e2})
        if len(y) == 4 and y[0] in ("ifexp", "phi"):
            a, b = component(y[2], base, e2), component(y[3], base, e2)
            return None if a is None or b is None else ("ifexp", y[1], a, b)
        return None
    for base in it[2]:
        if not (isinstance(base, tuple) and base and base[0] not in ("ifexp", "phi")):
            continue
        e2 = ("elem", base, uid)
        comps = [component(y, base, e2) for y in it[2]]
        if all(c is not None for c in comps):
            return base, e2, comps
    return None


def enumerate_view(it, uid, target):
    """`for i, x in enumerate(xs)` seen as `for i in range(len(xs))` with x = xs[i]: (range(len(xs)), i, (i, xs[i])); None otherwise."""
    if isinstance(it, tuple) and len(it) == 4 and it[0] == "call" and it[1] == ("global", "enumerate") and len(it[2]) == 1 and not it[3] \
            and isinstance(target, (ast.Tuple, ast.List)) and len(target.elts) == 2 and not any(isinstance(x, ast.Starred) for x in target.elts):
        rng = ("call", ("global", "range"), (("call", ("global", "len"), (it[2][0],), ()),), ())
        e2 = ("elem", rng, uid)
        return rng, e2, [e2, ("index", it[2][0], e2)]
    return None


def positional_zip_view(it, uid, target):
    """`for a, b in zip(A, B)` seen by position: `for i in range(min(len(A), len(B)))` with a = A[i], b = B[i]; None otherwise."""
    if isinstance(it, tuple) and len(it) == 4 and it[0] == "call" and it[1] == ("global", "zip") and len(it[2]) >= 2 and not it[3] \
            and not any(a[0] == "star" for a in it[2]) \
            and isinstance(target, (ast.Tuple, ast.List)) and len(target.elts) == len(it[2]) and not any(isinstance(x, ast.Starred) for x in target.elts):
        lens = tuple(("call", ("global", "len"), (a,), ()) for a in it[2])
        rng = ("call", ("global", "range"), (("call", ("global", "min"), lens, ()),), ())
        e2 = ("elem", rng, uid)
        return rng, e2, [("index", a, e2) for a in it[2]]
    return None


def fuse_deep(t, stop=lambda x: False):
    """Rule-level normal form of selections over paired lists (terms the rule opts in for; ``stop(t)`` keeps a sub-term opaque):

      * a single-generator comprehension over a list/generator comprehension is one comprehension over the inner iterable
        ([f(y) for y in [g(x) for x in X]] -> [f(g(x)) for x in X]);
      * a comprehension over zip(X, [g(x) for x in X], ...) iterates over X itself, the tuple positions replaced by x, g(x), ...

    so that `pair every candidate with its key, then filter the pairs` and `filter the candidates by their key` are one term."""
    if not isinstance(t, tuple) or not t:
        return t
    if isinstance(t[0], str) and stop(t):
        return t
    t = tuple(fuse_deep(x, stop) if isinstance(x, tuple) else x for x in t)
    while len(t) == 4 and t[0] == "comp" and len(t[3]) == 1 and isinstance(t[3][0], tuple) and len(t[3][0]) == 3:
        elem, it, conds = t[3][0]
        if not isinstance(it, tuple):
            break
        zv = zip_view(it, elem[2])
        if zv is not None:
            base, e2, comps = zv
            mapping = {("index", elem, ("const", i)): c for i, c in enumerate(comps)}
            mapping[elem] = ("tuple", tuple(comps))
            t = ("comp", t[1], _substitute(t[2], mapping), ((e2, base, tuple(_substitute(q, mapping) for q in conds)),))
            continue
        if len(it) == 4 and it[0] == "comp" and it[1] in ("list", "gen") and len(it[3]) == 1 and not stop(it):
            ielem, iit, iconds = it[3][0]
            mapping = {elem: it[2]}
            t = ("comp", t[1], _substitute(t[2], mapping), ((ielem, iit, tuple(iconds) + tuple(_substitute(q, mapping) for q in conds)),))
            continue
        break
    return t


NEGATED_CMP = {"==": "!=", "!=": "==", "in": "not in", "not in": "in", "is": "is not", "is not": "is"}


def _fold_empty_fill(body: list) -> list:
    """``x = np.empty(shape[, dtype]); x.fill(c)`` (adjacent statements) is ``x = np.full(shape, c[, dtype])``."""
    out = []
    i = 0
    while i < len(body):
        st = body[i]
        nxt = body[i + 1] if i + 1 < len(body) else None
        if isinstance(st, ast.Assign) and len(st.targets) == 1 and isinstance(st.targets[0], ast.Name) and isinstance(st.value, ast.Call) \
                and isinstance(st.value.func, ast.Attribute) and st.value.func.attr == "empty" and st.value.args \
                and isinstance(nxt, ast.Expr) and isinstance(nxt.value, ast.Call) and isinstance(nxt.value.func, ast.Attribute) and nxt.value.func.attr == "fill" \
                and isinstance(nxt.value.func.value, ast.Name) and nxt.value.func.value.id == st.targets[0].id and len(nxt.value.args) == 1 and not nxt.value.keywords:
            call = ast.Call(func=ast.Attribute(value=st.value.func.value, attr="full", ctx=ast.Load()),
                            args=[st.value.args[0], nxt.value.args[0]] + list(st.value.args[1:]), keywords=list(st.value.keywords))
            new = ast.Assign(targets=st.targets, value=call)
            ast.copy_location(new, st)
            ast.fix_missing_locations(new)
            out.append(new)
            i += 2
            continue
        out.append(st)
        i += 1
    return out


def _membership_container(t):
    """`x in frozenset(L)` / `set(L)` / `tuple(L)` / `list(L)` holds exactly when `x in L` holds (hashable elements compared by ==)."""
    while isinstance(t, tuple) and len(t) == 4 and t[0] == "call" and t[1] in (("global", "frozenset"), ("global", "set"), ("global", "tuple"), ("global", "list")) \
            and len(t[2]) == 1 and not t[3] and t[2][0][0] != "star":
        t = t[2][0]
    return t


def negate(t):
    """``not t`` in negation normal form: the negation is pushed through and/or (de Morgan) and into ==, !=, in, is - never into an
    ordered comparison (``not a < b`` is not ``a >= b`` for NaN), so `not (x == c or x == e)` and `x != c and x != e` are one term."""
    if isinstance(t, tuple) and len(t) == 3 and t[0] == "bool":
        return ("bool", "and" if t[1] == "or" else "or", tuple(negate(x) for x in t[2]))
    if isinstance(t, tuple) and len(t) == 4 and t[0] == "cmp" and t[1] in NEGATED_CMP:
        return ("cmp", NEGATED_CMP[t[1]], t[2], t[3])
    if isinstance(t, tuple) and len(t) == 3 and t[0] == "un" and t[1] == "not":
        return ("call", ("global", "bool"), (t[2],), ())          # `not not x` is bool(x)
    return ("un", "not", t)


MASK_CALLS = ("numpy.isclose", "numpy.isnan", "numpy.isfinite", "numpy.isinf", "numpy.isin")


def is_mask(t) -> bool:
    """A term that is certainly a Boolean array (or Boolean scalar): comparisons, isclose & co., and their ~ & | combinations."""
    if not isinstance(t, tuple) or not t:
        return False
    if t[0] == "cmp":
        return True
    if t[0] == "call" and t[1][0] == "global" and t[1][1] in MASK_CALLS:
        return True
    if t[0] == "un" and t[1] == "~":
        return is_mask(t[2])
    if t[0] == "bin" and t[1] in ("&", "|", "^"):
        return is_mask(t[2]) and is_mask(t[3])
    return False


def mask_not(t):
    """~t for a Boolean mask in negation normal form (de Morgan; ~~a is a).  Comparisons keep their negation (NaN)."""
    if t[0] == "un" and t[1] == "~":
        return t[2]
    if t[0] == "bin" and t[1] in ("&", "|"):
        return ("bin", "|" if t[1] == "&" else "&", mask_not(t[2]), mask_not(t[3]))
    return ("un", "~", t)


def _negations(t) -> int:
    return sum(1 for s in subterms(t) if isinstance(s, tuple) and len(s) == 3 and s[0] == "un" and s[1] in ("~", "not"))


def polarity(t):
    """Strip leading negations of a test: ``not not not X`` -> (X, False).  Guards and phi/ifexp terms are recorded on the
    positive test, so ``if c: A else: B`` and ``if not c: B else: A`` have the same frames and the same terms."""
    pos = True
    while isinstance(t, tuple):
        if len(t) == 3 and t[0] == "un" and t[1] == "not":
            t, pos = t[2], not pos
        elif len(t) == 4 and t[0] == "cmp" and t[1] in ("==", "!=", "<") and _len_zero_test(t) is not None:
            x, emptiness = _len_zero_test(t)          # `len(x) == 0` tests like `not x`, `len(x) != 0` / `len(x) > 0` like `x` (sequences)
            t, pos = x, (pos if not emptiness else not pos)
        elif len(t) == 4 and t[0] == "cmp" and t[1] in ("!=", "not in", "is not"):
            t, pos = ("cmp", NEGATED_CMP[t[1]], t[2], t[3]), not pos          # a test on `a != b` is the negated test on `a == b`
        elif len(t) == 4 and t[0] == "call" and t[1] == ("global", "bool") and len(t[2]) == 1 and not t[3] and t[2][0][0] != "star":
            t = t[2][0]             # a test is read for its truth value: bool(x) tests like x
        elif len(t) == 4 and t[0] == "ifexp" and t[3] == ("const", False):
            t = ("bool", "and", _flat("and", (t[1], polarity_free(t[2]))))       # as a test, `x if c else False` reads like `c and x`
        elif len(t) == 4 and t[0] == "ifexp" and t[2] == ("const", True):
            t = ("bool", "or", _flat("or", (t[1], polarity_free(t[3]))))         # and `True if c else y` like `c or y`
        elif len(t) == 4 and t[0] == "ifexp" and t[2] == ("const", False):
            t = ("bool", "and", _flat("and", (negate(t[1]), polarity_free(t[3]))))   # `False if c else y` like `not c and y`
        elif len(t) == 4 and t[0] == "ifexp" and t[3] == ("const", True):
            t = ("bool", "or", _flat("or", (negate(t[1]), polarity_free(t[2]))))     # `x if c else True` like `not c or x`
        else:
            break
    return t, pos


def _len_zero_test(t):
    """(x, tests_emptiness) for len(x) == 0 / 0 == len(x) / len(x) != 0 / 0 < len(x); None otherwise."""
    def ln(u):
        return u[2][0] if isinstance(u, tuple) and len(u) == 4 and u[0] == "call" and u[1] == ("global", "len") and len(u[2]) == 1 and not u[3] else None
    a, b = t[2], t[3]
    if t[1] in ("==", "!="):
        for u, z in ((a, b), (b, a)):
            if ln(u) is not None and z == ("const", 0):
                return ln(u), t[1] == "=="
    if t[1] == "<" and a == ("const", 0) and ln(b) is not None:
        return ln(b), False
    return None


def polarity_free(t):
    """The canonical test form of ``t`` as a sub-test (negation kept in place)."""
    u, pos = polarity(t)
    return u if pos else ("un", "not", u)


def _flat(op: str, parts: tuple) -> tuple:
    out = []
    for p in parts:
        if isinstance(p, tuple) and len(p) == 3 and p[0] == "bool" and p[1] == op:
            out.extend(p[2])
        else:
            out.append(p)
    return tuple(out)
CMPOPS = {ast.Eq: "==", ast.NotEq: "!=", ast.Lt: "<", ast.LtE: "<=", ast.Gt: ">", ast.GtE: ">=",
          ast.Is: "is", ast.IsNot: "is not", ast.In: "in", ast.NotIn: "not in"}

Term = tuple


class Event:
    """One program-order event."""

    __slots__ = ("kind", "node", "stmt", "ctx", "seq", "data")

    def __init__(self, kind: str, node: ast.AST, stmt: ast.stmt | None, ctx: tuple, seq: int, data: dict) -> None:
        self.kind = kind
        self.node = node
        self.stmt = stmt
        self.ctx = ctx
        self.seq = seq
        self.data = data

    def __getattr__(self, item: str):
        try:
            return self.data[item]
        except KeyError:
            raise AttributeError(item)

    def loops(self) -> list[tuple]:
        return [f for f in self.ctx if f[0] in ("for", "comp", "while")]

    def guards(self) -> list[tuple]:
        return [f for f in self.ctx if f[0] == "if"]

    @property
    def lineno(self) -> int:
        return getattr(self.node, "lineno", 0)


class FunctionTerms:
    """Events and final environment of one function."""

    def __init__(self, prog: Program, ref: FuncRef) -> None:
        self.prog = prog
        self.ref = ref
        self.module: Module = ref.module
        self.events: list[Event] = []
        self.locals = bound_names(ref.node)
        self._uid = 0
        self._seq = 0
        self._last_test: dict[int, Term] = {}
        self._inline_stack: list[dict] = []
        self._nt_fields: dict = {}
        self._cls_stack: list = [(ref.module, ref.cls) if ref.cls is not None else None]
        self._stmt: ast.stmt | None = None
        env: dict[str, Term] = {}
        for p in ref.params():
            env[p] = ("param", p)
        self.param_defaults: dict[str, ast.expr] = {}
        a = ref.node.args
        pos = a.posonlyargs + a.args
        for arg, d in zip(pos[len(pos) - len(a.defaults):], a.defaults):
            self.param_defaults[arg.arg] = d
        for arg, d in zip(a.kwonlyargs, a.kw_defaults):
            if d is not None:
                self.param_defaults[arg.arg] = d
        self.env = env
        self._block(ref.node.body, env, ())

    # ------------------------------------------------------------------ helpers
    def uid(self) -> int:
        self._uid += 1
        return self._uid

    def emit(self, kind: str, node: ast.AST, ctx: tuple, **data) -> Event:
        self._seq += 1
        e = Event(kind, node, self._stmt, ctx, self._seq, data)
        self.events.append(e)
        return e

    def calls(self, name: str | None = None) -> Iterator[Event]:
        for e in self.events:
            if e.kind == "call" and (name is None or e.data["name"] == name):
                yield e

    def of_kind(self, *kinds: str) -> Iterator[Event]:
        for e in self.events:
            if e.kind in kinds:
                yield e

    def result(self) -> Term:
        """The value of the function as ONE term: early returns under guards are folded into a conditional expression
        (`if c: return A` ... `return B` is `A if c else B`); ('unknown', ...) when a return sits inside a loop / try / with."""
        rets = [(e.value, e.ctx) for e in self.of_kind("return")]
        return _fold_returns(rets, 0, falls_through=not _terminates(self.ref.node.body))

    # ------------------------------------------------------------------ statements
    def _block(self, body: list[ast.stmt], env: dict[str, Term], ctx: tuple) -> None:
        body = _unfold_quantifiers(_fold_append_loops(_fold_empty_fill(self._canonical_loops(body))))
        for s in body:
            self._stmt_(s, env, ctx)
            # implied guard: after ``if t: return`` the rest of the block runs under ``not t``
            if isinstance(s, ast.If):
                t1, t2 = _terminates(s.body), _terminates(s.orelse)
                if t1 != t2:
                    lt, pos = self._last_test[id(s)]
                    ctx = ctx + (("if", lt, (not t1) == pos, s, "implied"),)

    def _canonical_loops(self, body: list) -> list:
        """for <-> while spellings of the same loop are read as one:

          * ``i = a; while i < N: BODY; i += 1``  (N not assigned in BODY, i assigned only by the final increment, no ``continue``) is
            ``for i in range(a, N): BODY`` followed, on normal termination, by ``i = max(a, N)`` (the value the counter ends with);
          * ``for i in itertools.count(a): BODY``  (no ``continue``) is ``i = a; while True: BODY; i += 1``;
          * ``while True: if t: break; REST``  is ``while not t: REST``."""
        def own_level(stmts, kinds):
            """Nodes of the given kinds that belong to this loop (not to a nested loop or function)."""
            for st in stmts:
                if isinstance(st, kinds):
                    yield st
                if isinstance(st, (ast.For, ast.While, ast.AsyncFor, ast.FunctionDef, ast.AsyncFunctionDef, ast.ClassDef)):
                    continue
                for fld in ("body", "orelse", "finalbody", "handlers"):
                    sub = getattr(st, fld, None)
                    if isinstance(sub, list):
                        yield from own_level([x for x in sub if isinstance(x, ast.stmt)] +
                                             [y for x in sub if isinstance(x, ast.ExceptHandler) for y in x.body], kinds)

        def loc(new, old):
            for n in ast.walk(new):
                if not hasattr(n, "lineno"):
                    ast.copy_location(n, old)
            ast.fix_missing_locations(new)
            return new
        out = []
        for st in body:
            # for a, b in TABLE  with TABLE a module-level tuple display (bound once, at most 6 rows of names / literals): unrolled row by row
            rows = self._module_table(st.iter) if isinstance(st, ast.For) and not st.orelse else None
            if rows is not None and not list(own_level(st.body, (ast.Break, ast.Continue))):
                import copy
                unrolled = []
                for row in rows:
                    unrolled.append(loc(ast.Assign(targets=[copy.deepcopy(st.target)], value=copy.deepcopy(row)), st))
                    unrolled.extend(copy.deepcopy(x) for x in st.body)
                out.extend(self._canonical_loops(unrolled))
                continue
            # for x in (a, b): BODY  over a display of at most 4 elements: the elements are evaluated first, in order, then BODY runs once per element
            if isinstance(st, ast.For) and not st.orelse and isinstance(st.iter, (ast.Tuple, ast.List)) and 1 <= len(st.iter.elts) <= 4 \
                    and not any(isinstance(x, ast.Starred) for x in st.iter.elts) and isinstance(st.target, ast.Name) \
                    and not list(own_level(st.body, (ast.Break, ast.Continue))):
                import copy
                pre, elems = [], []
                for k, x in enumerate(st.iter.elts):
                    if isinstance(x, (ast.Name, ast.Constant)):
                        elems.append(x)
                    else:
                        tmp = f"__elem{k}_of_{st.target.id}_{st.lineno}"
                        pre.append(loc(ast.Assign(targets=[ast.Name(id=tmp, ctx=ast.Store())], value=x), st))
                        elems.append(ast.Name(id=tmp, ctx=ast.Load()))
                unrolled = list(pre)
                for x in elems:
                    unrolled.append(loc(ast.Assign(targets=[ast.Name(id=st.target.id, ctx=ast.Store())], value=copy.deepcopy(x)), st))
                    unrolled.extend(copy.deepcopy(b) for b in st.body)
                out.extend(self._canonical_loops(unrolled))
                continue
            # for i in count(a)  ->  i = a; while True: ...; i += 1
            if isinstance(st, ast.For) and not st.orelse and isinstance(st.target, ast.Name) and isinstance(st.iter, ast.Call) \
                    and self.prog.resolve(self.module, st.iter.func) == "itertools.count" and len(st.iter.args) <= 1 and not st.iter.keywords \
                    and st.target.id not in self.locals_shadowing_count() and not list(own_level(st.body, ast.Continue)) \
                    and st.target.id not in {n.id for x in st.body for n in ast.walk(x) if isinstance(n, ast.Name) and isinstance(n.ctx, ast.Store)}:
                start = st.iter.args[0] if st.iter.args else ast.Constant(value=0)
                init = loc(ast.Assign(targets=[ast.Name(id=st.target.id, ctx=ast.Store())], value=start), st)
                inc = loc(ast.AugAssign(target=ast.Name(id=st.target.id, ctx=ast.Store()), op=ast.Add(), value=ast.Constant(value=1)), st)
                out.append(init)
                st = loc(ast.While(test=ast.Constant(value=True), body=list(st.body) + [inc], orelse=[]), st)
            # while True: if t: break; REST  ->  while not t: REST
            if isinstance(st, ast.While) and not st.orelse and isinstance(st.test, ast.Constant) and st.test.value is True and st.body \
                    and isinstance(st.body[0], ast.If) and not st.body[0].orelse and len(st.body[0].body) == 1 and isinstance(st.body[0].body[0], ast.Break) \
                    and len(st.body) > 1:
                st = loc(ast.While(test=ast.UnaryOp(op=ast.Not(), operand=st.body[0].test), body=st.body[1:], orelse=[]), st)
            # i = a; while i < N: BODY; i += 1  ->  for i in range(i, N): BODY  else: i = max(a, N)
            if isinstance(st, ast.While) and not st.orelse and isinstance(st.test, ast.Compare) and len(st.test.ops) == 1 \
                    and isinstance(st.test.ops[0], (ast.Lt, ast.Gt)) and len(st.body) >= 2:
                cnt, lim = (st.test.left, st.test.comparators[0]) if isinstance(st.test.ops[0], ast.Lt) else (st.test.comparators[0], st.test.left)
                last = st.body[-1]
                if isinstance(cnt, ast.Name) and isinstance(last, ast.AugAssign) and isinstance(last.op, ast.Add) and isinstance(last.target, ast.Name) \
                        and last.target.id == cnt.id and isinstance(last.value, ast.Constant) and last.value.value == 1 and type(last.value.value) is int:
                    rest = st.body[:-1]
                    stored = {n.id for x in rest for n in ast.walk(x) if isinstance(n, ast.Name) and isinstance(n.ctx, (ast.Store, ast.Del))}
                    if cnt.id not in stored and not (stored & {n.id for n in ast.walk(lim) if isinstance(n, ast.Name)}) \
                            and not list(own_level(rest, ast.Continue)) \
                            and not any(isinstance(n, (ast.Call, ast.Attribute, ast.Subscript)) for n in ast.walk(lim)):
                        w0 = f"__start_of_{cnt.id}"
                        out.append(loc(ast.Assign(targets=[ast.Name(id=w0, ctx=ast.Store())], value=ast.Name(id=cnt.id, ctx=ast.Load())), st))
                        rng = ast.Call(func=ast.Name(id="range", ctx=ast.Load()), args=[ast.Name(id=w0, ctx=ast.Load()), lim], keywords=[])
                        end = ast.Assign(targets=[ast.Name(id=cnt.id, ctx=ast.Store())],
                                         value=ast.Call(func=ast.Name(id="max", ctx=ast.Load()), args=[ast.Name(id=w0, ctx=ast.Load()), lim], keywords=[]))
                        st = loc(ast.For(target=ast.Name(id=cnt.id, ctx=ast.Store()), iter=rng, body=rest, orelse=[end], type_comment=None), st)
            out.append(st)
        return out

    def _module_table(self, it: ast.expr):
        """Rows of a module-level dispatch table: a name of this module bound exactly once to a tuple display of at most 6 rows, every
        row a name / attribute / scalar literal or a tuple of those (no call: nothing is evaluated per row); None otherwise."""
        if not isinstance(it, ast.Name) or it.id in self.locals:
            return None
        v = self.module.assigns.get(it.id)
        if not isinstance(v, ast.Tuple) or not 1 <= len(v.elts) <= 6:
            return None
        if sum(1 for n in ast.walk(self.module.tree) if isinstance(n, ast.Name) and n.id == it.id and isinstance(n.ctx, (ast.Store, ast.Del))) != 1:
            return None
        if any(isinstance(n, ast.Global) and it.id in n.names for n in ast.walk(self.module.tree)):
            return None

        def atom(e):
            return isinstance(e, (ast.Name, ast.Constant)) or (isinstance(e, ast.Attribute) and atom(e.value))
        if all(atom(r) or (isinstance(r, ast.Tuple) and r.elts and all(atom(x) for x in r.elts)) for r in v.elts):
            return list(v.elts)
        return None

    def locals_shadowing_count(self) -> set:
        return set()

    def _canonical_iteration(self, f, args, kws):
        """map / filter / starmap / list(<generator>) are recorded in comprehension form, so that
        ``map(lambda x: g(x), xs)``, ``(g(x) for x in xs)`` and a helper-free loop are one family of terms:

            map(F, it)            -> (F(x) for x in it)              map(F, a, b) -> (F(x[0], x[1]) for x in zip(a, b))
            filter(F, it)         -> (x for x in it if F(x))         filter(None, it) -> (x for x in it if x)
            starmap(F, it)        -> (F(*x) for x in it)             (a lambda F is applied: its parameters become x[0], x[1], ...)
            list(<gen comp>)      -> the same comprehension as a list comprehension
        The ``call`` event of the builtin is still emitted (laziness rules look at events)."""
        if kws or f[0] != "global":
            return None

        def apply(fn, actual):
            if isinstance(fn, tuple) and fn[0] == "lambda" and len(fn[1]) == len(actual):
                mapping = dict(zip(fn[1], actual))
                return _substitute(fn[2], mapping)
            if isinstance(fn, tuple) and fn[0] == "attr" and fn[2] == "__contains__" and len(actual) == 1:
                return ("cmp", "in", actual[0], _membership_container(fn[1]))          # C.__contains__ as a predicate is `x in C`
            return ("call", fn, tuple(actual), ())
        if f[1] == "map" and len(args) >= 2 and not any(a[0] == "star" for a in args):
            # itertools.repeat(x) as one of several iterables is the constant x for every element of the others
            def constant(a):
                return a[0] == "call" and a[1] == ("global", "itertools.repeat") and len(a[2]) == 1 and not a[3]
            varying = [a for a in args[1:] if not constant(a)]
            if not varying:
                return None
            it = varying[0] if len(varying) == 1 else ("call", ("global", "zip"), tuple(varying), ())
            elem = ("elem", it, self.uid())
            actual, k = [], 0
            for a in args[1:]:
                if constant(a):
                    actual.append(a[2][0])
                else:
                    actual.append(elem if len(varying) == 1 else ("index", elem, ("const", k)))
                    k += 1
            return ("comp", "gen", apply(args[0], actual), ((elem, it, ()),))
        if f[1] == "filter" and len(args) == 2:
            it = args[1]
            elem = ("elem", it, self.uid())
            cond = elem if args[0] == ("const", None) else apply(args[0], [elem])
            return ("comp", "gen", elem, ((elem, it, (cond,)),))
        if f[1] == "itertools.filterfalse" and len(args) == 2:
            it = args[1]
            elem = ("elem", it, self.uid())
            cond = elem if args[0] == ("const", None) else apply(args[0], [elem])
            return ("comp", "gen", elem, ((elem, it, (negate(cond),)),))
        if f[1] == "itertools.starmap" and len(args) == 2:
            it = args[1]
            elem = ("elem", it, self.uid())
            fn = args[0]
            if isinstance(fn, tuple) and fn[0] == "lambda":
                return ("comp", "gen", apply(fn, [("index", elem, ("const", i)) for i in range(len(fn[1]))]), ((elem, it, ()),))
            return ("comp", "gen", ("call", fn, (("star", elem),), ()), ((elem, it, ()),))
        if f[1] == "list" and len(args) == 1 and args[0][0] == "comp" and args[0][1] == "gen":
            return ("comp", "list") + tuple(args[0][2:])
        return None

    def _inline_call(self, f, args, kws, env, ctx, as_property: bool = False):
        """Helpers that no rule knows by name are read THROUGH: their body is evaluated in place (events and all), with the parameters
        bound to the argument terms, and the call's value is the folded value of their returns.  `extract helper` / `inline helper`
        refactorings therefore leave the events and terms of the caller unchanged.  Functions that rules name (anchors) stay opaque."""
        if len(self._inline_stack) >= 2 or any(a[0] == "star" for a in args) or any(k is None for k, _ in kws):
            return None
        callee = None
        recv = None
        deco_ok = False
        if f[0] == "global" and f[1].startswith(self.prog.PKG + "."):
            callee = self.prog.find_func(f[1])
            if callee is not None and callee.cls is not None:
                # Class.method(...) through the class name: a @classmethod (cls = the class) or a @staticmethod
                kinds = [d.id for d in callee.node.decorator_list if isinstance(d, ast.Name)]
                if len(callee.node.decorator_list) == 1 and kinds in (["classmethod"], ["staticmethod"]):
                    deco_ok = True
                    if kinds == ["classmethod"]:
                        recv = ("global", f[1].rsplit(".", 1)[0])
                else:
                    callee = None
        elif f[0] == "attr" and f[1] != ("param", "self") and self._record_class(f[1]) is not None:
            # a method of a record (NamedTuple / frozen dataclass) value: evaluated in place with self = the record
            mod, cls = self._record_class(f[1])
            for n in cls.body:
                is_prop = isinstance(n, ast.FunctionDef) and len(n.decorator_list) == 1 and isinstance(n.decorator_list[0], ast.Name) and n.decorator_list[0].id == "property"
                if isinstance(n, ast.FunctionDef) and n.name == f[2] and ((not n.decorator_list and not as_property) or (as_property and is_prop)):
                    from .core import FuncRef as _FR
                    callee = _FR(mod, n, cls)
                    recv = f[1]
                    deco_ok = as_property
        elif f[0] == "attr" and f[1] == ("param", "self") and self._cls_stack[-1] is not None:
            mod, cls = self._cls_stack[-1]
            for n in cls.body:
                is_prop = len(n.decorator_list) == 1 and isinstance(n.decorator_list[0], ast.Name) and n.decorator_list[0].id == "property" \
                    if isinstance(n, ast.FunctionDef) else False
                if isinstance(n, ast.FunctionDef) and n.name == f[2] and ((not n.decorator_list and not as_property) or (as_property and is_prop)):
                    from .core import FuncRef as _FR
                    callee = _FR(mod, n, cls)
                    recv = f[1]
                    deco_ok = as_property
        if callee is None or "/tests/" in callee.module.rel() or not self.prog.inlinable(callee, allow_decorated=deco_ok):
            return None
        if any(fr["qual"] == callee.qual for fr in self._inline_stack) or callee.qual == self.ref.qual:
            return None
        a = callee.node.args
        if a.vararg or a.kwarg or a.posonlyargs:
            return None
        names = [x.arg for x in a.args]
        if recv is not None:
            names = names[1:]
        if len(args) > len(names):
            return None
        bound: dict[str, Term] = dict(zip(names, args))
        for k, v in kws:
            if k in bound or (k not in names and k not in [x.arg for x in a.kwonlyargs]):
                return None
            bound[k] = v
        # defaults are evaluated in the callee's module
        saved = (self.module, self.locals)
        self.module, self.locals = callee.module, bound_names(callee.node)
        self._cls_stack.append((callee.module, callee.cls) if callee.cls is not None else None)
        try:
            pos_defaults = dict(zip([x.arg for x in a.args][len(a.args) - len(a.defaults):], a.defaults))
            kw_defaults = {x.arg: d for x, d in zip(a.kwonlyargs, a.kw_defaults) if d is not None}
            for nme in names + [x.arg for x in a.kwonlyargs]:
                if nme not in bound:
                    d = pos_defaults.get(nme, kw_defaults.get(nme))
                    if d is None:
                        return None
                    bound[nme] = self.ev(d, {}, ctx)
            env2 = dict(bound)
            if recv is not None:
                env2[a.args[0].arg] = recv
            # attribute aliases of the caller (self.x = ...) stay visible through dotted names
            for k, v in env.items():
                if "." in k and k.split(".")[0] == "self" and recv is not None:
                    env2.setdefault(k, v)
            frame = {"qual": callee.qual, "returns": []}
            self._inline_stack.append(frame)
            base_ctx = ctx + (("inline", self.uid(), callee.qual),)
            try:
                self._block(callee.node.body, env2, base_ctx)
            finally:
                self._inline_stack.pop()
            # write the callee's view of self.<attr> aliases back (stores inside the helper are stores of the caller)
            if recv is not None:
                for k, v in env2.items():
                    if "." in k and k.split(".")[0] == "self":
                        env[k] = v
        finally:
            self.module, self.locals = saved
            self._cls_stack.pop()
        return _fold_returns(frame["returns"], len(base_ctx), falls_through=not _terminates(callee.node.body))

    def _class_constant(self, attr: str):
        """``self.X`` where X is a class-level constant of the current class: bound once in the class body to a scalar literal or to a closed
        ``slice(..)``, never stored through an attribute anywhere in the package, and a name no rule knows.  None otherwise."""
        from .core import _closed_int
        mod, cls = self._cls_stack[-1]
        if attr in self.prog.vocabulary() or attr.startswith("__"):
            return None
        binds = [st for st in cls.body if isinstance(st, (ast.Assign, ast.AnnAssign))
                 for t in (st.targets if isinstance(st, ast.Assign) else [st.target]) if isinstance(t, ast.Name) and t.id == attr]
        if len(binds) != 1 or binds[0].value is None or any(isinstance(st, ast.FunctionDef) and st.name == attr for st in cls.body):
            return None
        cache = self.prog.__dict__.setdefault("_const_cache", {})
        if "__attr_stores__" not in cache:
            cache["__attr_stores__"] = {n.attr for mm in self.prog.modules.values() for n in ast.walk(mm.tree)
                                        if isinstance(n, ast.Attribute) and isinstance(n.ctx, (ast.Store, ast.Del))}
        if attr in cache["__attr_stores__"]:
            return None
        v = binds[0].value
        if isinstance(v, ast.Constant) and (v.value is None or isinstance(v.value, (bool, int, float, str))):
            return ("const", v.value)
        if isinstance(v, ast.Call) and isinstance(v.func, ast.Name) and v.func.id == "slice" and not v.keywords and 1 <= len(v.args) <= 3 and all(_closed_int(a) for a in v.args):
            return (mod, v)
        return None

    def _param_record_fields(self, name: str):
        """Fields of the record class (NamedTuple / frozen dataclass of the package) a parameter of this function is annotated with."""
        a = self.ref.node.args
        for arg in a.posonlyargs + a.args + a.kwonlyargs:
            if arg.arg == name and arg.annotation is not None:
                ann = arg.annotation
                if isinstance(ann, ast.Constant) and isinstance(ann.value, str):
                    try:
                        ann = ast.parse(ann.value, mode="eval").body
                    except SyntaxError:
                        return None
                if isinstance(ann, (ast.Name, ast.Attribute)):
                    q = self.prog.resolve(self.ref.module, ann)
                    return self.prog.namedtuple_fields(q) if q else None
        return None

    def _record_class(self, base: Term):
        """(module, class node) when the term is a value of a package record class: built by its constructor in this function, or the result of a
        package function annotated to return it."""
        q = self._nt_class.get(base) if hasattr(self, "_nt_class") else None
        if q is None and base[0] == "call" and base[1][0] == "global" and base[1][1].startswith(self.prog.PKG + "."):
            q = self.prog.returned_record_class(base[1][1])
        if q is None:
            return None
        try:
            return self.prog.cls(q)
        except Exception:
            return None

    def _local_function(self, s: ast.FunctionDef, env: dict[str, Term], ctx: tuple) -> Term:
        """A small named inner function (`def is_unknown(x): return not game.is_value_known(x)`) is the lambda it could have been written
        as: ('lambda', params, folded value of its returns).  Its body is evaluated once, at the definition, under a lambda frame - exactly
        like the body of a lambda expression.  Anything else (decorated, generator, defaults, *args, unfoldable returns) stays opaque."""
        a = s.args
        opaque = ("localdef", s.name)
        if s.decorator_list or a.vararg or a.kwarg or a.kwonlyargs or a.posonlyargs or a.defaults or len(self._inline_stack) >= 2:
            return opaque
        if any(isinstance(n, (ast.Yield, ast.YieldFrom, ast.Global, ast.Nonlocal, ast.FunctionDef, ast.AsyncFunctionDef, ast.ClassDef, ast.Await))
               for st in s.body for n in ast.walk(st)) or sum(1 for st in s.body for n in ast.walk(st) if isinstance(n, ast.stmt)) > 25:
            return opaque
        uid = self.uid()
        e2 = dict(env)
        params = []
        for x in a.args:
            e2[x.arg] = ("lparam", x.arg, uid)
            params.append(("lparam", x.arg, uid))
        saved_locals, saved_stmt = self.locals, self._stmt
        self.locals = self.locals | bound_names(s)
        frame = {"qual": f"<local {s.name}>", "returns": []}
        self._inline_stack.append(frame)
        base_ctx = ctx + (("lambda", uid, s),)
        try:
            self._block(s.body, e2, base_ctx)
        finally:
            self._inline_stack.pop()
            self.locals, self._stmt = saved_locals, saved_stmt
        body = _fold_returns(frame["returns"], len(base_ctx), falls_through=not _terminates(s.body))
        if body[0] == "unknown":
            return opaque
        return ("lambda", tuple(params), body)

    def _generator_view(self, it: Term, ctx: tuple):
        """`for T in gen(args)` where gen is a small generator FUNCTION of the package that no rule names, of the shape
        ``[simple assignments]; for x in IT: [simple assignments]; yield V`` - is read as the loop over IT itself, T bound to V each round.
        Returns {"iter": term of IT, "round": f(elem, ctx) -> term of V} or None."""
        if not (isinstance(it, tuple) and it[0] == "call" and it[1][0] == "global" and it[1][1].startswith(self.prog.PKG + ".") and not it[3]):
            return None
        if len(self._inline_stack) >= 2 or any(a[0] == "star" for a in it[2]):
            return None
        ref = self.prog.find_func(it[1][1])
        if ref is None or ref.cls is not None or ref.node.decorator_list or ref.node.name in self.prog.vocabulary() or "/tests/" in ref.module.rel():
            return None
        body = [st for st in ref.node.body if not (isinstance(st, ast.Expr) and isinstance(st.value, ast.Constant))]       # docstring
        simple = (ast.Assign, ast.AnnAssign)
        if not body or not isinstance(body[-1], ast.For) or body[-1].orelse or not all(isinstance(st, simple) for st in body[:-1]):
            return None
        loop = body[-1]
        if not loop.body or not (isinstance(loop.body[-1], ast.Expr) and isinstance(loop.body[-1].value, ast.Yield) and loop.body[-1].value.value is not None) \
                or not all(isinstance(st, simple) for st in loop.body[:-1]):
            return None
        if sum(1 for n in ast.walk(ref.node) if isinstance(n, (ast.Yield, ast.YieldFrom))) != 1:
            return None
        a = ref.node.args
        if a.vararg or a.kwarg or a.kwonlyargs or a.posonlyargs or a.defaults or len(a.args) != len(it[2]):
            return None
        env2: dict[str, Term] = {p.arg: v for p, v in zip(a.args, it[2])}

        def in_callee(fn):
            saved = (self.module, self.locals)
            self.module, self.locals = ref.module, bound_names(ref.node)
            self._inline_stack.append({"qual": ref.qual, "returns": []})
            try:
                return fn()
            finally:
                self._inline_stack.pop()
                self.module, self.locals = saved
        base_ctx = ctx + (("inline", self.uid(), ref.qual),)
        in_callee(lambda: self._block(body[:-1], env2, base_ctx))
        iter_term = in_callee(lambda: self.ev(loop.iter, env2, base_ctx))

        def one_round(elem: Term, frame_ctx: tuple) -> Term:
            def run():
                self._bind(loop.target, elem, env2, frame_ctx, loop)
                self._block(loop.body[:-1], env2, frame_ctx)
                return self.ev(loop.body[-1].value.value, env2, frame_ctx)
            return in_callee(run)
        return {"iter": iter_term, "round": one_round}

    def lambda_of(self, t: Term) -> Term:
        """A small package function passed as a VALUE (``key=_size_of_candidate``) as the lambda it could have been written as; ``t`` itself
        when it is not a reference to such a function.  Nothing is added to this function's events."""
        if not (isinstance(t, tuple) and t[0] == "global" and t[1].startswith(self.prog.PKG + ".")):
            return t
        ref = self.prog.find_func(t[1])
        if ref is None or ref.cls is not None or not self.prog.inlinable(ref):
            return t
        saved = (self.module, self.locals, self.events, self._seq, self._stmt)
        self.module, self.locals, self.events = ref.module, set(), []
        try:
            lam = self._local_function(ref.node, {}, ())
        finally:
            self.module, self.locals, self.events, self._seq, self._stmt = saved
        return lam if lam[0] == "lambda" else t

    def _assigned_in(self, body: list[ast.stmt]) -> set[str]:
        out: set[str] = set()
        for s in body:
            for n in ast.walk(s):
                if isinstance(n, ast.Name) and isinstance(n.ctx, ast.Store):
                    out.add(n.id)
                elif isinstance(n, ast.Attribute) and isinstance(n.ctx, ast.Store):
                    d = _dotted(n)
                    if d:
                        out.add(d)
        return out

    def _bind(self, target: ast.expr, value: Term, env: dict[str, Term], ctx: tuple, node: ast.AST,
              value_node: ast.expr | None = None) -> None:
        if isinstance(target, ast.Name):
            env[target.id] = value
            self.emit("assign", node, ctx, name=target.id, value=value, value_node=value_node)
        elif isinstance(target, (ast.Tuple, ast.List)):
            items = value[1] if value[0] in ("tuple", "list") and len(value[1]) == len(target.elts) else None
            for i, t in enumerate(target.elts):
                if isinstance(t, ast.Starred):
                    self._bind(t.value, ("index", value, ("slice", ("const", i), None, None)), env, ctx, node)
                    continue
                sub = items[i] if items is not None else ("index", value, ("const", i))
                self._bind(t, sub, env, ctx, node)
        elif isinstance(target, ast.Attribute):
            obj = self.ev(target.value, env, ctx)
            d = _dotted(target)
            if d:
                env[d] = value
            self.emit("store", node, ctx, target=("attr", obj, target.attr), obj=obj, attr=target.attr,
                      index=None, value=value, target_node=target, value_node=value_node)
        elif isinstance(target, ast.Subscript):
            obj = self.ev(target.value, env, ctx)
            idx = self.ev_slice(target.slice, env, ctx)
            self.emit("store", node, ctx, target=("index", obj, idx), obj=obj, attr=None, index=idx,
                      value=value, target_node=target, value_node=value_node)
        elif isinstance(target, ast.Starred):
            self._bind(target.value, value, env, ctx, node)

    def _stmt_(self, s: ast.stmt, env: dict[str, Term], ctx: tuple) -> None:
        self._stmt = s
        if isinstance(s, ast.Assign):
            v = self.ev(s.value, env, ctx)
            for t in s.targets:
                self._bind(t, v, env, ctx, s, s.value)
        elif isinstance(s, ast.AnnAssign):
            if s.value is not None:
                v = self.ev(s.value, env, ctx)
                self._bind(s.target, v, env, ctx, s, s.value)
        elif isinstance(s, ast.AugAssign):
            v = self.ev(s.value, env, ctx)
            op = BINOPS.get(type(s.op), "?")
            if isinstance(s.target, ast.Name):
                old = env.get(s.target.id, ("unknown", s.target.id))
                env[s.target.id] = ("bin", op, old, v)
                self.emit("aug", s, ctx, target=old, op=op, value=v, name=s.target.id, target_node=s.target,
                          obj=old, attr=None, index=None)
            elif isinstance(s.target, ast.Attribute):
                obj = self.ev(s.target.value, env, ctx)
                d = _dotted(s.target)
                old = env.get(d, ("attr", obj, s.target.attr)) if d else ("attr", obj, s.target.attr)
                if d:
                    env[d] = ("bin", op, old, v)
                self.emit("aug", s, ctx, target=("attr", obj, s.target.attr), op=op, value=v, name=None,
                          target_node=s.target, obj=obj, attr=s.target.attr, index=None)
            elif isinstance(s.target, ast.Subscript):
                obj = self.ev(s.target.value, env, ctx)
                idx = self.ev_slice(s.target.slice, env, ctx)
                self.emit("aug", s, ctx, target=("index", obj, idx), op=op, value=v, name=None,
                          target_node=s.target, obj=obj, attr=None, index=idx)
        elif isinstance(s, ast.Expr):
            v = self.ev(s.value, env, ctx)
            self.emit("expr", s, ctx, value=v)
            # `xs.sort(key=k)` on a list built in this function is `xs = sorted(xs, key=k)`
            c = s.value
            if isinstance(c, ast.Call) and isinstance(c.func, ast.Attribute) and c.func.attr == "sort" and isinstance(c.func.value, ast.Name) \
                    and not c.args and c.func.value.id in env:
                old = env[c.func.value.id]
                if isinstance(old, tuple) and (old[0] == "list" or (old[0] == "comp" and old[1] == "list") or
                                               (old[0] == "call" and old[1] in (("global", "list"), ("global", "sorted")))):
                    base = old[2][0] if old[0] == "call" and old[1] == ("global", "list") and len(old[2]) == 1 else old
                    env[c.func.value.id] = ("call", ("global", "sorted"), (base,), tuple((k.arg, self.ev(k.value, env, ctx)) for k in c.keywords if k.arg))
        elif isinstance(s, ast.Return):
            v = self.ev(s.value, env, ctx) if s.value is not None else ("const", None)
            if self._inline_stack:
                self._inline_stack[-1]["returns"].append((v, ctx))         # a return of an inlined helper is a value of the call, not of this function
            else:
                self.emit("return", s, ctx, value=v, value_node=s.value)
        elif isinstance(s, ast.If):
            t, pos = polarity(self.ev(s.test, env, ctx))
            self._last_test[id(s)] = (t, pos)
            self.emit("test", s, ctx, test=t, positive=pos)
            e1 = dict(env)
            e2 = dict(env)
            self._block(s.body, e1, ctx + (("if", t, pos, s),))
            self._block(s.orelse, e2, ctx + (("if", t, not pos, s),))
            t1 = _terminates(s.body)
            t2 = _terminates(s.orelse)
            if t1 and not t2:
                env.clear(); env.update(e2)
            elif t2 and not t1:
                env.clear(); env.update(e1)
            else:
                for k in set(e1) | set(e2):
                    a, b = e1.get(k), e2.get(k)
                    if a == b and a is not None:
                        env[k] = a
                    else:
                        a, b = (a if a is not None else ("unknown", k)), (b if b is not None else ("unknown", k))
                        # a name bound in the two branches of an if-statement is the conditional expression of the two values
                        env[k] = ("ifexp", t, a, b) if pos else ("ifexp", t, b, a)
        elif isinstance(s, (ast.For, ast.AsyncFor)):
            it = self.ev(s.iter, env, ctx)
            gview = self._generator_view(it, ctx)
            if gview is not None:
                it = gview["iter"]
            uid = self.uid()
            before = dict(env)
            mod = self._assigned_in(s.body)
            for name in mod:
                if name in env:
                    env[name] = ("loopmod", name, uid)
            elem = ("elem", it, uid)
            # `for x, y in zip(X, [g(x) for x in X])` is the loop `for x in X` with y = g(x) (lists paired with the sequence they were computed from)
            zv = zip_view(fuse_deep(it), uid) if it[0] == "call" and it[1] == ("global", "zip") else None
            if zv is not None and isinstance(s.target, (ast.Tuple, ast.List)) and len(s.target.elts) == len(zv[2]) \
                    and not any(isinstance(x, ast.Starred) for x in s.target.elts):
                it, elem, comps = zv
            else:
                zv = enumerate_view(it, uid, s.target) or positional_zip_view(it, uid, s.target)
                if zv is not None:
                    it, elem, comps = zv
            frame = ("for", uid, elem, it, s)
            self.emit("loop", s, ctx, uid=uid, iter=it, iter_node=s.iter, frame=frame)
            self._stmt = s
            if gview is not None:
                # the loop runs over what the generator function iterates; each round binds the caller's target to the value it yields
                self._bind(s.target, gview["round"](elem, ctx + (frame,)), env, ctx + (frame,), s)
            elif zv is not None:
                for tgt, comp_t in zip(s.target.elts, comps):
                    self._bind(tgt, comp_t, env, ctx + (frame,), s)
            else:
                self._bind(s.target, elem, env, ctx + (frame,), s)
            self._block(s.body, env, ctx + (frame,))
            self.emit("loop_end", s, ctx, uid=uid)
            self._block(s.orelse, env, ctx)
            for name in mod:
                after = env.get(name)
                prev = before.get(name)
                if prev is not None and after is not None and after != prev:
                    env[name] = ("phi", ("loopexit", uid), after, prev)
        elif isinstance(s, ast.While):
            uid = self.uid()
            before = dict(env)
            mod = self._assigned_in(s.body)
            for name in mod:
                if name in env:
                    env[name] = ("loopmod", name, uid)
            t = polarity_free(self.ev(s.test, env, ctx))        # a loop test is read for its truth value
            frame = ("while", uid, t, s)
            self.emit("test", s, ctx, test=t)
            self.emit("loop", s, ctx, uid=uid, iter=None, iter_node=None, frame=frame)
            self._block(s.body, env, ctx + (frame,))
            self.emit("loop_end", s, ctx, uid=uid)
            self._block(s.orelse, env, ctx)
            for name in mod:
                after = env.get(name)
                prev = before.get(name)
                if prev is not None and after is not None and after != prev:
                    env[name] = ("phi", ("loopexit", uid), after, prev)
        elif isinstance(s, (ast.With, ast.AsyncWith)):
            uid = self.uid()
            items = []
            for it in s.items:
                c = self.ev(it.context_expr, env, ctx)
                items.append(c)
                if it.optional_vars is not None:
                    self._stmt = s
                    self._bind(it.optional_vars, ("with", c), env, ctx, s)
            frame = ("with", uid, tuple(items), s)
            self.emit("with_enter", s, ctx, uid=uid, items=tuple(items))
            self._block(s.body, env, ctx + (frame,))
            self._stmt = s
            self.emit("with_exit", s, ctx, uid=uid, items=tuple(items))
        elif isinstance(s, ast.Try):
            uid = self.uid()
            self._block(s.body, env, ctx + (("try", uid, "body", s),))
            base = dict(env)
            for h in s.handlers:
                eh = dict(base)
                if h.name:
                    eh[h.name] = ("unknown", h.name)
                self._block(h.body, eh, ctx + (("try", uid, "except", s),))
                if not _terminates(h.body):
                    for k, v in eh.items():
                        if env.get(k) != v:
                            env[k] = ("phi", ("except", uid), v, env.get(k, ("unknown", k)))
            self._block(s.orelse, env, ctx + (("try", uid, "else", s),))
            self._block(s.finalbody, env, ctx + (("try", uid, "finally", s),))
        elif isinstance(s, ast.Assert):
            t = self.ev(s.test, env, ctx + (("assert", s),))
            self.emit("assert", s, ctx, test=t)
        elif isinstance(s, ast.Raise):
            v = self.ev(s.exc, env, ctx) if s.exc is not None else None
            self.emit("raise", s, ctx, value=v)
        elif isinstance(s, (ast.Break, ast.Continue, ast.Pass)):
            self.emit(type(s).__name__.lower(), s, ctx)
        elif isinstance(s, ast.Global):
            for n in s.names:
                self.locals.discard(n)
            self.emit("global", s, ctx, names=list(s.names))
        elif isinstance(s, (ast.Import, ast.ImportFrom)):
            for al in s.names:
                nm = (al.asname or al.name).split(".")[0]
                base = al.name if isinstance(s, ast.Import) else f"{s.module}.{al.name}"
                env[nm] = ("global", base)
        elif isinstance(s, (ast.FunctionDef, ast.ClassDef)):
            env[s.name] = self._local_function(s, env, ctx) if isinstance(s, ast.FunctionDef) else ("localdef", s.name)
        elif isinstance(s, ast.Delete):
            for t in s.targets:
                self.emit("delete", s, ctx, target=self.ev(t, env, ctx) if not isinstance(t, ast.Name) else ("name", t.id),
                          target_node=t)
        else:
            self.emit("other", s, ctx)

    # ------------------------------------------------------------------ expressions
    def ev_slice(self, sl: ast.expr, env: dict[str, Term], ctx: tuple) -> Term:
        if isinstance(sl, ast.Slice):
            parts = [self.ev(p, env, ctx) if p is not None else None for p in (sl.lower, sl.upper, sl.step)]
            return ("slice",) + tuple(None if p == ("const", None) else p for p in parts)
        if isinstance(sl, ast.Tuple):
            return ("tuple", tuple(self.ev_slice(e, env, ctx) for e in sl.elts))
        return self.ev(sl, env, ctx)

    def ev(self, e: ast.expr | None, env: dict[str, Term], ctx: tuple) -> Term:
        if e is None:
            return ("const", None)
        if isinstance(e, ast.Constant):
            return ("const", e.value)
        if isinstance(e, ast.Name):
            if e.id in env:
                return env[e.id]
            if e.id in self.locals:
                return ("unknown", e.id)
            q = self.prog.resolve(self.module, e)
            if q is not None:
                named, value = self.prog.named_constant(q)     # EPS = 1e-9 at module level, known to no rule: read through
                if named:
                    return self._named_value(value, ctx)
            return ("global", q or e.id)
        if isinstance(e, ast.Attribute):
            d = _dotted(e)
            if d is not None and d in env:
                return env[d]
            if d is not None:
                head = d.split(".")[0]
                if head not in env and head not in self.locals:
                    q = self.prog.resolve(self.module, e)
                    if q is not None:
                        named, value = self.prog.named_constant(q)
                        if named:
                            return self._named_value(value, ctx)
                        return self._global_chain(q)
            base = self.ev(e.value, env, ctx)
            # a field of a NamedTuple result is its position: structure.all_sorted is structure[1]
            fields = self._nt_fields.get(base)
            if fields is None and base[0] == "call" and base[1][0] == "global" and base[1][1].startswith(self.prog.PKG + "."):
                fields = self.prog.returned_namedtuple(base[1][1])
            if base == ("param", "self") and self._cls_stack and self._cls_stack[-1] is not None and any(
                    isinstance(n, ast.FunctionDef) and n.name == e.attr and n.decorator_list for n in self._cls_stack[-1][1].body):
                # a small private @property of the current class that no rule names is read through like a helper method
                inl = self._inline_call(("attr", base, e.attr), [], [], env, ctx, as_property=True)
                if inl is not None:
                    return inl
            if base == ("param", "self") and self._cls_stack and self._cls_stack[-1] is not None:
                cv = self._class_constant(e.attr)
                if cv is not None:
                    return cv if isinstance(cv, tuple) and cv and cv[0] in ("const", "slice") else self._named_value(cv, ctx)
            if fields is None and base[0] == "param" and not self._inline_stack:
                fields = self._param_record_fields(base[1])
            if fields is not None and e.attr not in fields and base != ("param", "self"):
                # a @property of a record class (NamedTuple / frozen dataclass): read through with self = the record
                rc = self._record_class(base)
                if rc is not None and any(isinstance(n, ast.FunctionDef) and n.name == e.attr and n.decorator_list for n in rc[1].body):
                    inl = self._inline_call(("attr", base, e.attr), [], [], env, ctx, as_property=True)
                    if inl is not None:
                        return inl
            if fields is not None and e.attr in fields:
                i = fields.index(e.attr)
                return base[1][i] if base[0] == "tuple" and len(base[1]) == len(fields) else ("index", base, ("const", i))
            if base[0] == "global" and not (base[1].startswith("incomplete_cooperative.") and self.prog.global_value(base[1]) is not None):
                # attribute of an imported module / class (also for function-local imports)
                return self._global_chain(base[1] + "." + e.attr)
            return ("attr", base, e.attr)
        if isinstance(e, ast.Call):
            f = self.ev(e.func, env, ctx)
            args = []
            for a in e.args:
                if isinstance(a, ast.Starred):
                    args.append(("star", self.ev(a.value, env, ctx)))
                else:
                    args.append(self.ev(a, env, ctx))
            kws = []
            for k in e.keywords:
                kws.append((k.arg, self.ev(k.value, env, ctx)))
            arg_nodes = list(e.args)
            kw_nodes = {k.arg: k.value for k in e.keywords}
            # canonical argument form: keywords that continue the positional prefix of a callee whose signature is certain are recorded
            # positionally, so that f(a, b) and f(x=a, y=b) are one term (evaluation order of the arguments is the source order)
            if kws and not any(isinstance(a, ast.Starred) for a in e.args) and all(k for k, _ in kws):
                sig = self.prog.call_signature(f)
                if sig is not None:
                    kd = dict(kws)
                    i = len(args)
                    while i < len(sig) and sig[i] in kd:
                        args.append(kd.pop(sig[i]))
                        arg_nodes.append(kw_nodes.pop(sig[i]))
                        i += 1
                    kws = [(k, v) for k, v in kws if k in kd]
            t = ("call", f, tuple(args), tuple(kws))
            if f[0] == "ifexp":
                # (g if c else h)(x) is recorded as g(x) if c else h(x)
                t = ("ifexp", f[1], ("call", f[2], tuple(args), tuple(kws)), ("call", f[3], tuple(args), tuple(kws)))
            name = e.func.attr if isinstance(e.func, ast.Attribute) else (e.func.id if isinstance(e.func, ast.Name) else None)
            recv = f[1] if f[0] == "attr" else None
            self.emit("call", e, ctx, name=name, func=f, args=tuple(args), kwargs=dict(kws), term=t, recv=recv,
                      arg_nodes=arg_nodes, kw_nodes=kw_nodes)
            canon = self._canonical_iteration(f, args, kws)
            if canon is not None:
                return _splice_stars(_fuse(canon))
            # operator.attrgetter("id") / operator.itemgetter(1) are the lambdas `lambda x: x.id` / `lambda x: x[1]`
            if f in (("global", "operator.attrgetter"), ("global", "operator.itemgetter")) and len(args) == 1 and not kws and args[0][0] == "const":
                lp = ("lparam", "x", self.uid())
                if f[1].endswith("attrgetter") and isinstance(args[0][1], str) and args[0][1].isidentifier():
                    return ("lambda", (lp,), ("attr", lp, args[0][1]))
                if f[1].endswith("itemgetter"):
                    return ("lambda", (lp,), ("index", lp, args[0]))
            # a lambda (or a small local function) applied directly is its body
            if f[0] == "lambda" and not kws and len(f[1]) == len(args) and not any(a[0] == "star" for a in args):
                return _substitute(f[2], dict(zip(f[1], args)))
            # a NamedTuple constructor is the tuple of its fields (positional or by keyword)
            if f[0] == "global" and f[1].startswith(self.prog.PKG + ".") and not any(a[0] == "star" for a in args):
                ntf = self.prog.namedtuple_fields(f[1])
                if ntf is not None and all(k for k, _ in kws):
                    kd = dict(kws)
                    if len(args) + len(kd) == len(ntf) and all(n in kd for n in ntf[len(args):]):
                        tup = ("tuple", tuple(args) + tuple(kd[n] for n in ntf[len(args):]))
                        self._nt_fields[tup] = ntf
                        if not hasattr(self, "_nt_class"):
                            self._nt_class = {}
                        self._nt_class[tup] = self.prog.chase(f[1])
                        return tup
            # float(<int literal>) / int(<int literal>) are the literal (codes spelled through an IntEnum member: float(_Relation.UNRELATED))
            if f in (("global", "float"), ("global", "int")) and len(args) == 1 and not kws and args[0][0] == "const" and type(args[0][1]) in (int, float) \
                    and (f[1] == "float" or type(args[0][1]) is int):
                return ("const", float(args[0][1]) if f[1] == "float" else args[0][1])
            # len(<IntEnum class of the package>) is the number of its members
            if f == ("global", "len") and len(args) == 1 and not kws and args[0][0] == "global" and args[0][1].startswith(self.prog.PKG + "."):
                members = self.prog.int_enum_members(self.prog.chase(args[0][1]))
                if members is not None:
                    return ("const", len(members))
            # C.__contains__(x) is `x in C`
            if f[0] == "attr" and f[2] == "__contains__" and len(args) == 1 and not kws and args[0][0] != "star":
                return ("cmp", "in", args[0], _membership_container(f[1]))
            # functools.reduce(lambda acc, x: F(acc, x), (e1, .., ek), init) over a display of at most 6 elements is F(..F(F(init, e1), e2).., ek)
            if f == ("global", "functools.reduce") and len(args) == 3 and not kws and args[0][0] == "lambda" and len(args[0][1]) == 2 \
                    and args[1][0] in ("tuple", "list") and 1 <= len(args[1][1]) <= 6 and not any(x[0] == "star" for x in args[1][1]):
                acc = args[2]
                for x in args[1][1]:
                    acc = _splice_stars(_substitute(args[0][2], {args[0][1][0]: acc, args[0][1][1]: x}))
                return acc
            # functools.reduce(operator.add, it, 0) is sum(it)
            zero = len(args) == 3 and (args[2] in (("const", 0), ("const", 0.0)) or (
                args[2][0] == "call" and len(args[2][2]) == 1 and args[2][2][0] in (("const", 0), ("const", 0.0)) and not args[2][3]
                and args[2][1][0] == "global" and args[2][1][1].rsplit(".", 1)[-1] in ("float", "float64", "Value")))
            if f == ("global", "functools.reduce") and len(args) == 3 and not kws and zero and (
                    args[0] == ("global", "operator.add") or (args[0][0] == "lambda" and len(args[0][1]) == 2 and args[0][2] in (
                        ("bin", "+", args[0][1][0], args[0][1][1]), ("bin", "+", args[0][1][1], args[0][1][0])))):
                return ("call", ("global", "sum"), (args[1],), ())
            # np.compress(mask, a) / np.extract(mask, a) are a[mask] for a Boolean mask over a 1-D array
            if f in (("global", "numpy.compress"), ("global", "numpy.extract")) and len(args) == 2 and not kws and is_mask(args[0]):
                return ("index", args[1], args[0])
            # dict(zip((k1, k2), (v1, v2))) with both sequences given as displays is the dict display {k1: v1, k2: v2}
            if f == ("global", "dict") and len(args) == 1 and not kws and args[0][0] == "call" and args[0][1] == ("global", "zip") and len(args[0][2]) == 2 \
                    and not args[0][3] and all(a[0] in ("tuple", "list") for a in args[0][2]) and len(args[0][2][0][1]) == len(args[0][2][1][1]):
                return ("dict", tuple(zip(args[0][2][0][1], args[0][2][1][1])))
            # range(0, n) and range(0, n, 1) are range(n)
            if f == ("global", "range") and not kws and len(args) in (2, 3) and args[0] == ("const", 0) and (len(args) == 2 or args[2] == ("const", 1)):
                return ("call", f, (args[1],), ())
            # the builtin slice(a, b, c) is recorded like the subscript form a:b:c
            if f == ("global", "slice") and 1 <= len(args) <= 3 and not kws and not any(a[0] == "star" for a in args):
                lo, hi, step = (None, args[0], None) if len(args) == 1 else (tuple(args) + (None,))[:3]
                return ("slice",) + tuple(None if p == ("const", None) else p for p in (lo, hi, step))
            # np.any(~a & ~b) over Boolean masks is `not np.all(a | b)`: the spelling with fewer negations is the one recorded
            red = None
            if f in (("global", "numpy.any"), ("global", "numpy.all"), ("global", "any"), ("global", "all")) and len(args) == 1 and not kws:
                red, m = f[1].rsplit(".", 1)[-1], args[0]
            elif f[0] == "attr" and f[2] in ("any", "all") and not args and not kws and f[1][0] != "global":
                red, m = f[2], f[1]
            if red is not None and is_mask(m):
                dual = mask_not(m)
                if _negations(dual) < _negations(m):
                    return ("un", "not", ("call", ("global", "numpy." + ("all" if red == "any" else "any")), (dual,), ()))
            # np.logical_or(a, b) / np.invert(m) / np.add(a, b) ... are recorded in operator form a | b / ~m / a + b
            if f[0] == "global" and f[1].startswith("numpy.") and f[1][6:] in NUMPY_ELEMENTWISE and not kws and not any(a[0] == "star" for a in args):
                shape, op = NUMPY_ELEMENTWISE[f[1][6:]]
                if shape == "bin" and len(args) == 2:
                    return ("bin", op, args[0], args[1])
                if shape == "un" and len(args) == 1:
                    if op == "~" and is_mask(args[0]) and args[0][0] in ("bin", "un"):
                        return mask_not(args[0])
                    return ("un", op, args[0])
            inl = self._inline_call(f, args, kws, env, ctx) if f[0] != "ifexp" else None
            if inl is not None:
                return inl
            if f[0] == "ifexp" and all(fb[0] in ("global", "attr") for fb in (f[2], f[3])):
                # a function chosen by a conditional and then applied: each alternative is read through like a direct call of that helper
                alts = [self._inline_call(fb, args, kws, env, ctx) for fb in (f[2], f[3])]
                if all(a is not None for a in alts):
                    return ("ifexp", f[1], alts[0], alts[1])
            # x.sum() / x.max(axis=1) / x.argmin() ... are recorded as the NumPy function form np.sum(x) / np.max(x, axis=1) / np.argmin(x)
            if f[0] == "attr" and f[2] in NUMPY_REDUCTIONS and f[1][0] != "global":
                return ("call", ("global", "numpy." + f[2]), (f[1],) + tuple(args), tuple(kws))
            return t
        if isinstance(e, ast.Subscript):
            base, idx = self.ev(e.value, env, ctx), self.ev_slice(e.slice, env, ctx)
            # (~m)[i] is ~(m[i]): an elementwise negation commutes with taking elements (the spelling with the selection inside is the one recorded)
            if isinstance(base, tuple) and len(base) == 3 and base[0] == "un" and base[1] == "~" and isinstance(idx, tuple) and idx and idx[0] not in ("slice", "tuple", "const"):
                return ("un", "~", ("index", base[2], idx))
            # a[np.nonzero(mask)] / a[np.flatnonzero(mask)] select what a[mask] selects (same elements, same order) when mask is a Boolean mask
            if isinstance(idx, tuple) and len(idx) == 4 and idx[0] == "call" and idx[1] in (("global", "numpy.nonzero"), ("global", "numpy.flatnonzero")) \
                    and len(idx[2]) == 1 and not idx[3] and is_mask(idx[2][0]):
                idx = idx[2][0]
            return ("index", base, idx)
        if isinstance(e, ast.BinOp):
            l, r = self.ev(e.left, env, ctx), self.ev(e.right, env, ctx)
            if isinstance(e.op, ast.LShift) and l == ("const", 1):
                return ("bin", "**", ("const", 2), r)          # canonical power of two: 1 << e is recorded as 2 ** e
            return ("bin", BINOPS.get(type(e.op), "?"), l, r)
        if isinstance(e, ast.UnaryOp):
            if isinstance(e.op, ast.Not):
                return negate(self.ev(e.operand, env, ctx))
            if isinstance(e.op, ast.Invert):
                o = self.ev(e.operand, env, ctx)
                return mask_not(o) if is_mask(o) and o[0] in ("bin", "un") else ("un", "~", o)
            return ("un", UNOPS.get(type(e.op), "?"), self.ev(e.operand, env, ctx))
        if isinstance(e, ast.BoolOp):
            vals = [self.ev(v, env, ctx) for v in e.values]
            # every operand but the last is only tested: `(False if c else x) or y` is `(not c and x) or y`
            vals = [polarity_free(v) if i < len(vals) - 1 and isinstance(v, tuple) and v[0] == "ifexp" else v for i, v in enumerate(vals)]
            op = "and" if isinstance(e.op, ast.And) else "or"
            return ("bool", op, _flat(op, tuple(vals)))
        if isinstance(e, ast.Compare):
            parts = []
            left = self.ev(e.left, env, ctx)
            for op, c in zip(e.ops, e.comparators):
                right = self.ev(c, env, ctx)
                o = CMPOPS.get(type(op), "?")
                if o in ("in", "not in"):
                    right = _membership_container(right)
                # canonical orientation: ``b > a`` is recorded as ``a < b`` (operands are still evaluated in source order)
                parts.append(("cmp", {">": "<", ">=": "<="}[o], right, left) if o in (">", ">=") else ("cmp", o, left, right))
                left = right
            return parts[0] if len(parts) == 1 else ("bool", "and", tuple(parts))
        if isinstance(e, ast.IfExp):
            t, pos = polarity(self.ev(e.test, env, ctx))
            a = self.ev(e.body, env, ctx + (("if", t, pos, e),))
            b = self.ev(e.orelse, env, ctx + (("if", t, not pos, e),))
            return ("ifexp", t, a, b) if pos else ("ifexp", t, b, a)
        if isinstance(e, ast.Lambda):
            uid = self.uid()
            e2 = dict(env)
            params = []
            a = e.args
            for x in a.posonlyargs + a.args + a.kwonlyargs:
                e2[x.arg] = ("lparam", x.arg, uid)
                params.append(x.arg)
            if a.vararg:
                e2[a.vararg.arg] = ("lparam", a.vararg.arg, uid)
                params.append("*" + a.vararg.arg)
            body = self.ev(e.body, e2, ctx + (("lambda", uid, e),))
            return ("lambda", tuple(("lparam", p.lstrip("*"), uid) for p in params), body)
        if isinstance(e, (ast.ListComp, ast.SetComp, ast.GeneratorExp, ast.DictComp)):
            kind = {ast.ListComp: "list", ast.SetComp: "set", ast.GeneratorExp: "gen", ast.DictComp: "dict"}[type(e)]
            e2 = dict(env)
            gens = []
            c2 = ctx
            for g in e.generators:
                it = self.ev(g.iter, e2, c2)
                uid = self.uid()
                elem = ("elem", it, uid)
                ev_ = enumerate_view(it, uid, g.target)
                if ev_ is not None:
                    it, elem, parts = ev_
                frame = ("comp", uid, elem, it, e)
                c2 = c2 + (frame,)
                saved = self._stmt
                if ev_ is not None:
                    for tgt, part in zip(g.target.elts, parts):
                        self._bind_comp(tgt, part, e2)
                else:
                    self._bind_comp(g.target, elem, e2)
                self._stmt = saved
                conds = tuple(self.ev(c, e2, c2) for c in g.ifs)
                gens.append((elem, it, conds))
                if conds:
                    c2 = c2 + (("if", ("bool", "and", conds) if len(conds) > 1 else conds[0], True, e),)
            if isinstance(e, ast.DictComp):
                elt = ("tuple", (self.ev(e.key, e2, c2), self.ev(e.value, e2, c2)))
            else:
                elt = self.ev(e.elt, e2, c2)
            return _splice_stars(_fuse(("comp", kind, elt, tuple(gens))))
        if isinstance(e, ast.Tuple):
            return ("tuple", tuple(self.ev(x, env, ctx) for x in e.elts))
        if isinstance(e, ast.List):
            if e.elts and all(isinstance(x, ast.Starred) for x in e.elts) and len(e.elts) >= 2:
                # [*a, *b] is the concatenation list(a) + list(b): recorded like `[.. for ..] + b`
                parts = []
                for x in e.elts:
                    t = self.ev(x.value, env, ctx)
                    if t[0] == "comp" and t[1] == "gen":
                        t = ("comp", "list") + tuple(t[2:])
                    parts.append(t)
                out = parts[0]
                for t in parts[1:]:
                    out = ("bin", "+", out, t)
                return out
            return ("list", tuple(self.ev(x, env, ctx) for x in e.elts))
        if isinstance(e, ast.Set):
            return ("set", tuple(self.ev(x, env, ctx) for x in e.elts))
        if isinstance(e, ast.Dict):
            return ("dict", tuple((self.ev(k, env, ctx) if k is not None else ("star2",), self.ev(v, env, ctx))
                                  for k, v in zip(e.keys, e.values)))
        if isinstance(e, ast.Starred):
            return ("star", self.ev(e.value, env, ctx))
        if isinstance(e, ast.JoinedStr):
            parts = []
            for v in e.values:
                if isinstance(v, ast.FormattedValue):
                    parts.append(self.ev(v.value, env, ctx + (("fstr",),)))
                elif isinstance(v, ast.Constant):
                    parts.append(("const", v.value))
            return ("fstr", tuple(parts))
        if isinstance(e, ast.NamedExpr):
            v = self.ev(e.value, env, ctx)
            env[e.target.id] = v
            return v
        if isinstance(e, (ast.Yield, ast.YieldFrom)):
            v = self.ev(e.value, env, ctx) if e.value is not None else ("const", None)
            self.emit("yield", e, ctx, value=v, value_node=e.value, is_from=isinstance(e, ast.YieldFrom))
            return ("unknown", "yield")
        if isinstance(e, ast.Await):
            return self.ev(e.value, env, ctx)
        return ("unknown", src(e))

    def _named_value(self, value, ctx: tuple) -> Term:
        """Value of a module-level named constant: a scalar, or (module, expr) for a closed constructor such as attrgetter("id")."""
        if isinstance(value, tuple) and len(value) == 2 and isinstance(value[1], ast.AST):
            mod, expr = value
            saved = (self.module, self.locals, self.events, self._seq)
            self.module, self.locals, self.events = mod, set(), []          # evaluated in its own module; events of the definition are not ours
            try:
                return self.ev(expr, {}, ctx)
            finally:
                self.module, self.locals, self.events, self._seq = saved
        return ("const", value)

    def _global_chain(self, q: str) -> Term:
        """``pkg.mod.VAR.attr`` -> attr(global pkg.mod.VAR, attr) when VAR is a module-level variable."""
        parts = q.split(".")
        for cut in range(1, len(parts)):
            mod = ".".join(parts[:cut])
            m = self.prog.modules.get(mod)
            if m is not None and parts[cut] in m.assigns and cut + 1 < len(parts):
                t: Term = ("global", ".".join(parts[:cut + 1]))
                for a in parts[cut + 1:]:
                    t = ("attr", t, a)
                return t
        return ("global", q)

    def _bind_comp(self, target: ast.expr, value: Term, env: dict[str, Term]) -> None:
        if isinstance(target, ast.Name):
            env[target.id] = value
        elif isinstance(target, (ast.Tuple, ast.List)):
            for i, t in enumerate(target.elts):
                self._bind_comp(t, ("index", value, ("const", i)), env)


def _dotted(e: ast.AST) -> str | None:
    if isinstance(e, ast.Name):
        return e.id
    if isinstance(e, ast.Attribute):
        b = _dotted(e.value)
        return None if b is None else f"{b}.{e.attr}"
    return None


def _terminates(body: list[ast.stmt]) -> bool:
    """The block always leaves the enclosing block (return / raise / continue / break at its end)."""
    if not body:
        return False
    last = body[-1]
    if isinstance(last, (ast.Return, ast.Raise, ast.Continue, ast.Break)):
        return True
    if isinstance(last, ast.If):
        return _terminates(last.body) and _terminates(last.orelse)
    return False


# --------------------------------------------------------------------------------------
# term utilities
# --------------------------------------------------------------------------------------

def subterms(t) -> Iterator[Term]:
    """All sub-terms, pre-order."""
    if not isinstance(t, tuple):
        return
    if t and isinstance(t[0], str):
        yield t
    for x in t:
        if isinstance(x, tuple):
            yield from subterms(x)
        elif isinstance(x, dict):  # pragma: no cover
            for v in x.values():
                yield from subterms(v)


def contains(t: Term, pred) -> bool:
    return any(pred(s) for s in subterms(t))


def is_global(t: Term, *quals: str) -> bool:
    return isinstance(t, tuple) and len(t) == 2 and t[0] == "global" and (not quals or t[1] in quals)


def is_call_to(t: Term, *quals: str) -> bool:
    """``t`` is a call whose callee is one of the resolved global names."""
    return isinstance(t, tuple) and t and t[0] == "call" and is_global(t[1], *quals)


def is_method_call(t: Term, *names: str) -> bool:
    return isinstance(t, tuple) and t and t[0] == "call" and t[1][0] == "attr" and (not names or t[1][2] in names)


def method_recv(t: Term) -> Term:
    return t[1][1]


def strip_uids(t):
    """Replace loop / lambda uids by 0 so that terms of different functions can be compared."""
    if not isinstance(t, tuple):
        return t
    if t and t[0] == "elem":
        return ("elem", strip_uids(t[1]), 0)
    if t and t[0] in ("lparam", "loopmod") and len(t) == 3:
        return (t[0], t[1], 0)
    return tuple(strip_uids(x) for x in t)


def show(t, depth: int = 0) -> str:
    """Compact human-readable rendering of a term (for evidence and messages)."""
    if depth > 12:
        return "..."
    if t is None:
        return "None"
    if not isinstance(t, tuple) or not t:
        return repr(t)
    k = t[0]
    d = depth + 1
    if k == "const":
        return repr(t[1])
    if k == "global":
        q = t[1]
        return q.replace("incomplete_cooperative.", "")
    if k == "param":
        return t[1]
    if k == "lparam":
        return t[1]
    if k == "elem":
        return f"each({show(t[1], d)})"
    if k == "unknown":
        return f"?{t[1]}"
    if k == "call":
        a = [show(x, d) for x in t[2]] + [f"{kk}={show(v, d)}" for kk, v in t[3]]
        return f"{show(t[1], d)}({', '.join(a)})"
    if k == "attr":
        return f"{show(t[1], d)}.{t[2]}"
    if k == "index":
        return f"{show(t[1], d)}[{show(t[2], d)}]"
    if k == "slice":
        return ":".join("" if x is None else show(x, d) for x in t[1:])
    if k == "bin":
        return f"({show(t[2], d)} {t[1]} {show(t[3], d)})"
    if k == "un":
        return f"({t[1]} {show(t[2], d)})"
    if k == "cmp":
        return f"({show(t[2], d)} {t[1]} {show(t[3], d)})"
    if k == "bool":
        return "(" + f" {t[1]} ".join(show(x, d) for x in t[2]) + ")"
    if k == "ifexp":
        return f"({show(t[2], d)} if {show(t[1], d)} else {show(t[3], d)})"
    if k == "phi":
        return f"phi({show(t[1], d)} ? {show(t[2], d)} : {show(t[3], d)})"
    if k == "lambda":
        return f"(lambda {', '.join(p[1] for p in t[1])}: {show(t[2], d)})"
    if k == "comp":
        gens = " ".join(f"for _ in {show(g[1], d)}" + "".join(f" if {show(c, d)}" for c in g[2]) for g in t[3])
        return f"<{t[1]} {show(t[2], d)} {gens}>"
    if k in ("tuple", "list", "set"):
        o, c = {"tuple": "()", "list": "[]", "set": "{}"}[k]
        return o + ", ".join(show(x, d) for x in t[1]) + c
    if k == "dict":
        return "{" + ", ".join(f"{show(a, d)}: {show(b, d)}" for a, b in t[1]) + "}"
    if k == "fstr":
        return "f'" + "".join(str(x[1]) if x[0] == "const" else "{" + show(x, d) + "}" for x in t[1]) + "'"
    if k == "star":
        return "*" + show(t[1], d)
    if k == "loopmod":
        return f"{t[1]}@loop"
    if k == "with":
        return f"with({show(t[1], d)})"
    if not isinstance(k, str):
        return "(" + ", ".join(show(x, d) if isinstance(x, tuple) else repr(x) for x in t) + ")"
    return k + "(" + ", ".join(show(x, d) if isinstance(x, tuple) else repr(x) for x in t[1:]) + ")"
