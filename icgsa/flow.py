"""icgsa.flow -- path-sensitive propagation of a finite abstract state over a function body.

A syntax-directed CFG walk (if / for / while / try / with / return / raise / break / continue)
with set-of-states joins and a fixpoint for loops.  The client supplies

    transfer(state, node, kind) -> iterable of successor states

called, in evaluation order, for every *atomic point*:
  kind == 'call'      node is an ast.Call (arguments already visited)
  kind == 'stmt'      node is a simple statement, after its calls were visited
  kind == 'test'      node is the test expression of if/while, or the iterable of a for
  kind == 'with_exit' node is the ast.With whose body just completed normally
  kind == 'return'    node is the ast.Return (after its value's calls)
  kind == 'exit'      node is the FunctionDef: normal fall-off or after a return
  kind == 'raise'     node is the ast.Raise

States must be hashable.  ``run`` returns the set of states at normal function exit
(fall-off and returns).  Exceptional exits are not followed (properties are about normal paths),
except that handlers of a ``try`` start from every state seen inside its body.
"""
from __future__ import annotations

import ast
from typing import Callable, Hashable, Iterable

from .core import calls_in

State = Hashable
Transfer = Callable[[State, ast.AST, str], Iterable[State]]


class _Out:
    __slots__ = ("normal", "brk", "cont", "ret", "seen")

    def __init__(self) -> None:
        self.normal: set = set()
        self.brk: set = set()
        self.cont: set = set()
        self.ret: set = set()
        self.seen: set = set()


class Flow:
    def __init__(self, func: ast.FunctionDef, transfer: Transfer, max_iter: int = 50) -> None:
        self.func = func
        self.transfer = transfer
        self.max_iter = max_iter

    # ------------------------------------------------------------------
    def run(self, init: Iterable[State]) -> set:
        out = self._block(self.func.body, set(init))
        ends = out.normal | out.ret
        final: set = set()
        for s in ends:
            final.update(self.transfer(s, self.func, "exit"))
        return final

    def _apply(self, states: set, node: ast.AST, kind: str) -> set:
        res: set = set()
        for s in states:
            res.update(self.transfer(s, node, kind))
        return res

    def _expr(self, states: set, expr: ast.AST | None) -> set:
        if expr is None:
            return states
        for c in calls_in(expr):
            states = self._apply(states, c, "call")
        return states

    def _block(self, body: list[ast.stmt], states: set) -> _Out:
        out = _Out()
        cur = set(states)
        for s in body:
            if not cur:
                break
            o = self._stmt(s, cur)
            out.brk |= o.brk
            out.cont |= o.cont
            out.ret |= o.ret
            out.seen |= o.seen | cur
            cur = o.normal
        out.normal = cur
        out.seen |= cur
        return out

    def _stmt(self, s: ast.stmt, states: set) -> _Out:
        out = _Out()
        if isinstance(s, ast.If):
            st = self._apply(self._expr(states, s.test), s.test, "test")
            a = self._block(s.body, st)
            b = self._block(s.orelse, st)
            for o in (a, b):
                out.normal |= o.normal
                out.brk |= o.brk
                out.cont |= o.cont
                out.ret |= o.ret
                out.seen |= o.seen
            return out
        if isinstance(s, (ast.For, ast.AsyncFor, ast.While)):
            if isinstance(s, ast.While):
                head_expr = s.test
            else:
                head_expr = s.iter
            entry = self._apply(self._expr(states, head_expr), head_expr, "test")
            head = set(entry)
            exits: set = set()
            infinite = isinstance(s, ast.While) and isinstance(s.test, ast.Constant) and bool(s.test.value)
            for _ in range(self.max_iter):
                o = self._block(s.body, head)
                out.ret |= o.ret
                out.seen |= o.seen
                exits |= o.brk
                back = o.normal | o.cont
                if isinstance(s, ast.While):
                    back = self._apply(self._expr(back, s.test), s.test, "test")
                new = head | back
                if new == head:
                    break
                head = new
            normal_exit = set() if infinite else set(head)
            if s.orelse:
                o2 = self._block(s.orelse, normal_exit)
                out.normal |= o2.normal
                out.brk |= o2.brk
                out.cont |= o2.cont
                out.ret |= o2.ret
                out.seen |= o2.seen
            else:
                out.normal |= normal_exit
            out.normal |= exits
            return out
        if isinstance(s, (ast.With, ast.AsyncWith)):
            st = states
            for it in s.items:
                st = self._expr(st, it.context_expr)
            st = self._apply(st, s, "with_enter")
            o = self._block(s.body, st)
            out.brk |= self._apply(o.brk, s, "with_exit")
            out.cont |= self._apply(o.cont, s, "with_exit")
            out.ret |= self._apply(o.ret, s, "with_exit")
            out.seen |= o.seen
            out.normal = self._apply(o.normal, s, "with_exit")
            return out
        if isinstance(s, ast.Try):
            o = self._block(s.body, states)
            outs = [o]
            normal = set(o.normal)
            if s.orelse:
                oe = self._block(s.orelse, normal)
                outs.append(oe)
                normal = set(oe.normal)
            for h in s.handlers:
                oh = self._block(h.body, o.seen | states)
                outs.append(oh)
                normal |= oh.normal
            agg = _Out()
            for x in outs:
                agg.brk |= x.brk
                agg.cont |= x.cont
                agg.ret |= x.ret
                agg.seen |= x.seen
            if s.finalbody:
                def fin(sts: set) -> set:
                    return self._block(s.finalbody, sts).normal if sts else set()
                out.normal = fin(normal)
                out.brk = fin(agg.brk)
                out.cont = fin(agg.cont)
                out.ret = fin(agg.ret)
                out.seen = agg.seen
            else:
                out.normal = normal
                out.brk, out.cont, out.ret, out.seen = agg.brk, agg.cont, agg.ret, agg.seen
            return out
        if isinstance(s, ast.Return):
            st = self._expr(states, s.value)
            out.ret = self._apply(st, s, "return")
            return out
        if isinstance(s, ast.Raise):
            st = self._expr(states, s.exc)
            self._apply(st, s, "raise")
            return out
        if isinstance(s, ast.Break):
            out.brk = set(states)
            return out
        if isinstance(s, ast.Continue):
            out.cont = set(states)
            return out
        if isinstance(s, (ast.FunctionDef, ast.AsyncFunctionDef, ast.ClassDef)):
            out.normal = set(states)
            return out
        # simple statement
        st = self._expr(states, s)
        out.normal = self._apply(st, s, "stmt")
        return out
