"""C14: regret minimiser - R1 index-space typing, R2 save/load agreement, R3 plus-clipping, R4 fallback support, R5 ordering."""
from __future__ import annotations

import ast

from ..core import AnalysisError, AnchorMissing, FuncRef, Program
from ..report import Collector
from ..terms import Term, is_call_to, is_global, show, subterms
from .common import fterms, has_subterm, short

P = "incomplete_cooperative."
CLS = "regret.GameRegretMinimizer"
SELF = ("param", "self")
COAL, PID, MID, RANK, RM, NONE = "COAL", "PID", "MID", "RANK", "RM", "NONE"
SUBSPACE = {(RM, RANK), (RM, RM), (RANK, RANK), (PID, PID), (MID, MID), (COAL, COAL)}

# documented exceptions of the index-space rule (listed in the evidence as assumptions)
R1_EXCEPTIONS = {
    ("cumulative_regret", RANK): "public strategy accessor: precondition 'the node is internal' (rank < number_of_regret_minimizers)",
    ("cumulative_strategy", RANK): "public strategy accessor: precondition 'the node is internal'",
    ("cumulative_strategy_local", "PID-1"): "PID ∪ {-1} lookup; the -1 positions are multiplied away by the `> -0.5` mask",
}


def A(name: str) -> Term:
    return ("attr", SELF, name)


class Spaces:
    def __init__(self, prog: Program) -> None:
        self.prog = prog
        self.methods = prog.methods(CLS)
        if "__init__" not in self.methods:
            raise AnchorMissing("GameRegretMinimizer.__init__ not found")
        self.init = self.methods["__init__"]
        ift = fterms(prog, self.init)
        self.attr_defs: dict[str, Term] = {}
        for e in ift.of_kind("store"):
            if e.obj == SELF and e.attr is not None and e.attr not in self.attr_defs:
                self.attr_defs[e.attr] = e.value
        self.attr_alloc: dict[str, tuple] = {}
        for a, v in self.attr_defs.items():
            sp = self.alloc_spaces(v, ("param", "x"))
            if sp is not None:
                self.attr_alloc[a] = sp

    # ---- sizes -> spaces
    def size_space(self, t: Term) -> str | None:
        """Index space of range(t) / an array of length t."""
        nc = [A("number_of_coalitions"), self.attr_defs.get("number_of_coalitions")]
        npl = [A("number_of_players"), ("param", "number_of_players"), self.attr_defs.get("number_of_players")]
        if t in nc or t == ("param", "number_of_coalitions"):
            return PID
        if t == A("viable_metacoalitions") or t == self.attr_defs.get("viable_metacoalitions"):
            return RANK
        if is_call_to(t, "len") and t[2] and (t[2][0] == A("meta_rank_to_id") or t[2][0] == self.attr_defs.get("meta_rank_to_id")):
            return RANK
        if t[0] == "index" and t[1][0] == "attr" and t[1][2] == "shape" and t[1][1] in (A("meta_rank_to_id"), self.attr_defs.get("meta_rank_to_id")):
            return RANK
        if t == A("number_of_regret_minimizers") or t == self.attr_defs.get("number_of_regret_minimizers"):
            return RM
        if t[0] == "bin" and t[1] == "**" and t[2] == ("const", 2):
            if t[3] in npl:
                return COAL
            if t[3] in nc:
                return MID
        if t[0] == "bin" and t[1] == "<<" and t[2] == ("const", 1):
            if t[3] in npl:
                return COAL
            if t[3] in nc:
                return MID
        # largest id + 1
        if t[0] == "bin" and t[1] == "+" and t[3] == ("const", 1):
            m = t[2]
            while is_call_to(m, "int") and m[2]:
                m = m[2][0]
            rid = (A("meta_rank_to_id"), self.attr_defs.get("meta_rank_to_id"))
            if (is_call_to(m, "numpy.max", "max", "numpy.amax") and m[2] and m[2][0] in rid) or \
                    (m[0] == "call" and m[1][0] == "attr" and m[1][2] == "max" and m[1][1] in rid) or \
                    (m[0] == "index" and m[1] in rid and m[2] == ("un", "-", ("const", 1))):
                return MID
        if is_call_to(t, P + "regret.coalitions_up_to") and len(t[2]) == 2:
            lim = t[2][1]
            if lim[0] == "bin" and lim[1] == "-" and lim[3] == ("const", 1):
                return RM
            return RANK
        return None

    def alloc_spaces(self, v: Term, _unused) -> tuple | None:
        """Axis spaces of an allocation expression (np.zeros / ones / full / empty, possibly +- const)."""
        while v[0] == "bin" and v[1] in ("-", "+", "*") and v[3][0] == "const":
            v = v[2]
        if is_call_to(v, P + "regret.metacoalition_ids_by_coalition_size"):
            return (RANK,)
        if is_call_to(v, P + "regret.get_coalition_player_id_map"):
            return (COAL,)
        if is_call_to(v, "numpy.zeros", "numpy.ones", "numpy.empty", "numpy.full") and v[2]:
            shape = v[2][0]
            dims = shape[1] if shape[0] == "tuple" else (shape,)
            out = []
            for d in dims:
                out.append(self.size_space(d))
            return tuple(out)
        return None

    # ---- values -> spaces
    def value_space(self, t: Term, ft, depth: int = 0) -> str | None:
        """Index space a term's VALUE(S) live in."""
        if depth > 10 or not isinstance(t, tuple):
            return None
        if t == ("const", None):
            return NONE
        if t[0] == "const" and isinstance(t[1], int) and t[1] == 0:
            return RM   # the root node: rank 0 is internal whenever there is at least one minimiser
        if is_call_to(t, "int", "list", "tuple", "numpy.array", "numpy.asarray", "reversed", "sorted", "numpy.flip") and t[2]:
            return self.value_space(t[2][0], ft, depth + 1)            # same values, other order / container
        if is_call_to(t, "numpy.arange") and len(t[2]) == 1:
            return self.size_space(t[2][0])
        if is_call_to(t, "range"):
            if len(t[2]) == 1:
                return self.size_space(t[2][0])
            if len(t[2]) == 3 and t[2][0][0] == "bin" and t[2][0][1] == "-" and t[2][0][3] == ("const", 1):
                return self.size_space(t[2][0][2])      # range(n - 1, -1, -1)
            return None
        if t[0] == "elem":
            return self.value_space(t[1], ft, depth + 1)
        if t[0] == "comp":
            return self.value_space(t[2], ft, depth + 1)
        if t[0] == "index":
            base = t[1]
            if base == A("meta_rank_to_id"):
                return MID
            if base == A("meta_id_to_rank"):
                return RANK
            if base == A("coalitions_to_player_ids"):
                return "PID-1"
            return None
        if t[0] == "call" and t[1] == ("attr", SELF, "get_metacoalition_id"):
            return MID
        if is_call_to(t, P + "regret.metacoalition_ids_by_coalition_size"):
            return MID
        if t[0] == "attr" and t[2] == "id":
            inner = t[1]
            # (Coalition(MID) + pid).id
            if inner[0] == "bin" and inner[1] in ("+", "|"):
                l = self._coalition_of(inner[2], ft, depth)
                if l == MID:
                    return MID
            sp = self._coalition_of(inner, ft, depth)
            if sp is not None:
                return sp
            # x.id for x a coalition of the original game
            return COAL
        if t[0] == "attr" and t[2] == "players":
            c = self._coalition_of(t[1], ft, depth)
            if c == MID:
                return PID
            if c == COAL:
                return "PLAYER"
            return None
        if t[0] == "param":
            # regret_matching_strategy(past_actions: ... | int): an int is a metacoalition id
            return MID if t[1] in ("past_actions", "metacoalition") else None
        if t[0] in ("phi", "ifexp"):
            a, b = self.value_space(t[2], ft, depth + 1), self.value_space(t[3], ft, depth + 1)
            return a if a == b else None
        return None

    def _coalition_of(self, t: Term, ft, depth: int) -> str | None:
        """Space of the id a Coalition object term wraps."""
        if is_call_to(t, P + "coalitions.Coalition") and len(t[2]) == 1:
            return self.value_space(t[2][0], ft, depth + 1)
        if t[0] == "call" and t[1][0] == "attr" and t[1][2] == "inverted":
            return self._coalition_of(t[1][1], ft, depth)
        if t[0] == "bin" and t[1] in ("+", "|", "-", "&"):
            return self._coalition_of(t[2], ft, depth)
        return None


def _sub_ok(idx_space: str | None, axis_space: str | None) -> bool | None:
    if idx_space is None or axis_space is None:
        return None
    if idx_space == NONE:
        return True
    return (idx_space, axis_space) in SUBSPACE


def rule_r1_index_spaces(prog: Program, col: Collector) -> None:
    col.rule("R1", "index-space typing of regret.py: the space an array is allocated for contains the space of every index used on it", 12)
    sp = Spaces(prog)
    col.note("allocation spaces derived from __init__: " + ", ".join(f"{a}:{'x'.join(str(x) for x in s)}" for a, s in sorted(sp.attr_alloc.items())))
    for k, v in R1_EXCEPTIONS.items():
        col.assume(f"R1 exception {k[0]} indexed by {k[1]}: {v}")
    NEC = ("an array sized for one index space and indexed by another overflows (IndexError) or silently aliases entries: "
           "a RANK-sized id->rank table indexed by metacoalition ids fails for every limit below the number of coalitions - 1")
    # a tabled attribute is ONE array: every binding of it, in any method and on any branch, is an allocation for the same spaces
    for mname, mref in sp.methods.items():
        for e in fterms(prog, mref).of_kind("store"):
            if e.obj == SELF and e.attr in sp.attr_alloc and e.index is None and e.value != sp.attr_defs[e.attr]:
                other = sp.alloc_spaces(e.value, None)
                if mname != "__init__" and (is_call_to(e.value, "numpy.load", "numpy.maximum", "numpy.clip") or other is None and e.value[0] in ("bin", "attr", "index", "call")):
                    continue        # re-bindings after construction (load, clipping, arithmetic on the attribute itself) keep the shape
                if other is None:
                    col.undecidable(mref.where(e.node), mref.short,
                                    f"{e.attr} is also bound to {short(e.value, 60)}: not a NumPy allocation whose index space is understood "
                                    f"(the first binding is allocated for {'x'.join(map(str, sp.attr_alloc[e.attr]))})")
                else:
                    col.check(other == sp.attr_alloc[e.attr], mref.where(e.node), mref.short,
                              f"every binding of {e.attr} is allocated for {'x'.join(map(str, sp.attr_alloc[e.attr]))} (this one: {'x'.join(map(str, other))})",
                              construct=f"rebinding-space:{e.attr}", necessity=NEC)
    self_calls = {n.func.attr for r in sp.methods.values() for n in ast.walk(r.node)
                  if isinstance(n, ast.Call) and isinstance(n.func, ast.Attribute) and isinstance(n.func.value, ast.Name) and n.func.value.id == "self"}
    for name, ref in sp.methods.items():
        if name in self_calls and prog.inlinable(ref) and not ref.node.decorator_list:
            col.note(f"helper method {name} is read through at its call sites (no rule names it): not typed in isolation")
            continue
        ft = fterms(prog, ref)
        # local allocations
        local_alloc: dict[Term, tuple] = {}
        for e in ft.of_kind("assign"):
            s = sp.alloc_spaces(e.value, None)
            if s is not None and is_call_to(_strip_arith(e.value), "numpy.zeros", "numpy.ones", "numpy.empty", "numpy.full"):
                local_alloc[e.value] = s

        def axis_spaces(arr: Term):
            if arr[0] == "attr" and arr[1] == SELF and arr[2] in sp.attr_alloc:
                return sp.attr_alloc[arr[2]], arr[2]
            if name == "__init__" and arr in sp.attr_defs.values():
                for a, v in sp.attr_defs.items():
                    if v == arr and a in sp.attr_alloc:
                        return sp.attr_alloc[a], a
            if arr in local_alloc:
                return local_alloc[arr], "local " + short(arr, 30)
            return None, None

        uses = []
        for e in ft.events:
            if e.kind in ("store", "aug") and e.index is not None:
                uses.append((e, e.obj, e.index))
            for k, v in e.data.items():
                if k in ("target", "obj", "index") or not isinstance(v, tuple):
                    continue
                for s in subterms(v):
                    if s[0] == "index":
                        uses.append((e, s[1], s[2]))
        seen = set()
        for e, arr, idx in uses:
            ax, aname = axis_spaces(arr)
            if ax is None:
                continue
            key = (aname, idx)
            if key in seen:
                continue
            seen.add(key)
            parts = list(idx[1]) if idx[0] == "tuple" else [idx]
            for k, part in enumerate(parts):
                if k >= len(ax):
                    break
                if part[0] == "slice":
                    continue
                # boolean masks (comparisons) index by position, not by value
                if part[0] == "cmp" or (part[0] == "bin" and part[1] in ("&", "|")):
                    continue
                ispace = sp.value_space(part, ft)
                if ispace == "PID-1" and aname in ("cumulative_strategy",) or (ispace == "PID-1" and ax[k] == PID):
                    col.ok(ref.where(e.node), ref.short, f"{aname}[{short(part, 40)}]: PID ∪ {{-1}} lookup, masked afterwards (documented exception)")
                    continue
                okk = _sub_ok(ispace, ax[k])
                what = f"{aname} axis {k} allocated for {ax[k]}, indexed by {short(part, 50)} : {ispace}"
                if okk is None:
                    if ax[k] is None:
                        col.undecidable(ref.where(e.node), ref.short, f"allocation size of {aname} axis {k} not understood")
                    else:
                        col.undecidable(ref.where(e.node), ref.short, f"index space not understood: {what}")
                elif okk:
                    col.ok(ref.where(e.node), ref.short, what)
                elif (aname, ispace) in R1_EXCEPTIONS:
                    col.ok(ref.where(e.node), ref.short, what + " - documented exception: " + R1_EXCEPTIONS[(aname, ispace)])
                else:
                    col.violation(ref.where(e.node), ref.short, f"space-mismatch:{aname}:{ax[k]}<-{ispace}", what, NEC)


def _strip_arith(v: Term) -> Term:
    while v[0] == "bin" and v[1] in ("-", "+", "*") and v[3][0] == "const":
        v = v[2]
    return v


def rule_r1_coalition_args(prog: Program, col: Collector) -> None:
    """Coalition(x) in regret.py decodes a bitmask: x must live in an id space (MID / COAL), never in a rank / player-id space."""
    col.rule("R1b", "every Coalition(x) in regret.py wraps a bitmask id (MID/COAL), not a rank or a re-indexed coalition number", 3)
    sp = Spaces(prog)
    for name, ref in sp.methods.items():
        ft = fterms(prog, ref)
        seen = set()
        for ev in ft.events:
            for v in ev.data.values():
                if not isinstance(v, tuple):
                    continue
                for s in subterms(v):
                    if is_call_to(s, P + "coalitions.Coalition") and len(s[2]) == 1 and s not in seen:
                        seen.add(s)
                        space = sp.value_space(s[2][0], ft)
                        if space is None:
                            col.undecidable(ref.where(ev.node), ref.short, f"Coalition({short(s[2][0], 40)}): space of the argument not understood")
                        else:
                            col.check(space in (MID, COAL), ref.where(ev.node), ref.short, f"Coalition({short(s[2][0], 40)}) wraps a {space} value",
                                      construct=f"coalition-of:{space}", necessity="decoding a rank as if it were a bitmask yields the wrong set of used coalitions: "
                                      "the fallback strategy then zeroes the wrong entries (support on already revealed coalitions)")


def rule_r2_save_load(prog: Program, col: Collector) -> None:
    col.rule("R2", "save/load agreement: params.json keys, file names, constructor argument order, every mutable state attribute saved and restored", 8)
    mm = prog.methods(CLS)
    save, load, init = mm.get("save"), mm.get("load"), mm.get("__init__")
    if save is None or load is None or init is None:
        raise AnchorMissing("GameRegretMinimizer.save/load/__init__ not found")
    sft, lft = fterms(prog, save), fterms(prog, load)
    # mutable state: attributes assigned outside __init__/load
    state = set()
    for name, ref in mm.items():
        if name in ("__init__", "load"):
            continue
        for e in list(fterms(prog, ref).of_kind("store")) + list(fterms(prog, ref).of_kind("aug")):
            t = e.target
            while isinstance(t, tuple) and t[0] == "index":
                t = t[1]
            if isinstance(t, tuple) and t[0] == "attr" and t[1] == SELF:
                state.add(t[2])
    col.note(f"mutable state attributes (assigned outside __init__): {sorted(state)}")
    if not state:
        raise AnalysisError("no mutable state attribute found")
    # writer
    dumps = [e for e in sft.calls() if is_global(e.func, "json.dump") and e.args]
    if not dumps or dumps[0].args[0][0] != "dict":
        raise AnalysisError("save: json.dump of a dict display not found")
    written = {}
    for k, v in dumps[0].args[0][1]:
        if k[0] == "const":
            written[k[1]] = v
    pp = ("param", save.positional_params()[1])
    lp = ("param", load.positional_params()[1])

    def fname(t: Term, root: Term):
        if t[0] == "bin" and t[1] == "/" and t[2] == root and t[3][0] == "const":
            return t[3][1]
        return None
    saved_files = {}
    for e in sft.calls():
        if is_global(e.func, "numpy.save") and len(e.args) >= 2:
            saved_files[fname(e.args[0], pp)] = e.args[1]
        if e.name == "open" and e.func[0] == "attr":
            f = fname(e.func[1], pp)
            if f:
                saved_files[f] = "json"
    loaded_files = {}
    for e in lft.calls():
        if is_global(e.func, "numpy.load") and e.args:
            loaded_files[fname(e.args[0], lp)] = e.term
        if e.name in ("open", "read_text", "read_bytes") and e.func[0] == "attr":
            f = fname(e.func[1], lp)
            if f:
                loaded_files[f] = "json"
    # a checkpoint is READ: the loaded tables are private memory, not a writable window onto the files
    for e in lft.calls():
        if is_global(e.func, "numpy.load", "numpy.memmap", "numpy.lib.format.open_memmap"):
            mm = e.kwargs.get("mmap_mode") or e.kwargs.get("mode")
            bad = is_global(e.func, "numpy.memmap", "numpy.lib.format.open_memmap") or (mm is not None and mm != ("const", None) and mm not in (("const", "c"),))
            col.check(not bad, load.where(e.node), load.short, f"load() reads the saved tables into memory ({short(e.func, 30)} without a writable or shared memory map)",
                      construct="load-memory-mapped",
                      necessity="with mmap_mode='r+' the loaded arrays ARE the checkpoint files: iterating the loaded minimiser rewrites regret.npy / strategy.npy in place while "
                                "params.json keeps the old iteration counter - loading the same checkpoint again does not continue like the saved minimiser ('r' makes the first update raise)")
    # every artefact is (re)written by every save(): a checkpoint into a directory that already holds one must replace all of it
    for e in sft.calls():
        is_write = is_global(e.func, "numpy.save", "json.dump") or (e.name == "open" and e.func[0] == "attr" and fname(e.func[1], pp))
        if is_write:
            guards = [f for f in e.ctx if f[0] in ("if", "for", "while", "try")]
            col.check(not guards, save.where(e.node), save.short,
                      f"{short(e.func, 30)}(...) in save() runs on every call (not under {[short(g[1], 40) for g in guards if g[0] == 'if']})", construct="conditional-artefact",
                      necessity="params.json carries the iteration counter: a second checkpoint that keeps the old file pairs new arrays with an old counter, "
                                "so the loaded minimiser continues from the wrong iteration (wrong averaging weights under `plus`)")
    early = [e for e in sft.of_kind("return", "raise") if any(w.seq > e.seq for w in sft.calls() if is_global(w.func, "numpy.save", "json.dump"))]
    col.check(not early, save.where(early[0].node) if early else save.where(), save.short, "save() cannot leave before all artefacts are written", construct="early-exit-in-save",
              necessity="a partial checkpoint mixes two states")
    col.check(set(saved_files) == set(loaded_files) and None not in saved_files, save.where(), save.short,
              f"files written {sorted(map(str, saved_files))} == files read {sorted(map(str, loaded_files))}", construct="file-names",
              necessity="a saved-then-loaded minimiser must continue identically")
    # keys read
    params_t = [e.term for e in lft.calls() if is_global(e.func, "json.load", "json.loads")]
    read_keys = set()
    for e in lft.events:
        for v in e.data.values():
            if isinstance(v, tuple):
                for s in subterms(v):
                    if s[0] == "index" and s[1] in params_t and s[2][0] == "const":
                        read_keys.add(s[2][1])
    col.check(read_keys == set(written), load.where(), load.short, f"keys read {sorted(read_keys)} == keys written {sorted(written)}",
              construct="param-keys", necessity="a key dropped on either side loses part of the state or raises KeyError on load")
    for k, v in written.items():
        col.check(v == A(k), save.where(), save.short, f"params['{k}'] is written from self.{k}", construct=f"param-src:{k}",
                  necessity="a parameter saved from another attribute reconstructs a different minimiser")
    # constructor call order
    ctor = [e for e in lft.calls() if e.func == ("param", "cls") or is_global(e.func, P + "regret.GameRegretMinimizer")]
    ip = init.positional_params()[1:]
    if ctor:
        ce = ctor[0]
        okc = True
        for i, a in enumerate(ce.args):
            okc = okc and i < len(ip) and a[0] == "index" and a[2] == ("const", ip[i])
        for k, a in ce.kwargs.items():
            okc = okc and a[0] == "index" and a[2] == ("const", k)
        got = len(ce.args) + len(ce.kwargs)
        col.check(okc and got == len(ip), load.where(ce.node), load.short, f"cls(...) receives the saved parameters in __init__'s order {ip}", construct="ctor-order",
                  necessity="swapped constructor arguments rebuild a tree of another shape")
    else:
        col.undecidable(load.where(), load.short, "load does not construct cls(...)")
    # every mutable attribute restored from its own source
    restored = {e.attr: e.value for e in lft.of_kind("store") if e.attr is not None and e.obj[0] == "call"}
    for a in sorted(state):
        src_ok = False
        if a in written:
            src_ok = a in restored and restored[a][0] == "index" and restored[a][2] == ("const", a)
        else:
            files = [f for f, v in saved_files.items() if v == A(a)]
            src_ok = bool(files) and a in restored and restored[a] == loaded_files.get(files[0])
        col.check(src_ok, load.where(), load.short, f"state attribute {a} is saved and restored from its own record", construct=f"restore:{a}",
                  necessity="state that is not restored (or restored from another file) makes the loaded minimiser continue differently")


def rule_r345(prog: Program, col: Collector) -> None:
    mm = prog.methods(CLS)
    it = mm.get("regret_min_iteration")
    if it is None:
        raise AnchorMissing("regret_min_iteration not found")
    ft = fterms(prog, it)
    col.rule("R3", "under `plus`, clipping cumulative regret to its positive part follows the += update on every path", 1)
    CR = A("cumulative_regret")
    upd = [e for e in ft.of_kind("aug") if e.target == CR and e.op == "+"]
    clips = []
    for e in ft.of_kind("aug"):
        if e.target == CR and e.op == "*" and e.value[0] == "cmp" and e.value[1] in ("<", "<=") and e.value[2] == ("const", 0) \
                and isinstance(e.node, ast.AugAssign) and isinstance(e.node.value, ast.Compare) and len(e.node.value.ops) == 1 \
                and ast.unparse(e.node.target) == ast.unparse(e.node.value.left if isinstance(e.node.value.ops[0], (ast.Gt, ast.GtE))
                                                              else e.node.value.comparators[0]):
            clips.append(e)
    for e in ft.of_kind("store"):
        if e.attr == "cumulative_regret" and e.obj == SELF and (is_call_to(e.value, "numpy.maximum", "numpy.clip")):
            clips.append(e)
    for e in ft.calls():
        outn = e.data.get("kw_nodes", {}).get("out")
        if is_global(e.func, "numpy.maximum", "numpy.clip") and outn is not None and ast.unparse(outn) == "self.cumulative_regret":
            clips.append(e)
    okp = False
    for c in clips:
        gs = [f for f in c.ctx if f[0] == "if"]
        okp = okp or (len(gs) == 1 and gs[0][1] == A("plus") and gs[0][2] is True and upd and c.seq > upd[-1].seq
                      and not any(f[0] in ("for", "while") for f in c.ctx))
    col.check(bool(upd) and okp, it.where(clips[0].node if clips else None), it.short,
              "if self.plus: cumulative_regret is clipped at 0 after the cumulative update", construct="plus-clip",
              necessity="the 'plus' variant keeps cumulative regret non-negative; clipping before the update (or never) lets it go negative")
    # the terminal losses enter the tree exactly as given
    tl = ("param", it.positional_params()[1])
    EL = [e for e in ft.of_kind("store") if e.index is not None and e.value is not None and has_subterm(e.value, tl)]
    col.check(len(EL) == 1 and EL[0].value == tl, it.where(EL[0].node if EL else None), it.short,
              "the terminal losses are written into the bottom layer exactly as given (no rescaling / centring / clipping)", construct="terminal-losses-transformed",
              necessity="a transformation of the inputs changes the regrets (and 0/0 for an all-zero loss vector - a legal non-negative input - turns every strategy into NaN)")
    col.check(len(upd) == 1 and not [f for f in upd[0].ctx if f[0] in ("if",)], it.where(), it.short, "the cumulative update is unconditional",
              construct="regret-update", necessity="a conditional regret update skips iterations: the cumulative regret is then not the sum the orthogonality and no-regret statements speak about")
    # regret added = q - expected (orthogonal to the strategy played)
    if upd:
        v = upd[0].value
        okq = v[0] == "bin" and v[1] == "-"
        col.check(okq, it.where(upd[0].node), it.short, "regret added = q_values - expected value of the node", construct="regret-form",
                  necessity="the regret added at a node must be orthogonal to the strategy played there")
    inc = [e for e in ft.of_kind("aug") if e.target == A("iteration")]
    col.check(len(inc) == 1 and inc[0].op == "+" and inc[0].value == ("const", 1), it.where(), it.short, "iteration += 1 once per call",
              construct="iteration", necessity="regret-matching-plus weights strategies by the iteration number")

    col.rule("R4", "uniform fallback zeroes the coalitions already in the node before normalising, in both strategy functions; both return x / x.sum()", 4)
    for name in ("regret_matching_strategy", "get_average_strategy"):
        ref = mm.get(name)
        if ref is None:
            raise AnchorMissing(f"{name} not found")
        f2 = fterms(prog, ref)
        ones = [e for e in f2.of_kind("assign") if is_call_to(e.value, "numpy.ones") and e.value[2] == (A("number_of_coalitions"),)]
        zero = [e for e in f2.of_kind("store") if e.value == ("const", 0) and e.index is not None and is_call_to(e.obj, "numpy.ones")]
        okz = False
        for e in zero:
            idx = e.index
            while is_call_to(idx, "list", "tuple") and idx[2]:
                idx = idx[2][0]
            okz = okz or (idx[0] == "attr" and idx[2] == "players" and is_call_to(idx[1], P + "coalitions.Coalition"))
            same_branch = ones and [f[:3] for f in e.ctx] == [f[:3] for f in ones[0].ctx]
            okz = okz and bool(same_branch)
        col.check(bool(ones) and okz, ref.where(), ref.short, "fallback = ones(number_of_coalitions) with the node's own coalitions set to 0", construct=f"fallback:{name}",
                  necessity="strategies must be supported only on coalitions not yet revealed at that node")
        rets = list(f2.of_kind("return"))
        def _is_normalised(v) -> bool:
            if v[0] == "bin" and v[1] == "/" and v[3] == ("call", ("global", "numpy.sum"), (v[2],), ()):
                return True
            # the vector and its sum named separately under the same condition (`total = x.sum()` bound before and re-bound in the fallback branch):
            # every consistent alternative of the conditionals is x / x.sum()
            from .coalitions import _alternatives
            alts = _alternatives(v)
            return len(alts) > 1 and all(a[0] == "bin" and a[1] == "/" and a[3] == ("call", ("global", "numpy.sum"), (a[2],), ()) for _c, a in alts)
        okr = bool(rets) and all(_is_normalised(r.value) for r in rets)
        col.check(okr, ref.where(), ref.short, "returns x / x.sum() (a probability distribution)", construct=f"normalise:{name}",
                  necessity="every current and average strategy is a probability distribution")
        # what is divided by its sum is either the fallback or a vector tested, itself, for a zero sum
        for r in rets if okr else []:
            def unfold(t, guards=()):
                if t[0] in ("ifexp", "phi"):
                    return unfold(t[2], guards + ((t[1], True),)) + unfold(t[3], guards + ((t[1], False),))
                return [(guards, t)]

            def nonzero_guard(test, pol, v) -> bool:
                sv = ("call", ("global", "numpy.sum"), (v,), ())
                zero = test in (("cmp", "==", sv, ("const", 0)), ("cmp", "==", ("const", 0), sv),
                                ("call", ("global", "numpy.all"), (("cmp", "==", v, ("const", 0)),), ()))
                nonz = test in (("call", ("global", "numpy.any"), (("cmp", "!=", v, ("const", 0)),), ()), ("cmp", "<", ("const", 0), sv))
                return (zero and pol is False) or (nonz and pol is True)
            def core(t):
                """Strip re-indexing and masks that do not depend on the vector itself (`v[perm] * (perm > -0.5)`): they keep a non-negative vector's
                sum positive; `v * (v > 0)` (the positive part) is NOT stripped - its sum can vanish although v is non-zero."""
                while True:
                    if t[0] == "index" and t[2][0] != "const":
                        t = t[1]
                    elif t[0] == "bin" and t[1] == "*" and t[2][0] in ("index", "ifexp", "phi") and not has_subterm(t[3], core(t[2])):
                        t = t[2]
                    else:
                        return t
            for guards, v in unfold(core(r.value[2])):
                fallback = is_call_to(v, "numpy.ones")
                okg = fallback or any(nonzero_guard(t, pol, v) for t, pol in guards)
                col.check(okg, ref.where(r.node), ref.short,
                          f"the vector that is normalised ({short(v, 50)}) is the uniform fallback or is itself tested for a zero sum on this path",
                          construct=f"normalise-unguarded:{name}",
                          necessity="testing another vector (the raw regrets instead of their positive part, `any != 0` instead of `sum == 0`) lets a vector without "
                                    "positive entries through: 0/0 gives NaN strategies, which spread to every ancestor's regret and average strategy")

    col.rule("R5", "metacoalition ids are generated by combinations for sizes in ascending range(0..limit), limit clipped to the number of coalitions", 3)
    ref = prog.func("regret.metacoalition_ids_by_coalition_size")
    f3 = fterms(prog, ref)
    rp = ref.positional_params()
    rets = list(f3.of_kind("return"))
    if len(rets) != 1:
        raise AnalysisError("metacoalition_ids_by_coalition_size: expected a single return")
    rv = rets[0].value
    from .common import distinct
    combs = distinct(s for s in subterms(rv) if s[0] == "call" and s[1][0] == "global" and s[1][1].startswith("itertools.") and
                     s[1][1].rsplit(".", 1)[-1] in ("combinations", "permutations", "product", "combinations_with_replacement"))
    col.check(len(combs) == 1 and combs[0][1][1] == "itertools.combinations", ref.where(), ref.short, "coalition sets are enumerated by itertools.combinations",
              construct="meta-combinations", necessity="the ranking must be a bijection onto the sets of size <= limit")
    okrange = False
    for s in subterms(rv):
        if s[0] == "comp" and combs and has_subterm(s[2], combs[0]) and s[2] == combs[0]:
            el, itr, cd = s[3][0]
            if is_call_to(itr, "range") and not cd and combs[0][2][1] == el:
                args = itr[2]
                hi = args[0] if len(args) == 1 else (args[1] if len(args) == 2 and args[0] == ("const", 0) else None)
                npar = ("param", rp[0])
                nc_term = ("bin", "-", ("bin", "-", ("bin", "**", ("const", 2), npar), npar), ("const", 2))
                okrange = hi is not None and hi[0] == "bin" and hi[1] == "+" and hi[3] == ("const", 1) and is_call_to(hi[2], "min") \
                    and len(hi[2][2]) == 2 and set(hi[2][2]) == {nc_term, ("param", rp[1])}
    col.check(okrange, ref.where(), ref.short, "sizes ascend over range(min(2**n - n - 2, limit) + 1): the limit is clipped by the number of viable coalitions", construct="meta-range",
              necessity="ranks must be ordered by set size (top-down / bottom-up sweeps rely on it) and include the root (size 0)")
    okid = False
    for s in subterms(rv):
        if s[0] == "comp" and len(s[3]) == 1:
            okid = okid or s[2] == ("attr", ("call", ("global", P + "coalitions.Coalition.from_players"), (s[3][0][0],), ()), "id")
    col.check(okid, ref.where(), ref.short, "id of a coalition set = bitmask over its re-indexed coalitions (Coalition.from_players(set).id)", construct="meta-id",
              necessity="the ranking is a bijection only if the id of a coalition set is the bitmask of its re-indexed members")
    # number of regret minimisers = sets of size <= limit - 1
    init = mm["__init__"]
    ift = fterms(prog, init)
    st = [e for e in ift.of_kind("store") if e.attr == "number_of_regret_minimizers"]
    lim = ("param", init.positional_params()[2])
    nc_self = ("attr", SELF, "number_of_coalitions")
    ncs = [nc_self] + [e.value for e in ift.of_kind("store") if e.obj == SELF and e.attr == "number_of_coalitions"]
    depth = st[0].value[2][1] if st and is_call_to(st[0].value, P + "regret.coalitions_up_to") and len(st[0].value[2]) == 2 else None
    shape = depth is not None and depth[0] == "bin" and depth[1] == "-" and depth[3] == ("const", 1) and st[0].value[2][0] in ncs
    clipped = shape and is_call_to(depth[2], "min") and len(depth[2][2]) == 2 and lim in depth[2][2] and any(a in ncs for a in depth[2][2])
    raw = shape and depth[2] == lim
    if raw:
        col.violation(init.where(st[0].node), init.short, "rm-count-unclipped",
                      "internal nodes are counted with the unclipped limit: coalitions_up_to(number_of_coalitions, limit - 1), while the ranking clips the limit to the number of viable coalitions",
                      "for limit > 2**n - n - 2 the single terminal node (everything revealed) is given a regret minimiser; nothing is left to choose there, its strategy is 0/0 = NaN, "
                      "and the bottom-up sweep propagates the NaN into every node: no strategy is a probability distribution any more", rule="R5")
    else:
        col.check(bool(clipped), init.where(), init.short, "one regret minimiser per internal node: sets of size <= min(limit, number of viable coalitions) - 1", construct="rm-count",
                  necessity="the internal nodes are the coalition sets with something left to reveal", rule="R5")


def rule_r6_viability_filters(prog: Program, col: Collector) -> None:
    """Sibling agreement: every place that drops the always-known coalitions (empty, singletons, grand) by size uses the sizes {0, 1, n}."""
    col.rule("R6", "every size filter for non-viable coalitions in regret.py excludes exactly the sizes 0, 1 and number_of_players", 2)
    sites = []
    for ref in prog.all_functions():
        if not ref.module.name.endswith(".regret"):
            continue
        ft = fterms(prog, ref)
        seen = set()
        for ev in ft.events:
            for v in ev.data.values():
                if not isinstance(v, tuple):
                    continue
                for t in subterms(v):
                    if t[0] == "cmp" and t[1] in ("not in", "in") and is_call_to(t[2], "len") and t[3][0] in ("list", "tuple", "set") and t not in seen:
                        seen.add(t)
                        sites.append((ref, ev, t))
    if len(sites) < 2:
        raise AnalysisError(f"R6: expected the two size filters of regret.py (id map and node lookup), found {len(sites)}")

    def norm(x):
        if x[0] == "const":
            return x[1]
        if x in (("param", "number_of_players"), ("attr", SELF, "number_of_players")):
            return "n"
        return show(x)

    for ref, ev, t in sites:
        sizes = {norm(x) for x in t[3][1]}
        col.check(sizes == {0, 1, "n"}, ref.where(ev.node), ref.short,
                  f"non-viable sizes excluded: {sorted(map(str, sizes))} (must be 0, 1 and the number of players)", construct="viability-sizes",
                  necessity="nodes are described by lists of coalitions in which the always-known coalitions are ignored (the package's own test requires it for singletons): "
                            "a filter that misses the grand coalition maps it to player id -1, and the node lookup raises instead of returning a distribution")
