"""C06 (Shapley value: S1-S6) and C05 (exploitability: X1-X3)."""
from __future__ import annotations

import ast
from fractions import Fraction

from ..core import AnalysisError, AnchorMissing, FuncRef, Program
from ..report import Collector
from ..terms import Term, is_call_to, is_global, show, subterms
from .common import fterms, has_subterm, short

P = "incomplete_cooperative."
FACT = ("math.factorial", "scipy.special.factorial", "numpy.math.factorial")


def linear(t: Term, atoms: dict) -> dict | None:
    """Integer linear form of a term over the given atom terms: {atom_key: coef, 1: const}."""
    if t in atoms:
        return {atoms[t]: 1}
    if t[0] == "const" and isinstance(t[1], int) and not isinstance(t[1], bool):
        return {1: t[1]}
    if t[0] == "un" and t[1] == "-":
        a = linear(t[2], atoms)
        return None if a is None else {k: -v for k, v in a.items()}
    if t[0] == "bin" and t[1] in ("+", "-"):
        a, b = linear(t[2], atoms), linear(t[3], atoms)
        if a is None or b is None:
            return None
        out = dict(a)
        for k, v in b.items():
            out[k] = out.get(k, 0) + (v if t[1] == "+" else -v)
        return {k: v for k, v in out.items() if v != 0}
    if t[0] == "bin" and t[1] == "*":
        a, b = linear(t[2], atoms), linear(t[3], atoms)
        if a is None or b is None:
            return None
        if set(a) <= {1}:
            c = a.get(1, 0)
            return {k: c * v for k, v in b.items() if c * v != 0}
        if set(b) <= {1}:
            c = b.get(1, 0)
            return {k: c * v for k, v in a.items() if c * v != 0}
    return None


def factorial_arg(prog: Program, col: Collector, t: Term, where: str, fn: str):
    """The argument k when ``t`` is k!: math.factorial(k), or a table look-up with that fallback (`T[k] if k < len(T) else factorial(k)`)
    whose literal table is checked entry by entry against i! (folding of literals, nothing is run).  None otherwise."""
    import math
    if is_call_to(t, *FACT) and len(t[2]) == 1:
        return t[2][0]
    if t[0] in ("ifexp", "phi") and is_call_to(t[3], *FACT) and len(t[3][2]) == 1 and t[2][0] == "index" and t[2][2] == t[3][2][0] and t[2][1][0] in ("global", "tuple"):
        k, table = t[3][2][0], t[2][1]
        if t[1] not in (("cmp", "<", k, ("call", ("global", "len"), (table,), ())),):
            return None
        if table[0] == "tuple":
            # a module-level tuple of literals is read through as its value
            if not all(x[0] == "const" and type(x[1]) is int for x in table[1]):
                return None
            entries, tname = [x[1] for x in table[1]], "(literal tuple)"
        else:
            gv = prog.global_value(table[1])
            if gv is None or not isinstance(gv[1], (ast.Tuple, ast.List)) or not all(isinstance(x, ast.Constant) and type(x.value) is int for x in gv[1].elts):
                return None
            entries, tname = [x.value for x in gv[1].elts], table[1].rsplit('.', 1)[-1]
        wrong = [(i, x) for i, x in enumerate(entries) if x != math.factorial(i)]
        col.check(not wrong, where, fn, f"every entry i of the factorial table {tname} is i!"
                  + (f" (entry {wrong[0][0]} is {wrong[0][1]}, {wrong[0][0]}! = {math.factorial(wrong[0][0])})" if wrong else ""),
                  construct="factorial-table", necessity="a mistyped table entry changes every Shapley weight (and the divisor n!) for exactly the player counts that reach it", rule="S1")
        return k
    return None


def rule_c06_shapley(prog: Program, col: Collector) -> None:
    pid = col.property_id
    # ---- S1 weights
    col.rule("S1", "coefficient table: factorial(s) * factorial(n - s - 1) for s in range(n)", 3)
    cref = prog.func("shapley._get_contributions")
    cft = fterms(prog, cref)
    npar = ("param", cref.positional_params()[0])
    rets = list(cft.of_kind("return"))
    if len(rets) != 1:
        raise AnalysisError("_get_contributions: expected a single return")
    gens = [s for s in subterms(rets[0].value) if s[0] == "comp" and len(s[3]) == 1]
    if not gens:
        col.undecidable(cref.where(), cref.short, "coefficient table is not a comprehension over sizes (re-design outside the recognised family)")
        return
    g = gens[0]
    elem, it, conds = g[3][0]
    okr = is_call_to(it, "range") and not conds and (it[2] == (npar,) or it[2] == (("const", 0), npar))
    col.check(okr, cref.where(), cref.short, "sizes s range over range(n): n entries starting at 0", construct="coef-range",
              necessity="the coefficient for size s must sit at index s; n sizes 0..n-1 of the coalition without the player")
    body = g[2]
    fa = [factorial_arg(prog, col, body[i], cref.where(), cref.short) for i in (2, 3)] if body[0] == "bin" and body[1] == "*" else [None, None]
    if None in fa:
        col.undecidable(cref.where(), cref.short, f"coefficient is not a product of two factorials: {short(body, 80)}")
        return
    atoms = {npar: "n", elem: "s"}
    forms = [linear(fa[0], atoms), linear(fa[1], atoms)]
    want = [{"s": 1}, {"n": 1, "s": -1, 1: -1}]
    okf = None not in forms and (forms == want or forms == want[::-1])
    col.check(okf, cref.where(), cref.short, f"factorial arguments are {{s, n - s - 1}} (found {forms})", construct="coef-weights",
              necessity="s!(n-s-1)! is the number of orderings in which a fixed set of size s precedes the player; s+1 or n-s shifts every weight")
    cnt = rets[0].value[2][2] if is_call_to(rets[0].value, "numpy.fromiter") and len(rets[0].value[2]) > 2 else None
    if cnt is not None:
        col.check(cnt == npar, cref.where(), cref.short, "np.fromiter count equals n", construct="coef-count", necessity="np.fromiter with a count other than n raises or truncates the weight vector")
    else:
        col.ok(cref.where(), cref.short, "no explicit element count")

    # ---- the worker
    col.rule("S3", "coefficients are indexed by the sizes of the coalitions WITHOUT the player", 1)
    col.rule("S4", "the 'with' list is the 'without' list united elementwise with the player's singleton (same order)", 1)
    col.rule("S5", "summand = coef * (value_with - value_without); zip order agrees with the lambda parameters; result divided by n!", 2)
    col.rule("S6", "'without' = all coalitions not containing the player, unrestricted", 2)
    wref = prog.func("shapley._shapley_value_for_player")
    wft = fterms(prog, wref)
    wp = wref.positional_params()
    if len(wp) == 3:
        # the two weights travel as one record (coefficients, n!): a NamedTuple / frozen dataclass parameter read by field
        single, game = ("param", wp[0]), ("param", wp[1])
        coefs, nfac = ("index", ("param", wp[2]), ("const", 0)), ("index", ("param", wp[2]), ("const", 1))
    elif len(wp) >= 4:
        single, game, coefs, nfac = (("param", x) for x in wp[:4])
    else:
        raise AnalysisError("_shapley_value_for_player: parameters are not (singleton, game, coefficients, n!) or (singleton, game, weights record)")
    rets = list(wft.of_kind("return"))
    if not rets:
        raise AnalysisError("_shapley_value_for_player: no return")
    for r in rets[:-1]:
        col.check(False, wref.where(r.node), wref.short, f"the Shapley value is the one weighted sum (extra return of {short(r.value, 50)})", construct="shapley-extra-return",
                  necessity="a shortcut return changes the value for the inputs that take it; the definition holds for every game", rule="S5")
    # marginal contributions are SIGNED: no absolute value, peak-to-peak or clipping anywhere in the worker
    unsigned = [e for e in wft.calls() if is_global(e.func, "numpy.ptp", "numpy.abs", "numpy.absolute", "numpy.fabs", "abs", "math.fabs", "numpy.clip", "numpy.maximum")
                or (e.name in ("ptp", "clip") and e.recv is not None)]
    for e in unsigned:
        col.check(False, wref.where(e.node), wref.short, f"the marginal contribution v(S + i) - v(S) enters with its sign (found {short(e.func, 30)})",
                  construct="marginal-unsigned", necessity="np.ptp / abs give |v(S+i) - v(S)|: every negative marginal contribution (non-monotone bounds, cost games) enters with "
                  "the wrong sign; monotone non-negative games hide it", rule="S5")
    rv = rets[-1].value
    if not (rv[0] == "bin" and rv[1] == "/" and rv[3] == nfac):
        col.check(False, wref.where(), wref.short, "the weighted sum is divided by n! (the n_fac argument)", construct="divide-nfac",
                  necessity="the Shapley value is the AVERAGE over n! orderings", rule="S5")
        return
    col.ok(wref.where(), wref.short, "the weighted sum is divided by the n_fac argument", rule="S5")
    total = rv[2]
    if not (is_call_to(total, "sum", "numpy.sum", "math.fsum") and total[2]):
        col.undecidable(wref.where(), wref.short, f"not a sum over coalitions: {short(total, 80)}")
        return
    inner = total[2][0]
    lam = None
    zargs = None
    # terms must not be dropped from the sum: filter(...) / slicing of the zipped terms
    if is_call_to(inner, "itertools.starmap") and len(inner[2]) == 2 and (is_call_to(inner[2][1], "filter") or
                                                                         (inner[2][1][0] == "index" and inner[2][1][2][0] == "slice")):
        col.check(False, wref.where(), wref.short, "every coalition without the player contributes a term (the zipped terms are filtered / sliced)",
                  construct="summand-filter", necessity="dropping a term (e.g. those whose value with the player is 0) loses its -v(S) part: the sum is no longer the average marginal contribution",
                  rule="S6")
        src2 = inner[2][1]
        src2 = src2[2][1] if is_call_to(src2, "filter") and len(src2[2]) == 2 else src2[1]
        inner = ("call", inner[1], (inner[2][0], src2), inner[3])
    if inner[0] == "comp" and len(inner[3]) == 1 and inner[3][0][2] and is_call_to(inner[3][0][1], "zip"):
        col.check(False, wref.where(), wref.short, "every coalition without the player contributes a term (the comprehension filters the terms)",
                  construct="summand-filter", necessity="dropping a term loses its contribution", rule="S6")
    if is_call_to(inner, "itertools.starmap") and len(inner[2]) == 2 and inner[2][0][0] == "lambda" and is_call_to(inner[2][1], "zip"):
        lam, zargs = inner[2][0], inner[2][1][2]
        params = lam[1]
        body = lam[2]
    elif inner[0] == "comp" and len(inner[3]) == 1 and is_call_to(inner[3][0][1], "zip"):
        el = inner[3][0][0]
        zargs = inner[3][0][1][2]
        params = tuple(("index", el, ("const", i)) for i in range(len(zargs)))
        body = inner[2]
    else:
        col.undecidable(wref.where(), wref.short, f"summands are not starmap(lambda, zip(...)) / comprehension over zip: {short(inner, 80)}")
        return
    if len(zargs) != 3 or len(params) != 3:
        col.undecidable(wref.where(), wref.short, "zip does not pair (coefficient, value_with, value_without)")
        return
    # classify the zip arguments by provenance
    def vals_of(t: Term):
        if t[0] == "call" and t[1] == ("attr", game, "get_values") and len(t[2]) == 1:
            return t[2][0]
        return None

    def strip_fromiter(t: Term) -> Term:
        while (is_call_to(t, "numpy.fromiter") or is_call_to(t, "list", "tuple", "numpy.array")) and t[2]:
            t = t[2][0]
        return t
    all_c = ("call", ("global", P + "coalitions.all_coalitions"), (game,), ())
    without_src = ("call", ("global", P + "coalitions.exclude_coalition"), (single, all_c), ())
    roles = []
    wo_full = None
    for z in zargs:
        v = vals_of(z)
        if v is not None:
            core = strip_fromiter(v)
            if core == without_src:
                roles.append("wo")
                wo_full = v
            elif is_call_to(core, "map") and len(core[2]) == 2 and core[2][0][0] == "lambda":
                roles.append(("with", v, core))
            elif core[0] == "comp":
                roles.append(("with", v, core))
            else:
                roles.append(("?", v, core))
        elif z[0] == "index" and z[1] == coefs:
            roles.append(("coef", z[2]))
        else:
            roles.append(("?", z, z))
    col.check("wo" in roles, wref.where(), wref.short, "one value vector is game.get_values(exclude_coalition(singleton, all_coalitions(game)))",
              construct="without-domain", necessity="the sum ranges over ALL coalitions not containing the player", rule="S6")
    if "wo" not in roles:
        return
    i_wo = roles.index("wo")
    withs = [(i, r) for i, r in enumerate(roles) if isinstance(r, tuple) and r[0] == "with"]
    coefr = [(i, r) for i, r in enumerate(roles) if isinstance(r, tuple) and r[0] == "coef"]
    if len(withs) != 1 or len(coefr) != 1:
        col.undecidable(wref.where(), wref.short, f"cannot classify the zip arguments: {[r if isinstance(r, str) else r[0] for r in roles]}")
        return
    i_w, (_, wv, wcore) = withs[0]
    i_c, (_, cidx) = coefr[0]
    # S4: with = map(lambda c: c | singleton, without)
    oks4 = False
    if is_call_to(wcore, "map"):
        lam2, src = wcore[2]
        x = lam2[1][0]
        oks4 = len(lam2[1]) == 1 and lam2[2] in (("bin", "|", x, single), ("bin", "|", single, x)) and src == wo_full
    elif wcore[0] == "comp":
        el, it, cd = wcore[3][0]
        oks4 = not cd and it == wo_full and wcore[2] in (("bin", "|", el, single), ("bin", "|", single, el))
    col.check(oks4, wref.where(), wref.short, "with[i] = without[i] | singleton, traversing the same materialised 'without' list", construct="with-pairing",
              necessity="the zip must pair a coalition with itself plus the player; another partner gives a marginal contribution of the wrong coalition", rule="S4")
    # S3: coefficient index = sizes of WITHOUT
    sz = cidx
    while is_call_to(sz, "list", "tuple", "numpy.array", "numpy.fromiter") and sz[2]:
        sz = sz[2][0]
    oks3 = (is_call_to(sz, "map") and len(sz[2]) == 2 and is_global(sz[2][0], "len") and sz[2][1] == wo_full) or \
        (sz[0] == "comp" and sz[3][0][1] == wo_full and not sz[3][0][2] and sz[2] == ("call", ("global", "len"), (sz[3][0][0],), ()))
    col.check(oks3, wref.where(), wref.short, "coefficient index = len of each coalition WITHOUT the player, in the same order", construct="coef-index",
              necessity="indexing by the size of the coalition with the player uses the weight for size s+1", rule="S3")
    # S5: body = p_coef * (p_with - p_wo)
    pc, pw, po = params[i_c], params[i_w], params[i_wo]
    okb = body in (("bin", "*", pc, ("bin", "-", pw, po)), ("bin", "*", ("bin", "-", pw, po), pc))
    col.check(okb, wref.where(), wref.short, "summand = coefficient * (value_with - value_without) with zip positions matching the lambda parameters",
              construct="summand-direction", necessity="a swapped pair flips the sign of every marginal contribution", rule="S5")
    # materialisation: without list traversed three times -> must not be lazy
    mat = is_call_to(wo_full, "numpy.fromiter", "list", "tuple", "numpy.array")
    col.check(mat, wref.where(), wref.short, "the 'without' collection is materialised (it is traversed for values, partners and sizes)", construct="without-lazy",
              necessity="a single-use iterator would be exhausted after the first traversal", rule="S6")

    # ---- S2 entry points
    col.rule("S2", "both entry points pass factorial(n) and the same coefficient table to the shared worker", 2)
    e1 = prog.func("shapley.compute_shapley_value_for_player")
    e2 = prog.func("shapley.compute_shapley_value")
    for ref in (e1, e2):
        ft = fterms(prog, ref)
        gp = ("param", [p for p in ref.positional_params() if p == "game"][0]) if "game" in ref.positional_params() else ("param", ref.positional_params()[-1])
        nplayers = ("attr", gp, "number_of_players")
        calls = [e for e in ft.calls() if is_global(e.func, P + "shapley._shapley_value_for_player")]
        if len(calls) != 1:
            col.undecidable(ref.where(), ref.short, "does not call the shared worker exactly once")
            continue
        a = calls[0].args
        if len(a) == 3 and a[2][0] == "tuple" and len(a[2][1]) == 2:
            a = a[:2] + tuple(a[2][1])          # the weights record, field by field
        okc = len(a) == 4 and a[1] == gp and a[2] == ("call", ("global", P + "shapley._get_contributions"), (nplayers,), ()) \
            and factorial_arg(prog, col, a[3], ref.where(calls[0].node), ref.short) == nplayers
        col.check(okc, ref.where(calls[0].node), ref.short, "worker(singleton, game, _get_contributions(n), factorial(n)) with n = game.number_of_players",
                  construct="entry-args", necessity="the single-player and all-players entry points must return the same numbers")
        # singleton
        s = a[0] if a else ("unknown", "")
        if ref is e1:
            pl = ("param", ref.positional_params()[0])
            oks = s in (("call", ("global", P + "coalitions.Coalition.from_players"), (("list", (pl,)),), ()),
                        ("call", ("global", P + "coalitions.player_to_coalition"), (pl,), ()))
        else:
            rng = ("call", ("global", "range"), (nplayers,), ())
            ptc = ("global", P + "coalitions.player_to_coalition")
            # for singleton in map(player_to_coalition, range(n))  |  for p in range(n): singleton = player_to_coalition(p)
            oks = (s[0] == "elem" and s[1][0] == "comp" and len(s[1][3]) == 1 and s[1][3][0][1] == rng and not s[1][3][0][2]
                   and s[1][2] == ("call", ptc, (s[1][3][0][0],), ())) or \
                  (s[0] == "call" and s[1] == ptc and len(s[2]) == 1 and s[2][0][0] == "elem" and s[2][0][1] == rng)
        outs = [e.value for e in ft.of_kind("return") if e.value != ("const", None)] + [e.value for e in ft.of_kind("yield")]
        col.check(bool(outs) and all(o == calls[0].term for o in outs), ref.where(calls[0].node), ref.short,
                  "the entry point hands back the worker's result unchanged (no rounding / rescaling on one entry point only)", construct="entry-result",
                  necessity="the single-player and all-players entry points must return the same numbers; rounding also breaks linearity and efficiency for small-magnitude games")
        col.check(oks, ref.where(calls[0].node), ref.short, "the singleton is the requested player's (all players 0..n-1 in order for the all-players entry point)",
                  construct="entry-singleton", necessity="relabelling players must permute the values; player i's value must be at position i")
    # exclude_coalition
    xref = prog.func("coalitions.exclude_coalition")
    xft = fterms(prog, xref)
    xp = xref.positional_params()
    rv = list(xft.of_kind("return"))
    okx = False
    if len(rv) == 1 and rv[0].value[0] == "comp":
        c = rv[0].value
        el, it, cd = c[3][0]
        ex = ("param", xp[0])
        inter = [("bin", "&", el, ex), ("bin", "&", ex, el)]
        okx = c[2] == el and it == ("param", xp[1]) and len(cd) == 1 and (
            (cd[0][0] == "cmp" and cd[0][1] == "==" and cd[0][3] == ("const", 0) and cd[0][2][0] == "attr" and cd[0][2][2] == "id" and cd[0][2][1] in inter) or
            (cd[0][0] == "un" and cd[0][1] == "not" and cd[0][2][0] == "attr" and cd[0][2][2] == "id" and cd[0][2][1] in inter))
    col.check(okx, xref.where(), xref.short, "exclude_coalition keeps exactly the coalitions disjoint from `exclude`", construct="exclude",
              necessity="the Shapley sum ranges over the coalitions that do not contain the player", rule="S6")


def rule_c05_exploitability(prog: Program, col: Collector) -> None:
    col.rule("X1", "MaxGainGame: upper bound exactly for coalitions containing the player, lower bound otherwise; vector and scalar accessor agree", 4)
    mm = prog.methods("exploitability.MaxGainGame")
    for need in ("__init__", "get_values", "get_value"):
        if need not in mm:
            raise AnchorMissing(f"MaxGainGame.{need} not found")
    SELF = ("param", "self")
    init = mm["__init__"]
    ift = fterms(prog, init)
    ip = init.positional_params()
    st = {e.attr: e for e in ift.of_kind("store") if e.obj == SELF}
    okst = "_game" in st and st["_game"].value == ("param", ip[1]) and "player" in st and st["player"].value == ("param", ip[2])
    col.check(okst, init.where(), init.short, "the max-gain game remembers its game and its player", construct="mgg-init", necessity="every accessor of the max-gain game reads self._game and self.player: storing anything else evaluates another player's game")
    mask_t = st.get("_player_mask")
    okm = False
    if mask_t is not None:
        core = mask_t.value
        while is_call_to(core, "numpy.fromiter", "numpy.array", "list") and core[2]:
            core = core[2][0]
        if core[0] == "comp":
            el, it, cd = core[3][0]
            pl = ("param", ip[2])
            member = ("cmp", "in", pl, el)
            okm = not cd and is_call_to(it, P + "coalitions.all_coalitions") and (
                core[2] == ("ifexp", member, ("const", 1), ("const", 0)) or core[2] == member or core[2] == ("ifexp", member, ("const", True), ("const", False)))
    col.check(okm, init.where(), init.short, "mask[c] = (player in c) for c over all coalitions in id order", construct="mgg-mask",
              necessity="the mask decides for which coalitions the upper bound is used")
    gv = mm["get_values"]
    gft = fterms(prog, gv)
    G = ("attr", SELF, "_game")
    UB = ("call", ("attr", G, "get_upper_bounds"), (), ())
    LB = ("call", ("attr", G, "get_lower_bounds"), (), ())
    M = ("attr", SELF, "_player_mask")
    one_minus = ("bin", "-", ("const", 1), M)
    forms = []
    for a in (("bin", "*", UB, M), ("bin", "*", M, UB)):
        for b in (("bin", "*", LB, one_minus), ("bin", "*", one_minus, LB)):
            forms.append(("bin", "+", a, b))
            forms.append(("bin", "+", b, a))
    forms.append(("call", ("global", "numpy.where"), (M, UB, LB), ()))
    rets = list(gft.of_kind("return"))
    okv = False
    for r in rets:
        for s in subterms(r.value):
            if s in forms:
                okv = True
    swapped = False
    for r in rets:
        for s in subterms(r.value):
            if s == ("bin", "+", ("bin", "*", LB, M), ("bin", "*", UB, one_minus)) or s == ("call", ("global", "numpy.where"), (M, LB, UB), ()):
                swapped = True
    # generic decomposition: a sum of two products (column, mask | 1 - mask)
    prods = set()
    for r in rets:
        for t in subterms(r.value):
            if t[0] == "bin" and t[1] == "*":
                for x, y in ((t[2], t[3]), (t[3], t[2])):
                    if x in (UB, LB) and y in (M, one_minus):
                        prods.add(("UB" if x == UB else "LB", "mask" if y == M else "1-mask"))
    if not okv and len(prods) == 2 and prods != {("UB", "mask"), ("LB", "1-mask")}:
        swapped = True
    order_stat = False
    for r in rets:
        for t in subterms(r.value):
            is_red = (t[0] == "call" and t[1][0] == "attr" and t[1][2] in ("max", "min")) or is_call_to(t, "numpy.max", "numpy.min", "numpy.maximum", "numpy.minimum", "numpy.sort")
            if is_red and any(s2[0] == "call" and s2[1][0] == "attr" and s2[1][1] == G and s2[1][2] in ("get_intervals", "get_interval", "get_upper_bounds", "get_lower_bounds")
                              for s2 in subterms(t)):
                order_stat = True
    if order_stat and not okv:
        col.check(False, gv.where(), gv.short, "the accessor reads the UPPER and LOWER columns themselves (found max/min over the two bounds)", construct="mgg-order-statistic",
                  necessity="max(lower, upper) is the upper bound only when lower <= upper: for an inverted interval the accessor returns |gap| instead of the signed gap, "
                            "and the identity with the weighted gap fails")
        swapped = True
    if not okv and not swapped and not any(has_subterm(r.value, UB) for r in rets):
        col.undecidable(gv.where(), gv.short, "vector accessor not of the form UB*mask + LB*(1-mask) / np.where(mask, UB, LB)")
    else:
        col.check(okv, gv.where(), gv.short, "get_values = upper * mask + lower * (1 - mask)", construct="mgg-vector",
                  necessity="the player's best case takes the UPPER bound where the player is a member and the LOWER bound elsewhere; "
                            "a swap is invisible when all intervals are equal")
    # indexing by coalition ids when a subset is requested
    g1 = mm["get_value"]
    g1ft = fterms(prog, g1)
    cp = ("param", g1.positional_params()[1])
    want = ("ifexp", ("cmp", "in", ("attr", SELF, "player"), cp), ("call", ("attr", G, "get_upper_bound"), (cp,), ()),
            ("call", ("attr", G, "get_lower_bound"), (cp,), ()))
    want2 = ("ifexp", ("cmp", "not in", ("attr", SELF, "player"), cp), ("call", ("attr", G, "get_lower_bound"), (cp,), ()),
             ("call", ("attr", G, "get_upper_bound"), (cp,), ()))
    r1 = list(g1ft.of_kind("return"))
    col.check(bool(r1) and g1ft.result() in (want, want2), g1.where(), g1.short, "get_value = upper bound if player in coalition else lower bound",
              construct="mgg-scalar", necessity="the scalar accessor must agree with the vector accessor (sibling agreement)")

    col.rule("X2", "exploitability = sum over players p of Shapley_p(MaxGainGame(game, p)) - v(N)", 3)
    ref = prog.func("exploitability.compute_exploitability")
    ft = fterms(prog, ref)
    gp = ("param", ref.positional_params()[0])
    rets = list(ft.of_kind("return"))
    if not rets:
        raise AnalysisError("compute_exploitability: no return")
    for r in rets[:-1]:
        col.check(False, ref.where(r.node), ref.short, f"exploitability is the one formula for every game (extra return of {short(r.value, 40)})", construct="exploitability-shortcut",
                  necessity="a shortcut (e.g. 'return 0 when the bounds are close') reports 0 for games whose intervals are small but not degenerate: "
                            "exploitability is zero EXACTLY when every interval is degenerate")
    rv = rets[-1].value
    grand = ("call", ("attr", gp, "get_value"), (("call", ("global", P + "coalitions.grand_coalition"), (gp,), ()),), ())
    col.check(rv[0] == "bin" and rv[1] == "-" and rv[3] == grand, ref.where(), ref.short, "... minus game.get_value(grand_coalition(game))",
              construct="minus-grand", necessity="exploitability is the summed best-case gain RELATIVE to the grand coalition's value")
    tot = rv[2] if rv[0] == "bin" else ("unknown", "")
    oks = False
    okpair = False
    okplayers = False
    if is_call_to(tot, "sum") and tot[2]:
        seq = tot[2][0]
        games = None
        if is_call_to(seq, "map") and len(seq[2]) == 2 and seq[2][0][0] == "lambda":
            lam = seq[2][0]
            x = lam[1][0]
            okpair = lam[2] == ("call", ("global", P + "shapley.compute_shapley_value_for_player"), (("attr", x, "player"), x), ())
            games = seq[2][1]
            oks = True
        elif seq[0] == "comp":
            el = seq[3][0][0]
            games = seq[3][0][1]
            body = seq[2]
            okpair = body == ("call", ("global", P + "shapley.compute_shapley_value_for_player"), (("attr", el, "player"), el), ())
            if not okpair and is_call_to(body, P + "shapley.compute_shapley_value_for_player") and len(body[2]) == 2:
                # direct form: shapley(p, MaxGainGame(game, p)) for p in range(n)
                pterm, gterm = body[2]
                want_game = ("call", ("global", P + "exploitability.MaxGainGame"), (gp, el), ())
                okpair = gterm == want_game and pterm in (el, ("attr", want_game, "player"))       # g.player is the constructor argument (mgg-init)
                okplayers = is_call_to(games, "range") and games[2] == (("attr", gp, "number_of_players"),)
                games = None
            oks = True
        if games is not None and games[0] == "comp":
            el2, it2, cd2 = games[3][0]
            okplayers = games[2] == ("call", ("global", P + "exploitability.MaxGainGame"), (gp, el2), ()) and not cd2 and \
                is_call_to(it2, "range") and it2[2] == (("attr", gp, "number_of_players"),)
    col.check(oks and okpair, ref.where(), ref.short, "each term is compute_shapley_value_for_player(g.player, g): the player of the SAME max-gain game",
              construct="player-pairing", necessity="evaluating player i's Shapley value in player j's best-case game is not the best case of anybody")
    col.check(okplayers, ref.where(), ref.short, "one max-gain game per player in range(n)", construct="all-players",
              necessity="the sum runs over ALL players")
