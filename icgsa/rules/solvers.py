"""C13: built-in solvers (V1-V5, REG-S)."""
from __future__ import annotations

import ast

from ..core import AnalysisError, AnchorMissing, FuncRef, Program, registry, unwrap_partial
from ..flow import Flow
from ..report import Collector
from ..terms import Term, _substitute, fuse_deep, is_call_to, is_global, show, subterms
from .common import const_of, fterms, has_subterm, mask_positions, short

SELF = ("param", "self")
RNG_DRAWS = {"choice", "integers", "random", "shuffle", "permutation", "permuted", "uniform", "normal", "standard_normal", "bytes", "spawn",
             "randint", "randrange", "sample", "choices", "getrandbits", "exponential", "poisson", "beta", "binomial"}
ENV_MUTATORS = {"reset", "reveal_value", "unreveal_value", "set_value", "set_values", "set_known_values", "unset_value",
                "set_lower_bound", "set_upper_bound", "set_lower_bounds", "set_upper_bounds", "_init_values", "seed", "close"}


def solver_classes(prog: Program) -> list[tuple[str, object, ast.ClassDef, dict]]:
    out = []
    for e in registry(prog, "solvers.SOLVERS"):
        callee, args, kwargs, module, env = unwrap_partial(prog, e.module, e.value, e.env)
        q = prog.resolve(module, callee)
        try:
            m, c = prog.cls(q) if q else (None, None)
        except AnchorMissing:
            m, c = None, None
        if c is None:
            raise AnalysisError(f"SOLVERS[{e.key!r}] does not resolve to a class of the package")
        kv = {}
        for k, v in kwargs.items():
            try:
                kv[k] = ast.literal_eval(v)
            except Exception:
                kv[k] = None
        out.append((e.key, m, c, kv))
    return out


def _methods(m, c) -> dict[str, FuncRef]:
    return {n.name: FuncRef(m, n, c) for n in c.body if isinstance(n, ast.FunctionDef)}


def _gym_param(ref: FuncRef) -> Term | None:
    a = ref.node.args
    for x in a.posonlyargs + a.args:
        if x.arg in ("self", "cls"):
            continue
        ann = ast.unparse(x.annotation) if x.annotation is not None else ""
        if "Gym" in ann or x.arg in ("gym", "env"):
            return ("param", x.arg)
    return None


# --------------------------------------------------------------------------------------
# V1 pairing (flow) with summaries for self-helpers
# --------------------------------------------------------------------------------------

class Pairing:
    def __init__(self, prog: Program) -> None:
        self.prog = prog
        self.cache: dict = {}

    def run(self, ref: FuncRef, G: Term, members: dict[str, FuncRef], depth: int = 0):
        """Returns (problems, net) - problems: list of (node, text); net: pending step args at exit."""
        key = (ref.qual, G)
        if key in self.cache:
            return self.cache[key]
        self.cache[key] = ([], set())
        ft = fterms(self.prog, ref)
        by_node = {id(e.node): e for e in ft.calls()}
        problems: list = []

        def transfer(state, node, kind):
            if kind == "call":
                ev = by_node.get(id(node))
                if ev is None:
                    return [state]
                if ev.recv == G and ev.name == "step" and ev.args:
                    if state:
                        problems.append((node, "a second step() while an earlier step is not yet undone"))
                    return [state | {ev.args[0]}]
                if ev.recv == G and ev.name == "unstep" and ev.args:
                    if ev.args[0] in state:
                        return [state - {ev.args[0]}]
                    problems.append((node, f"unstep({short(ev.args[0], 40)}) does not match the pending step({', '.join(short(a, 40) for a in state) or 'none'})"))
                    return [state]
                if ev.recv == G and ev.name in ENV_MUTATORS:
                    problems.append((node, f"solver calls gym.{ev.name}()"))
                    return [state]
                if ev.recv == SELF and ev.name in members and depth < 3 and G in ev.args:
                    callee = members[ev.name]
                    cp = callee.positional_params()[1:]
                    idx = ev.args.index(G)
                    if idx < len(cp):
                        pr, net = self.run(callee, ("param", cp[idx]), members, depth + 1)
                        if net:
                            problems.append((node, f"self.{ev.name}() returns with a step not undone"))
                return [state]
            if kind == "exit":
                if state:
                    problems.append((ref.node, f"a path reaches the function exit with step({', '.join(short(a, 40) for a in state)}) not undone"))
                return [state]
            return [state]

        exits = Flow(ref.node, transfer).run({frozenset()})
        net = set()
        for s in exits:
            net |= set(s)
        # de-duplicate
        seen, uniq = set(), []
        for n, t in problems:
            k = (getattr(n, "lineno", 0), t)
            if k not in seen:
                seen.add(k)
                uniq.append((n, t))
        self.cache[key] = (uniq, net)
        return uniq, net


def rule_c13_pairing_readonly(prog: Program, col: Collector) -> None:
    col.rule("V1", "every gym.step(a) in a solver is undone by gym.unstep(a) with the same a on every path; no other env mutation", 1)
    col.rule("V2", "next_step / after_reset use only the read-only part of the Gym protocol (besides paired step/unstep) and store nothing into the env", 6)
    pairing = Pairing(prog)
    seen = set()
    nstep = 0
    for key, m, c, kv in solver_classes(prog):
        if c.name in seen:
            continue
        seen.add(c.name)
        members = _methods(m, c)
        for need in ("next_step", "after_reset"):
            if need not in members:
                col.violation(f"{m.rel()}:{c.lineno}", f"solvers.{c.name}", f"missing:{need}", f"solver class has no {need}()",
                              "evaluate() calls solver.next_step and solver.after_reset", rule="V2")
        for name, ref in members.items():
            if name == "__init__":
                continue
            G = _gym_param(ref)
            if G is None:
                continue
            ft = fterms(prog, ref)
            steps = [e for e in ft.calls("step") if e.recv == G]
            nstep += len(steps)
            problems, net = pairing.run(ref, G, members)
            if steps or problems:
                col.check(not problems, ref.where(problems[0][0] if problems else None), ref.short,
                          "step/unstep are paired on every path" + (f": {problems[0][1]}" if problems else ""), construct="unpaired-step",
                          necessity="a solver must leave the environment exactly as it found it: a step that is not undone reveals a coalition "
                                    "behind the evaluator's back (the recorded trajectory is no longer the real one)", rule="V1")
            # V2: read-only use
            bad = []
            for e in ft.calls():
                r = e.recv
                root = r
                while isinstance(root, tuple) and root[0] in ("attr", "index", "call"):
                    root = root[1] if root[0] != "call" else root[1]
                if r is not None and root == G and r != G and e.name in ENV_MUTATORS | {"compute_bounds"} and e.name != "compute_bounds":
                    bad.append((e, f"calls {short(r, 40)}.{e.name}()"))
                if r == G and e.name in ENV_MUTATORS:
                    bad.append((e, f"calls gym.{e.name}()"))
            for e in list(ft.of_kind("store")) + list(ft.of_kind("aug")):
                root = e.target
                while isinstance(root, tuple) and root[0] in ("attr", "index"):
                    root = root[1]
                if root == G:
                    bad.append((e, f"stores into {short(e.target, 50)}"))
            # drawing from a random stream that belongs to the env advances env state; the per-episode hook after_reset is the one
            # place where the protocol lets a solver consume from it (the action-returning call must leave the env as it found it)
            if name != "after_reset":
                for e in ft.calls():
                    r = e.recv
                    if r is None or e.name not in RNG_DRAWS:
                        continue
                    env_stream = any(x == ("attr", G, "np_random") or x == ("call", ("attr", G, "get_wrapper_attr"), (("const", "np_random"),), ()) for x in subterms(r))
                    if env_stream:
                        bad.append((e, f"draws from the environment's random stream ({short(r, 50)}.{e.name}())"))
            col.check(not bad, ref.where(bad[0][0].node if bad else None), ref.short,
                      f"{name} treats the env as read-only" + (f": {bad[0][1]}" if bad else ""), construct="env-mutation",
                      necessity="solvers must leave the environment exactly as they found it", rule="V2")
    if nstep == 0:
        raise AnalysisError("no gym.step() call found in any solver (greedy look-ahead anchor vanished)")


# --------------------------------------------------------------------------------------
# V3 validity of the returned action
# --------------------------------------------------------------------------------------

def _mask_call(t: Term, G: Term) -> bool:
    return t == ("call", ("attr", G, "action_masks"), (), ())


def _is_valid_list(t: Term, G: Term) -> bool:
    """[x for x in range(mask.shape[0]) if mask[x]]  |  np.flatnonzero(mask)  |  np.where(mask)[0]"""
    while is_call_to(t, "list", "tuple", "sorted") and len(t[2]) == 1 and not t[3]:
        t = t[2][0]
    if t[0] == "comp" and t[1] in ("list", "gen") and len(t[3]) == 1:
        elem, it, conds = t[3][0]
        if len(conds) != 1:
            return False
        c = conds[0]
        if t[2] != elem:       # ([i for i, ok in enumerate(mask) if ok] is recorded as [i for i in range(len(mask)) if mask[i]])
            return False
        okc = c == ("index", ("call", ("attr", G, "action_masks"), (), ()), elem)
        okr = is_call_to(it, "range") and len(it[2]) == 1 and (
            it[2][0] == ("index", ("attr", ("call", ("attr", G, "action_masks"), (), ()), "shape"), ("const", 0)) or
            it[2][0] == ("call", ("global", "len"), (("call", ("attr", G, "action_masks"), (), ()),), ()) or
            it[2][0] == ("call", ("global", "len"), (("attr", G, "explorable_coalitions"),), ()))
        return okc and okr
    if is_call_to(t, "numpy.flatnonzero") and len(t[2]) == 1 and _mask_call(t[2][0], G):
        return True
    if t[0] == "index" and t[2] == ("const", 0) and is_call_to(t[1], "numpy.where", "numpy.nonzero") and len(t[1][2]) == 1 \
            and _mask_call(t[1][2][0], G):
        return True
    return False


def _seq_of_valid(t: Term, G: Term, depth: int = 0) -> bool:
    if depth > 8:
        return False
    if _is_valid_list(t, G):
        return True
    if is_call_to(t, "list", "tuple", "sorted", "reversed", "iter") and t[2]:
        return _seq_of_valid(t[2][0], G, depth + 1)
    if is_call_to(t, "filter") and len(t[2]) == 2:
        return _seq_of_valid(t[2][1], G, depth + 1)
    if t[0] == "index" and t[2][0] == "slice":
        return _seq_of_valid(t[1], G, depth + 1)
    if t[0] == "comp" and t[1] in ("list", "gen", "set"):
        return _elem_of_valid(t[2], G, depth + 1)
    return False


def _elem_of_valid(t: Term, G: Term, depth: int = 0) -> bool:
    if depth > 8:
        return False
    if t[0] == "elem":
        return _seq_of_valid(t[1], G, depth + 1)
    if t[0] == "index":
        base, idx = t[1], t[2]
        if base[0] == "elem" and is_call_to(base[1], "zip") and idx[0] == "const" and isinstance(idx[1], int) and idx[1] < len(base[1][2]):
            return _seq_of_valid(base[1][2][idx[1]], G, depth + 1)
        # position i of a pair picked out of zip(A, B, ...) by max / min / next / choice is an element of the i-th list
        if base[0] == "call" and (is_global(base[1], "max", "min", "next") or (base[1][0] == "attr" and base[1][2] == "choice")) and base[2] \
                and is_call_to(base[2][0], "zip") and idx[0] == "const" and isinstance(idx[1], int) and 0 <= idx[1] < len(base[2][0][2]):
            return _seq_of_valid(base[2][0][2][idx[1]], G, depth + 1)
        if base[0] == "elem" and is_call_to(base[1], "enumerate") and idx == ("const", 1):
            return _seq_of_valid(base[1][2][0], G, depth + 1)
        if idx[0] != "slice":
            return _seq_of_valid(base, G, depth + 1)
        return False
    if t[0] == "call":
        f = t[1]
        if is_global(f, "next") and t[2]:
            return _seq_of_valid(t[2][0], G, depth + 1)
        if is_global(f, "max", "min") and len(t[2]) == 1:
            return _seq_of_valid(t[2][0], G, depth + 1)
        if is_global(f, "int") and len(t[2]) == 1:
            return _elem_of_valid(t[2][0], G, depth + 1)
        name = f[2] if f[0] == "attr" else (f[1].rsplit(".", 1)[-1] if f[0] == "global" else None)
        if name == "choice" and t[2]:
            return _seq_of_valid(t[2][0], G, depth + 1)
    if t[0] in ("phi", "ifexp"):
        return _elem_of_valid(t[2], G, depth + 1) and _elem_of_valid(t[3], G, depth + 1)
    return False


def rule_c13_validity(prog: Program, col: Collector) -> None:
    col.rule("V3", "the action returned by next_step is an element of the list filtered by gym.action_masks()", 3)
    seen = set()
    for key, m, c, kv in solver_classes(prog):
        if c.name in seen:
            continue
        seen.add(c.name)
        members = _methods(m, c)
        ref = members.get("next_step")
        if ref is None:
            continue
        G = _gym_param(ref)
        if G is None:
            raise AnalysisError(f"{ref.short}: gym parameter not found")
        ft = fterms(prog, ref)
        for r in ft.of_kind("return"):
            v = r.value
            ok = _elem_of_valid(v, G)
            if not ok and v[0] == "const":
                # constant fallback only on the branch where there is no valid action at all
                guarded = any(f[0] == "if" and f[2] is False and _seq_of_valid(f[1], G) for f in r.ctx)        # `if not valid:` = the valid list is falsy
                # ... or asked for forgiveness: `try: return choice(valid) except IndexError: return 0` - the handler runs only when the list was empty
                for f in r.ctx:
                    if f[0] == "try" and f[2] == "except" and isinstance(f[3], ast.Try) and len(f[3].handlers) == 1 and len(f[3].body) == 1 \
                            and isinstance(f[3].handlers[0].type, ast.Name) and f[3].handlers[0].type.id == "IndexError" and isinstance(f[3].body[0], ast.Return) \
                            and isinstance(f[3].body[0].value, ast.Call) and isinstance(f[3].body[0].value.func, ast.Attribute) and f[3].body[0].value.func.attr == "choice":
                        tried = [r2 for r2 in ft.of_kind("return") if r2.node is f[3].body[0]]
                        if tried and tried[0] is not r and _elem_of_valid(tried[0].value, G):
                            guarded = True
                if guarded:
                    col.ok(ref.where(r.node), ref.short, "constant fallback only when there is no valid action (vacuous)")
                    continue
            col.check(ok, ref.where(r.node), ref.short, f"returned action {short(v, 70)} is drawn from the mask-filtered list", construct="invalid-action",
                      necessity="every solver must return a currently valid action (an invalid one makes reveal_value assert or re-reveals a known coalition)")


# --------------------------------------------------------------------------------------
# V4 choice rules
# --------------------------------------------------------------------------------------

def rule_c13_choice(prog: Program, col: Collector) -> None:
    col.rule("V4", "greedy: extremum of the immediate reward is max unless `worst` (then min), first action in ascending order attaining it; largest: first valid action whose coalition has maximal size", 6)
    classes = {c.name: (m, c) for _, m, c, _ in solver_classes(prog)}
    entries = {k: (c.name, kv) for k, m, c, kv in solver_classes(prog)}
    # registry polarity
    for key, want in (("greedy", False), ("greedy_worst", True)):
        if key not in entries:
            raise AnchorMissing(f"SOLVERS has no {key!r}")
        cname, kv = entries[key]
        col.check(bool(kv.get("worst", False)) == want, "-", "solvers.SOLVERS", f"SOLVERS[{key!r}] binds worst={want}", construct=f"registry-worst:{key}",
                  necessity="'greedy' must maximise the immediate reward and 'greedy_worst' minimise it")
    # ---- greedy
    gname = entries["greedy"][0]
    m, c = classes[gname]
    members = _methods(m, c)
    ref = members["next_step"]
    G = _gym_param(ref)
    ft = fterms(prog, ref)
    rets = list(ft.of_kind("return"))
    if not rets:
        raise AnalysisError(f"{ref.short}: no return")
    main = [r for r in rets if is_call_to(r.value, "next")]
    for r in rets:
        if r in main[-1:]:
            continue
        col.check(False, ref.where(r.node), ref.short,
                  f"every action returned by the greedy solver is chosen by the extremum rule (extra return of {short(r.value, 50)})", construct="greedy-extra-return",
                  necessity="an early return of some other action (first finishing action, first valid action, ...) is not 'maximal immediate reward, ties to the lowest index'")
    if not main:
        col.undecidable(ref.where(), ref.short, "greedy choice not of the form next(act for act, val in zip(...) if val == extremum)")
        return
    # normal form: next(a for a in VALID if KEY(a) == EXT) -- `pair each action with its value, filter the pairs` is read as this
    # (terms.fuse_deep), so zip(valid, values) / a key computed inside the filter / an unrolled list are one shape
    v = fuse_deep(main[-1].value, stop=lambda x: _is_valid_list(x, G))
    if not (is_call_to(v, "next") and v[2] and v[2][0][0] == "comp" and len(v[2][0][3]) == 1):
        col.undecidable(ref.where(), ref.short, f"greedy choice not of the form next(act for act, val in zip(...) if val == extremum): {short(v, 80)}")
        return
    comp = v[2][0]
    elem, valid_t, conds = comp[3][0]
    if len(conds) == 1 and conds[0][0] == "call" and conds[0][1][0] == "global" and conds[0][1][1].rsplit(".", 1)[-1] in ("isclose", "allclose") \
            and len(conds[0][2]) >= 2:
        col.check(False, ref.where(), ref.short, "the candidate filter is exact equality with the extremum (found a tolerance comparison)", construct="greedy-tolerance-tie",
                  necessity="np.isclose has a relative tolerance of 1e-5: a lower-index action whose reward is strictly worse than the extremum can be returned")
        conds = (("cmp", "==", conds[0][2][0], conds[0][2][1]),)
    if not (len(conds) == 1 and conds[0][0] == "cmp" and conds[0][1] == "=="):
        col.undecidable(ref.where(), ref.short, "greedy candidates are not filtered by equality with the extremum")
        return
    col.check(comp[2] == elem and _is_valid_list(valid_t, G), ref.where(), ref.short,
              "candidates are the valid actions in ascending index order and the action (not the value) is returned", construct="greedy-order",
              necessity="ties go to the lowest index")
    cond = conds[0]
    key, ext = (cond[2], cond[3]) if has_subterm(cond[2], elem) else (cond[3], cond[2])
    if not has_subterm(key, elem) or has_subterm(ext, elem):
        col.undecidable(ref.where(), ref.short, "equality filter does not compare the candidate's value with a candidate-independent extremum")
        return
    # key: self._next_action_value(gym, act)
    helper = None
    okv = key[0] == "call" and key[1][0] == "attr" and key[1][1] == SELF and key[2] == (G, elem) and not key[3]
    if okv:
        helper = members.get(key[1][2])

    def keys_over_valid(t: Term) -> bool:
        """[KEY(a) for a in VALID]: the same key, over every valid action."""
        return t[0] == "comp" and len(t[3]) == 1 and t[3][0][1] == valid_t and not t[3][0][2] and _substitute(t[2], {t[3][0][0]: elem}) == key

    col.check(okv, ref.where(), ref.short, "action_values[i] is the look-ahead value of valid_actions[i] (same order)", construct="greedy-values",
              necessity="values must be paired with their own actions")
    # extremum polarity
    worst = ("attr", SELF, "worst")

    def extremum(t: Term):
        if t[0] == "call" and t[1] in (("global", "max"), ("global", "min"), ("global", "numpy.max"), ("global", "numpy.min")) and len(t[2]) == 1 and not t[3] \
                and keys_over_valid(t[2][0]):
            return t[1][1].rsplit(".", 1)[-1]
        return None
    okp = None
    if ext[0] in ("ifexp", "phi"):
        t, a, b = ext[1], ext[2], ext[3]
        neg = False
        while t[0] == "un" and t[1] == "not":
            t, neg = t[2], not neg
        if t == worst:
            when_worst, when_not = (b, a) if neg else (a, b)
            if extremum(when_worst) is not None and extremum(when_not) is not None:
                okp = extremum(when_not) == "max" and extremum(when_worst) == "min"
    if okp is None and extremum(ext) is not None:
        okp = False       # the extremum does not depend on `worst` at all: one of 'greedy' / 'greedy_worst' follows the wrong rule
    if okp is None:
        col.undecidable(ref.where(), ref.short, f"extremum not of the form max(..) if not self.worst else min(..): {short(ext, 80)}")
    else:
        col.check(okp, ref.where(), ref.short, "extremum is max(action_values) when worst is False and min(action_values) when worst is True",
                  construct="greedy-extremum", necessity="greedy = maximal immediate reward, worst-greedy = minimal (invisible on the symmetric test game where all rewards tie)")
    if helper is not None:
        hft = fterms(prog, helper)
        hG = _gym_param(helper)
        hp = helper.positional_params()
        steps = [e for e in hft.calls("step") if e.recv == hG]
        hr = list(hft.of_kind("return"))
        okh = len(steps) == 1 and len(hr) == 1 and hr[0].value == ("index", steps[0].term, ("const", 1)) and steps[0].args == (("param", hp[-1]),)
        col.check(okh, helper.where(), helper.short, "the look-ahead value is position 1 (the reward) of gym.step(action)", construct="greedy-reward-pos",
                  necessity="the greedy rule is about the immediate REWARD")
    iw = members.get("__init__")
    if iw is not None:
        ift = fterms(prog, iw)
        st = [e for e in ift.of_kind("store") if e.attr == "worst"]
        col.check(bool(st) and st[-1].value == ("param", "worst"), iw.where(), iw.short, "self.worst stores the constructor argument", construct="greedy-worst-store",
                  necessity="the worst flag selects min instead of max: if it is not stored the worst-greedy solver is the greedy solver")
    # ---- largest
    lname = entries.get("largest", (None, None))[0]
    if lname is None:
        raise AnchorMissing("SOLVERS has no 'largest'")
    m, c = classes[lname]
    members = _methods(m, c)
    ref = members["next_step"]
    G = _gym_param(ref)
    ft = fterms(prog, ref)
    rets = list(ft.of_kind("return"))
    v = fuse_deep(rets[0].value, stop=lambda x: _is_valid_list(x, G)) if len(rets) == 1 else ("unknown", "")
    def size_key(k, seq) -> bool:
        return k is not None and k[0] == "lambda" and len(k[1]) == 1 and \
            k[2] == ("call", ("global", "len"), (("index", ("attr", G, "explorable_coalitions"), k[1][0]),), ()) and _is_valid_list(seq, G)
    # max(zip(valid, [expl[a] for a in valid]), key=<size of the second component>)[0] is the same choice, on pairs
    if v[0] == "index" and v[2] == ("const", 0) and is_call_to(v[1], "max") and len(v[1][2]) == 1 and is_call_to(v[1][2][0], "zip") and len(v[1][2][0][2]) == 2 \
            and set(dict(v[1][3])) == {"key"}:
        valid_z, coals_z = v[1][2][0][2]
        k = ft.lambda_of(dict(v[1][3])["key"])
        pair_key = k[0] == "lambda" and len(k[1]) == 1 and k[2] == ("call", ("global", "len"), (("index", k[1][0], ("const", 1)),), ())
        coals_ok = coals_z[0] == "comp" and len(coals_z[3]) == 1 and coals_z[3][0][1] == valid_z and not coals_z[3][0][2] \
            and coals_z[2] == ("index", ("attr", G, "explorable_coalitions"), coals_z[3][0][0])
        if pair_key and coals_ok and _is_valid_list(valid_z, G):
            col.ok(ref.where(), ref.short, "largest = the action of the first (action, coalition) pair of maximal coalition size")
            col.ok(ref.where(), ref.short, "the size compared is the MAXIMAL size among the valid coalitions")
            return
    if is_call_to(v, "max") and len(v[2]) == 1 and size_key(dict(v[3]).get("key"), v[2][0]) and set(dict(v[3])) == {"key"}:
        # max(valid, key=size) returns the FIRST maximal element: the same choice
        col.ok(ref.where(), ref.short, "largest = max(valid_actions, key=coalition size): first valid action of maximal size")
        col.ok(ref.where(), ref.short, "the size compared is the MAXIMAL size among the valid coalitions")
        return
    if v[0] == "index" and v[2] in (("un", "-", ("const", 1)), ("const", -1)) and is_call_to(v[1], "sorted") and len(v[1][2]) == 1 \
            and size_key(dict(v[1][3]).get("key"), v[1][2][0]) and not dict(v[1][3]).get("reverse"):
        col.check(False, ref.where(), ref.short, "ties between coalitions of maximal size go to the LOWEST action index (found sorted(..., key=size)[-1]: the highest)",
                  construct="largest-tie-last", necessity="sorted is stable, so its last element is the maximal-size action with the highest index; the rule says lowest")
        return
    if not (is_call_to(v, "next") and v[2] and v[2][0][0] == "comp" and len(v[2][0][3]) == 1):
        col.undecidable(ref.where(), ref.short, f"largest choice not of the form next(act for act, coal in zip(...) if len(coal) == max): {short(v, 80)}")
        return
    # normal form (terms.fuse_deep): next(a for a in VALID if len(explorable_coalitions[a]) == max(len(explorable_coalitions[b]) for b in VALID))
    comp = v[2][0]
    elem, valid_t, conds = comp[3][0]
    size = ("call", ("global", "len"), (("index", ("attr", G, "explorable_coalitions"), elem),), ())
    okc = okm = False
    if len(conds) == 1 and conds[0][0] == "cmp" and conds[0][1] == "==":
        l, r = conds[0][2], conds[0][3]
        okc = size in (l, r)
        other = r if l == size else (l if r == size else None)
        if other is not None and is_call_to(other, "max", "numpy.max") and len(other[2]) == 1 and not other[3]:
            ks = other[2][0]
            okm = ks[0] == "comp" and len(ks[3]) == 1 and ks[3][0][1] == valid_t and not ks[3][0][2] and _substitute(ks[2], {ks[3][0][0]: elem}) == size
    col.check(okc and comp[2] == elem and _is_valid_list(valid_t, G), ref.where(), ref.short,
              "candidates pair each valid action (ascending) with explorable_coalitions[action]", construct="largest-pairs",
              necessity="sizes must be those of the coalitions the actions would reveal; ties to the lowest index")
    col.check(okm, ref.where(), ref.short, "the size compared is the MAXIMAL size among the valid coalitions", construct="largest-max",
              necessity="'largest' picks a largest unknown coalition (a min passes the suite: all sizes tie on the test game's first step only)")


# --------------------------------------------------------------------------------------
# V5 expected greedy
# --------------------------------------------------------------------------------------

def rule_c13_expected_greedy(prog: Program, col: Collector) -> None:
    col.rule("V5", "expected greedy: argmin of the mean over the sampled games; chosen coalition appended AND removed from the candidates before the next candidate list is built; curve row = len(sequence)", 5)
    ref = prog.func("run.greedy.get_greedy_rewards")
    ft = fterms(prog, ref)
    # E = np.array(list(get_stacked_exploitabilities_of_action_sequences(game, games, seqs, ...)))
    stacked = [e for e in ft.calls() if is_global(e.func, "incomplete_cooperative.gameplay.get_stacked_exploitabilities_of_action_sequences")]
    if len(stacked) != 1:
        raise AnalysisError(f"{ref.short}: call of get_stacked_exploitabilities_of_action_sequences not found")
    E = None
    for e in ft.of_kind("assign"):
        if has_subterm(e.value, stacked[0].term) and is_call_to(e.value, "numpy.array", "numpy.asarray", "numpy.vstack", "numpy.stack"):
            E = e.value
    if E is None:
        raise AnalysisError(f"{ref.short}: matrix of expected exploitabilities not found")
    mean1 = ("call", ("global", "numpy.mean"), (E,), (("axis", ("const", 1)),))
    mean1b = ("call", ("attr", E, "mean"), (), (("axis", ("const", 1)),))
    mean1c = ("call", ("attr", E, "mean"), (("const", 1),), ())
    mean1d = ("call", ("global", "numpy.mean"), (E, ("const", 1)), ())
    means = (mean1, mean1b, mean1c, mean1d)
    # local names are found through the code's own structure (robust to renaming):
    #   chosen = CANDS[IDX][-1];  seq.append(chosen);  CANDS is the third argument of the stacked-gaps call
    cands_name = idx_name = None
    an = stacked[0].arg_nodes[2] if len(stacked[0].arg_nodes) > 2 else None
    if isinstance(an, ast.Name):
        cands_name = an.id
    for e in ft.of_kind("assign"):
        vn = e.data.get("value_node")
        if isinstance(vn, ast.Subscript) and isinstance(vn.value, ast.Subscript) and isinstance(vn.value.value, ast.Name) \
                and vn.value.value.id == cands_name and isinstance(vn.value.slice, ast.Name):
            idx_name = vn.value.slice.id
    idx_assign = [e for e in ft.of_kind("assign") if idx_name is not None and e.name == idx_name]
    # term-level discovery (independent of how many names the selection goes through): seq.append(CANDS[IDX][-1])
    selections: list = []
    cands_t = stacked[0].args[2] if len(stacked[0].args) > 2 else None
    for ap in ft.calls("append"):
        a0 = ap.args[0] if ap.args else None
        if a0 is not None and a0[0] == "index" and a0[2] in (("const", -1), ("un", "-", ("const", 1))) and a0[1][0] == "index" and a0[1][1] == cands_t:
            def alternatives(t):
                if t[0] in ("ifexp", "phi"):
                    return alternatives(t[2]) + alternatives(t[3])
                return [t]
            selections = [(ap, alt) for alt in alternatives(a0[1][2])]
    if selections:
        idx_assign = []
    elif not idx_assign:
        # any assignment whose value is argmin/argmax of something over E
        idx_assign = [e for e in ft.of_kind("assign") if any(is_call_to(s, "numpy.argmin", "numpy.argmax") for s in subterms(e.value))]
    if not idx_assign and not selections:
        raise AnalysisError(f"{ref.short}: selection of the best action index not found")
    selections = selections or [(e, e.value) for e in idx_assign]
    det = 0
    for e, v in selections:
        while is_call_to(v, "int") and len(v[2]) == 1:
            v = v[2][0]
        if is_call_to(v, "numpy.argmin", "numpy.argmax") or (v[0] == "call" and v[1][0] == "attr" and v[1][2] in ("argmin", "argmax")):
            det += 1
            name = v[1][1].rsplit(".", 1)[-1] if v[1][0] == "global" else v[1][2]
            arg = v[2][0] if v[1][0] == "global" and v[2] else (v[1][1] if v[1][0] == "attr" else None)
            col.check(name == "argmin", ref.where(e.node), ref.short, "the deterministic branch takes the ARGMIN of the mean gap", construct="greedy-argmin",
                      necessity="the search extends its sequence by a coalition MINIMISING the mean gap over the sampled games")
            col.check(arg in means, ref.where(e.node), ref.short, "the mean is taken over the games axis (axis=1: one row per candidate sequence)",
                      construct="greedy-axis", necessity="averaging over candidates instead of games selects by the wrong quantity")
        elif v[0] == "call" and v[1][0] == "attr" and v[1][2] == "choice":
            # randomised tie-break: candidates = arange(n)[mean - min(mean) < EPS]
            c = v[2][0] if v[2] else ("unknown", "")
            okr = False
            mp = mask_positions(c)
            if mp is not None and mp[0][0] == "cmp" and mp[0][1] in ("<", "<=") and mp[1] in (None, ("index", ("attr", E, "shape"), ("const", 0)), ("call", ("global", "len"), (E,), ())):
                l = mp[0][2]
                okr = l[0] == "bin" and l[1] == "-" and l[2] in means and is_call_to(l[3], "numpy.min", "min") and l[3][2] and l[3][2][0] in means
            det += 1
            col.check(okr, ref.where(e.node), ref.short, "the randomised branch chooses among candidates within EPSILON of the MIN mean gap",
                      construct="greedy-random-min", necessity="the randomised variant must still minimise the mean gap")
        else:
            col.undecidable(ref.where(e.node), ref.short, f"selection of the next coalition of unrecognised form: {short(v, 80)}", rule="V5")
    col.check(det >= 1, ref.where(), ref.short, "at least one selection site (argmin or randomised minimum) was recognised", construct="greedy-det", necessity="anchor: at least one selection site must be recognised, otherwise the choice rule was not examined")
    # append + remove before rebuilding the candidates
    app = [e for e in ft.calls("append") if e.recv is not None]
    rem = [e for e in ft.calls() if e.name in ("remove", "discard") and e.recv is not None]
    rebuild = [e for e in ft.of_kind("assign") if cands_name is not None and e.name == cands_name and any(f[0] in ("while", "for") for f in e.ctx)]
    if not app or not rebuild:
        raise AnalysisError(f"{ref.short}: append of the chosen coalition / rebuild of the candidate list not found")
    a = app[0]
    # the search runs until the sequence is full: the first pass evaluates the empty candidate and adds nothing, so there is one pass more than coalitions
    outer = [f for f in stacked[0].ctx if f[0] in ("while", "for")]
    ms = ("param", ref.positional_params()[1]) if len(ref.positional_params()) > 1 else None
    if outer and ms is not None:
        fr = outer[0]
        len_seq = ("call", ("global", "len"), (a.recv,), ())
        if fr[0] == "while":
            t = fr[2]
            okl = t[0] == "cmp" and t[1] == "<" and t[2] == len_seq and (t[3] == ms or (is_call_to(t[3], "min") and ms in t[3][2]))
            col.check(okl, ref.where(fr[-1] if isinstance(fr[-1], ast.AST) else None), ref.short, "the search loop runs while len(sequence) < max_steps",
                      construct="greedy-loop-test", necessity="the sequence must reach the requested number of coalitions")
        else:
            it = fr[3]
            lim = it[2][0] if is_call_to(it, "range") and len(it[2]) == 1 else None
            plus1 = lim is not None and lim[0] == "bin" and lim[1] == "+" and ("const", 1) in (lim[2], lim[3]) and \
                any(x == ms or (is_call_to(x, "min") and ms in x[2]) for x in (lim[2], lim[3]))
            if lim is not None and (lim == ms or (is_call_to(lim, "min") and ms in lim[2])):
                col.check(False, ref.where(), ref.short, "the search makes max_steps + 1 passes (found a loop over range(max_steps))", construct="greedy-loop-count",
                          necessity="the first pass only evaluates the empty candidate: with max_steps passes the sequence is one coalition short and the last row of the "
                                    "curve keeps its initial value")
            elif plus1:
                col.ok(ref.where(), ref.short, "the search makes max_steps + 1 passes")
            else:
                col.undecidable(ref.where(), ref.short, f"trip count of the search loop not understood: {short(it, 60)}", rule="V5")
    chosen = a.args[0] if a.args else None
    col.check(bool(rem) and rem[0].args and rem[0].args[0] == chosen and [f[:3] for f in rem[0].ctx] == [f[:3] for f in a.ctx], ref.where(a.node), ref.short,
              "the coalition appended to the sequence is removed from the candidate set under the same condition", construct="greedy-remove",
              necessity="without the removal the search can choose the same coalition again (never repeats a coalition)")
    if rem:
        col.check(rebuild[-1].seq > rem[0].seq and rebuild[-1].seq > a.seq, ref.where(rebuild[-1].node), ref.short,
                  "the next candidate sequences are built after the append and the removal", construct="greedy-rebuild-order",
                  necessity="candidates built before the removal still contain the chosen coalition")
        # the candidate list is built from the set the removal shrinks
        rv = rebuild[-1].value
        src_ok = rv[0] == "comp" and len(rv[3]) == 1 and rv[3][0][1] == rem[0].recv and not rv[3][0][2]
        col.check(src_ok, ref.where(rebuild[-1].node), ref.short, "candidates = [sequence + [c] for c in <remaining candidates>]", construct="greedy-rebuild-src",
                  necessity="every remaining coalition must be considered, and only those")
    loop_frames = [f for f in a.ctx if f[0] in ("while", "for")]
    if loop_frames and loop_frames[0][0] == "while" and rem:
        # the loop adds one coalition per iteration and shrinks the candidate set by one: it must stop when that set is exhausted
        test = loop_frames[0][2]
        cand_set = rem[0].recv
        conj = list(test[2]) if test[0] == "bool" and test[1] == "and" else [test]
        has_nonempty = any(c == cand_set or (c[0] == "cmp" and any(is_call_to(x, "len") and x[2] and x[2][0] == cand_set for x in subterms(c))) or
                           (cands_name is not None and any(isinstance(x, tuple) and x[0] in ("loopmod",) and x[1] == cands_name for x in subterms(c))) for c in conj)
        clipped = any(is_call_to(x, "min") and any(is_call_to(y, "len") for y in subterms(x)) for c in conj for x in subterms(c))
        col.check(has_nonempty or clipped, ref.where(loop_frames[0][3]), ref.short,
                  "the search loop ends when no candidate coalition is left (limit clipped to the number of candidates, or a non-empty test in the loop condition)",
                  construct="greedy-limit-exceeds-candidates",
                  necessity="with a step limit above the number of explorable coalitions - the default 2**n always is - the candidate list becomes empty and the mean over it raises "
                            "AxisError: the greedy commands crash after the whole search and save nothing", rule="V5")
    if loop_frames:
        lu = loop_frames[0][1]
        exits = [e for e in ft.events if e.kind in ("break", "return") and any(f[0] in ("while", "for") and f[1] == lu for f in e.ctx)]
        col.check(not exits, ref.where(exits[0].node if exits else None), ref.short, "the search loop runs until the step limit (no early break / return)",
                  construct="greedy-early-exit",
                  necessity="rows of the curve that are never written keep their placeholder (-1): the curve is not non-increasing and lies below the exhaustive optimum")
    # chosen = candidates[best_index][-1]
    okc = chosen is not None and chosen[0] == "index" and chosen[2] == ("un", "-", ("const", 1)) and chosen[1][0] == "index"
    col.check(okc, ref.where(a.node), ref.short, "the coalition appended is the last element of the selected candidate sequence", construct="greedy-chosen",
              necessity="the sequence must be extended by the coalition that attained the minimum")
    # curve row
    rows = [e for e in ft.of_kind("store") if e.index is not None and any(f[0] in ("while", "for") for f in e.ctx) and
            any(is_call_to(s, "len") for s in subterms(e.index))]
    okrow = False
    for e in rows:
        idx = e.index[1][0] if e.index[0] == "tuple" else e.index
        if is_call_to(idx, "len") and idx[2] and idx[2][0] == a.recv and e.seq > a.seq and e.value[0] == "index" and e.value[1] == E:
            okrow = True
    col.check(okrow, ref.where(rows[0].node if rows else None), ref.short,
              "curve[len(action_sequence)] = row of the selected candidate, written after the append", construct="greedy-curve-row",
              necessity="row t of the curve must be the gap after t reveals")


def rule_c13_registry(prog: Program, col: Collector) -> None:
    col.rule("REG-S", "every SOLVERS entry is constructible as Solver(instance) and implements next_step(gym) / after_reset(gym)", 4)
    for key, m, c, kv in solver_classes(prog):
        members = _methods(m, c)
        init = members.get("__init__")
        ok = True
        if init is not None:
            a = init.node.args
            pos = [x.arg for x in a.posonlyargs + a.args][1:]
            required = pos[: len(pos) - len(a.defaults)]
            ok = len(pos) >= 1 and len(required) <= 1 and all(k in pos + [x.arg for x in a.kwonlyargs] for k in kv)
        col.check(ok, f"{m.rel()}:{c.lineno}", f"solvers.{c.name}", f"SOLVERS[{key!r}] is constructible as Solver(instance) with bound {kv}",
                  construct=f"solver-ctor:{key}", necessity="solve_func calls SOLVERS[name](instance)")
        for need in ("next_step", "after_reset"):
            r = members.get(need)
            col.check(r is not None and len(r.positional_params()) == 2, f"{m.rel()}:{c.lineno}", f"solvers.{c.name}",
                      f"{need}(self, gym) is implemented", construct=f"solver-{need}:{key}", necessity="evaluate() calls it with the env")
