"""Per-property MANIFEST texts (level, note, technique)."""

_COMMON_NOTE = ("Trusted: CPython's ast parser; documented semantics of NumPy / itertools / functools / multiprocessing / os. "
                "Rules bind to the package's public API and registry names; a vanished anchor or an idiom outside the recognised "
                "family is reported as ANALYSIS-ERROR (exit 2), never as a pass. Decides structural necessary conditions only - ")

_HYGIENE = (" Package-wide API-misuse rules run under every property, scoped to its anchor files and their call closure: no module-level state (GL1), value "
            "buffers not integer-typed (DT), getter views and getter results never modified in place (VW, AR), gap functions and observers pure (OBS, AL), "
            "reshape follows nesting order (RS), own-column broadcasts (BC), integer options and optional selections compared with None (TD), single-use iterators consumed once (L1), "
            "results of memoised functions never modified in place (CM), decorators on anchor functions of known effect (DEC), coalition operator algebra and immutability (K3). "
            "The scope follows what the property quantifies over (every registered generator / gap function / computer). The incomplete-game object is "
            "checked as substrate under every property (G-sub): the G rules of game.py are evaluated and reported for the methods this property's code can "
            "reach - column discipline, guarded getters, copy / negation, bulk reset, compute_bounds runs the computer and stores nothing itself, no "
            "per-object state besides the table; environments report without storing and hold no getter array (OBS-E, OBS-V) where an environment is involved.")

_THOROUGH = " Thorough tier additionally re-analyses AST-computed breaking variants (must fire) and benign twins (must stay silent) of the current tree."


def _t(level, design, not_covered, technique):
    return {"level": level + _HYGIENE + _THOROUGH, "design_ref": design, "note": _COMMON_NOTE + "NOT covered: " + not_covered, "technique": technique}


TEXTS = {
    "C01": _t("Abstract interpretation of both superadditive bound computers in a coalition-class domain (EMPTY/SELF/PSUB/PSUPER/OTHER with knowledge "
              "filters), relation codes derived from the table writer: write discipline (only unknown rows, only the loop variable), coverage of every "
              "unknown row for both bounds, size order, reads of final entries only, LB phase before UB phase, soundness shape of both recurrences "
              "(lower-bound columns, complement of the same split, known supersets, subtraction), completeness of the enumeration helpers, column "
              "discipline of the game accessors. Holds for every game, knowledge set and history because every execution follows the analysed text.",
              "DESIGN.md section 4, C01",
              "the theorem 'recurrence => every superadditive completion lies in [lower, upper]' (paper argument, Appendix C), float rounding, the precondition that known values come from a superadditive game.",
              "static analysis: abstract interpretation over ast (coalition-class domain), write-schedule obligations"),
    "C02": _t("Same abstract interpretation; decides the closed forms the statement quotes: lower = MAX over exactly all proper non-empty sub-coalitions "
              "(no knowledge filter, no slice), upper = MIN over exactly all known proper supersets, processed by increasing size; enumeration helpers "
              "complete by construction in both representations (powerset ranges, bit-set algebra of the id masks).",
              "DESIGN.md section 4, C02",
              "attainment of the extremes by an actual superadditive completion (polytope/LP fact), equality with an independent optimum.",
              "static analysis: abstract interpretation (candidate-set exactness, MAX/MIN), enumeration-shape rules"),
    "C03": _t("Sibling equality: after normalisation the write schedules (loop set, order, column, value term) of 'superadditive' and "
              "'superadditive_cached' are equal term for term - with exact max/min and identical binary float operations that implies bit-identical "
              "bounds, decided completely for the pair; cache hygiene of the memoised structure (pure, keyed by n, every call site passes "
              "game.number_of_players, no caller mutates a returned array or view); relation-table agreement; registry/CLI selection.",
              "DESIGN.md section 4, C03",
              "exactness of NumPy reductions; differing preconditions (the reference asserts known singletons) are outside 'on which both are defined'.",
              "static analysis: term-equality of abstract write schedules, effect analysis of cache callers"),
    "C04": _t("Abstract interpretation of the approximate superadditive-monotone computer and its four registry bindings: phase guard decided by "
              "constant folding on the repetition counter (first phase strict sub-splits, later phases include the row itself), monotone closure "
              "(MAX over supersets and self, after the split loop), upper = MIN2(superadditive upper, MIN of known sub-coalition values, both "
              "known-filtered), registry binds repetitions=i for sam_apx_i, loop range(repetitions + 1).",
              "DESIGN.md section 4, C04",
              "soundness of the approximation for every SAM game and repetition count (monotonicity argument over the iteration), numeric monotonicity of lower bounds along inclusion.",
              "static analysis: abstract interpretation with phase splitting, registry/partial resolution"),
    "C05": _t("Dataflow rules on MaxGainGame and compute_exploitability: upper bound selected exactly for coalitions containing the player in both "
              "accessors (sibling agreement, polarity via decomposition into (column, mask) products), each Shapley term evaluated for the player of the "
              "same max-gain game, all players, minus v(N); plus the Shapley rules of C06; observer purity (OBS): nothing reachable from GAP_FUNCTIONS calls a mutator of the game it measures.",
              "DESIGN.md section 4, C05",
              "the algebraic identity with the binomially weighted gap and the domination statement (paper algebra), float rounding.",
              "static analysis: provenance-term pattern rules, sibling agreement"),
    "C06": _t("Rules on the Shapley implementation: coefficient generator = factorial(s)*factorial(n-s-1) compared as integer linear forms over range(n); "
              "both entry points pass the same coefficient table and factorial(n); coefficients indexed by the sizes of the coalitions WITHOUT the player; "
              "with-list = without-list | singleton elementwise; summand coef*(with - without) with zip positions matched to lambda parameters; domain = "
              "all coalitions excluding the player.",
              "DESIGN.md section 4, C06",
              "equality with the average over n! orderings (combinatorial identity behind the weights), efficiency/linearity as numeric facts; a re-design outside the idiom family is reported UNDECIDED.",
              "static analysis: linear-form normalisation, positional dataflow through zip/lambda"),
    "C07": _t("Knowledge-polarity analysis derived from the bound schedules of all six registered computers (knowledge enters only as the UNKNOWN target "
              "filter and positively inside MIN reductions; MAX for lower, MIN for upper); gap registry (names -> functions, partials, ord = 1/2/inf), "
              "lp_norm = norm of (upper - lower); gap polarity of exploitability via the C05/C06 rules.",
              "DESIGN.md section 4, C07",
              "the monotonicity itself (theorem about max/min over growing candidate sets), non-negativity and the zero at full information as numeric facts.",
              "static analysis: polarity analysis over abstract schedules, registry resolution"),
    "C08": _t("For all six registered computers: every unknown row's both bounds rewritten on every compute, reads only of entries final in this compute, "
              "phase order, no hidden state (no module-level mutable state, only protocol attributes of the game); full re-initialisation in "
              "set_known_values; unset zeroes the row; unstep is the statement-wise inverse of step.",
              "DESIGN.md section 4, C08",
              "exact numeric equality of restored reward/observation (follows from determinism of the recomputation, not observed).",
              "static analysis: abstract interpretation + effect discipline + inverse pairing"),
    "C09": _t("Typestate analysis (knowledge mutation -> DIRTY, compute_bounds -> CLEAN, interprocedural through properties and helpers) on reset/step/"
              "unstep: no gap/reward/bound observer in DIRTY state, transitions exit CLEAN; reveal pairing (same coalition, value from the hidden full "
              "game, info id); index-space agreement of mask/state/spaces over explorable_coalitions; reset order and aliasing (new game, normalised COPY, "
              "paired set_known_values, counter zeroed); explorable set; reward sign; done = exactly three classified disjuncts (>=, None guard).",
              "DESIGN.md section 4, C09",
              "numeric content of observation/reward, non-positivity of the reward (C01+C05), that generator() really draws a new game (C10/C12).",
              "static analysis: path-sensitive typestate over a syntax-directed CFG, provenance-term rules"),
    "C10": _t("Registry exhaustiveness: all 72 expanded GENERATORS entries resolve to callables accepting (n, rng) with partial-bound keywords being "
              "parameters; NumPy-integer flow: sources (Generator.integers, argmax, ...) to operands whose callee dispatches on isinstance(., int) "
              "(sinks derived from the package), interprocedural through keyword arguments; RNG-source discipline: every draw in every reachable "
              "generator function comes from the generator parameter or a locally seeded RNG, and the parameter is handed on (3 documented exceptions); a randomly drawn index only subscripts a sequence of exactly the drawn bound's length (N-idx); the instance seed is never rewritten and the instance generator is default_rng(seed) (SEED).",
              "DESIGN.md section 4, C10",
              "superadditivity / monotonicity of the produced values, v(empty) = 0, float64 dtype (numeric; the in-code asserts are runtime checks), behaviour of NetworkX generators at small n.",
              "static analysis: registry constant-folding, taint flow (source/sanitiser/sink), effect discipline"),
    "C11": _t("Order-preserving pool API at every Pool site; worker purity (no module-level mutable state in the worker's call closure) and typestate "
              "(re-initialise, recompute, then gap); enumeration = combinations of the materialised unknown coalitions for sizes 0..k inclusive; paired "
              "get_values/set_known_values arguments at all 5 sites; best-states selection pairs column i with sequence i and keeps the smaller mean; "
              "meta-game works on a copy with paired reset; path-sensitive single-use-iterator reuse check over the whole package.",
              "DESIGN.md section 4, C11",
              "that the reported gaps are numerically optimal, non-increase of the curve (C07), behaviour of multiprocessing itself.",
              "static analysis: call-closure effect analysis, typestate, enumeration-shape rules, path-sensitive lazy-iterator lint"),
    "C12": _t("Recording rules on eval_one (reset first, row 0, action before step, positions 1 and 4 of the step result, info key agreement with the "
              "env) and evaluate (fresh env per task, tuple order, stack+transpose, ordered pool API); RNG-ownership analysis across the task boundary: "
              "RNG-holding attributes are found by constructor, draws on them located, and any draw reachable from the worker through a bound method or "
              "object shared by all tasks - or from a process-global RNG - is a violation; per-env child streams created in the factory are accepted, and solver-owned RNG state only when the after_reset hook of the same object replaces it per task from the env's own factory-seeded stream (chain H1-H4, every link checked); registered generators that draw hidden games from module-level state are reported (two documented families: open known findings); the action vector of an episode that can end early is NaN-initialised and the remaining gap rows carry the last gap; solve applies its default step limit to None only.",
              "DESIGN.md section 4, C12",
              "numeric equality of the matrices with a replay; statistical independence of the hidden games.",
              "static analysis: positional dataflow, RNG-ownership (escape/sharing) analysis over bound methods and partials"),
    "C13": _t("Path rule: every gym.step(a) in a solver is undone by gym.unstep(a) with the same argument on every path (flow with helper summaries); "
              "read-only use of the env; returned action provably drawn from the mask-filtered list; choice rules (max unless worst then min, first match in "
              "ascending order; largest = max size, first match; look-ahead value = position 1 of the step result); expected greedy: argmin of the mean over "
              "the games axis, append AND remove before rebuilding candidates, the search loop ends when no candidate is left (limit clipped), curve row = len(sequence); no draw from the env's random stream outside after_reset; registry constructibility.",
              "DESIGN.md section 4, C13",
              "that the maximal immediate reward is numerically what is returned; comparison with the exhaustive optimum.",
              "static analysis: acquire/release pairing on a CFG walk, membership provenance, pattern rules"),
    "C14": _t("Index-space typing of regret.py: spaces COAL/PID/MID/RANK/RM are derived from allocation size expressions and from value provenance "
              "(rank->id table values are ids, Coalition(id).players are player ids, ...); obligation: allocated space contains every index space used "
              "on the array (2 documented exceptions listed in the evidence); save/load key, file, constructor-order and restored-state agreement; "
              "every artefact is written unconditionally by every save(); plus-clipping after the update; fallback support zeroing in both strategy functions; ordering of coalition sets.",
              "DESIGN.md section 4, C14",
              "distribution/support/orthogonality invariants after arbitrary iterations (numeric), float32 accumulation.",
              "static analysis: dimension (index-space) type inference, writer/reader agreement"),
    "C15": _t("Cancellation-guarded division: a divisor that is (or is read back from a game into which the function stored) a difference of game values "
              "must be guarded by a tolerance test - relative to the scale of the game, non-strict, non-negative by construction and built from the rounding unit of the value type, not from an ad-hoc constant - not an exact-zero test; norm-info captured before mutation; inverse agreement (subtract singletons then "
              "divide vs multiply then add, tuple positions); view contract of the bound getters the in-place division relies on; dispatch over both game kinds; the graph game keeps no state besides its matrix, stored as a float copy (GG). Open known finding: the surplus is the residue of successive rounded subtractions (near-additive games).",
              "DESIGN.md section 4, C15",
              "the [0,1] range, superadditivity of the result, round-trip error bounds (numeric).",
              "static analysis: value-provenance classification of divisors and guards, inverse pairing"),
    "C16": _t("Rules on ICG_Gym_Linear: every observation/mask leaving it is the size-aggregation (bincount with weights) of the inner one; the inner action "
              "is drawn from candidates = (size == requested) AND inner mask; reward/done/truncated/info passed through; sizes aligned with the inner "
              "explorable list.",
              "DESIGN.md section 4, C16",
              "length-n of the aggregated vector (numeric property of bincount), uniformity of the tie-break.",
              "static analysis: provenance-term pattern rules"),
    "C17": _t("Rules over every method of IncompleteCooperativeGame: column discipline derived from the scalar accessors (distinct, in width, every accessor "
              "its column, set_value writes value/value/1), guarded getters, masked bulk setters (not-known conjunct, right column), copy/negation "
              "(fresh table, reads from self, swap, knowledge untouched), reset order with both arguments copied out before the table is cleared, reveal/unreveal preconditions; the selection helper returns the column iff no coalitions are given, else the rows of the given ids in the given order; package-wide who-may-write _values and "
              "view-escape rule (derived view getters, in-place mutation sites, 2 allow-listed symbols).",
              "DESIGN.md section 4, C17",
              "the full operation-sequence semantics (a model of NumPy indexing would be needed), NaN vs None representation.",
              "static analysis: per-method store/read column typing, dominance of guards, alias/view-escape analysis"),
    "C18": _t("Bit-set algebra: the bitwise expression of every Coalition operator (and of the id-array sub-coalition mask) is normalised to its truth "
              "table over set-valued atoms and compared with the set-theoretic specification - this decides the operator for all inputs and is insensitive "
              "to behaviour-preserving rewrites; completeness-by-construction of sub/super enumerations in both representations; predicates iterate all "
              "coalitions and sub-coalitions, fail only on the failed comparison (orientation, documented tolerance), is_sam = conjunction.",
              "DESIGN.md section 4, C18",
              "agreement of object and id enumerations as ordered sequences for every n (only the sets they enumerate are decided), popcount/bit-scan loops beyond their shape.",
              "static analysis: truth-table normal form of bitwise expressions, enumeration-shape and predicate-shape rules"),
    "C19": _t("Static path/dataflow rules over every site that writes, loads or rebuilds a saved result: skip-if-present guard dominates all effects, "
              "the serialised object is the loaded mapping plus exactly the new key, writer and reader of Output agree on keys, columns and dataclass fields "
              "(tolist round trip), the four commands store positions 0/1 of what they computed, written content is installed, saver registry and dispatcher (every saver behind the existing-name test, file names keep the whole run name); the atomic-write rules A1-A7 of C20 (a failed save must not damage stored runs: also a failed READ of the stored results is not `no results yet`, A6, and a decorator on the writing path passes failures on, A7).",
              "DESIGN.md section 4, C19",
              "exact float/NaN round-trip through the json module, metadata stringification.",
              "static analysis: guard dominance, writer/reader key agreement, dependency closure of Output arguments"),
    "C20": _t("File-effect typestate over the call closure of SAVERS['data.json']: the destination is never opened for writing / truncated / copied onto / "
              "unlinked; new content goes to a sibling temporary derived from the destination; the atomic replace comes after the temporary file is closed, on the normal path only; no other function of the package renames, replaces or removes files (A5); a handler around the read of the stored results catches FileNotFoundError only (A6); a decorator around a function of the writing path cannot return normally when the wrapped call failed (A7: handlers re-raise, retry loops re-raise on their last iteration - decided on integer linear forms of the loop bound). "
              "With these every interruption point leaves the old or the complete new file - this is the property itself modulo rename(2).",
              "DESIGN.md section 4, C20",
              "atomicity of os.replace/rename(2) on one file system (trusted); power loss (no fsync required: the property speaks of process death).",
              "static analysis: file-effect typestate (open modes, temp derivation, replace ordering)"),
}

NOT_APPLICABLE: dict[str, str] = {}
