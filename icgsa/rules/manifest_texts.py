"""Per-property MANIFEST texts (level, note, technique)."""

_COMMON_NOTE = ("Trusted: CPython's ast parser; documented semantics of NumPy / itertools / functools / multiprocessing / os. "
                "Rules bind to the package's public API and registry names; a vanished anchor or an idiom outside the recognised "
                "family is reported as ANALYSIS-ERROR (exit 2), never as a pass. ")

TEXTS = {
    "C19": {
        "level": "Static path/dataflow rules over every site that writes, loads or rebuilds a saved result: skip-if-present guard "
                 "dominates all effects (W1), the serialised object is the loaded mapping plus exactly the new key (W2), writer and "
                 "reader of Output agree on keys, columns and dataclass fields (W3), the four commands store positions 0/1 of what they "
                 "computed (W4), written content is installed (W5), saver registry and dispatcher conventions (REG-V). These hold for "
                 "every sequence of saves because every execution follows the analysed text.",
        "design_ref": "DESIGN.md section 4, C19",
        "note": _COMMON_NOTE + "Not covered: exact float/NaN round-trip through the json module, metadata stringification.",
        "technique": "static analysis: ast dataflow (provenance terms), guard-dominance, writer/reader key agreement",
    },
    "C20": {
        "level": "Static typestate/path rule on every function reachable from SAVERS['data.json'] that touches the destination path: "
                 "never written in place (A1), new content to a sibling temporary (A2), atomic replace after close on every writing path "
                 "(A3), destination never unlinked (A4). With A1-A4 every interruption point leaves the old or the complete new file; "
                 "this is the property itself modulo atomicity of rename(2).",
        "design_ref": "DESIGN.md section 4, C20",
        "note": _COMMON_NOTE + "Trusted: os.replace/rename(2) atomic on one file system; process death, not power loss (no fsync required).",
        "technique": "static analysis: file-effect typestate over the saver's call closure (open modes, temp derivation, replace ordering)",
    },
}

NOT_APPLICABLE: dict[str, str] = {}
