"""Package-wide hygiene rules scoped to a property's anchor files:

GL1  functions write no module-level mutable state (memo dicts, 'global' caches) outside the documented sites
DT   arrays that hold float game values are not allocated with an integer dtype (``zeros_like(<id array>)``) and no
     narrow (8/16 bit) integer dtype is used for id / index tables
VW   (= G6 of C17, scoped to the anchor files) results of view-returning getters of the game are never mutated in place
OBS  gap functions and everything they call on the game they were given are pure observers of that game
RS   a flat sequence produced by a doubly nested comprehension is reshaped with the outer loop as the first axis
TD   an integer-valued option is never tested for truth to decide whether it was given (0 is a value, None is "unset")
"""
from __future__ import annotations

import ast
import json
from pathlib import Path

from ..core import AnalysisError, Program, src
from ..report import Collector
from ..terms import is_call_to, is_global, show, subterms
from .common import fterms, short

P = "incomplete_cooperative."
VERIF = Path(__file__).resolve().parent.parent.parent

# documented module-level state (one named symbol each, with the reason)
GLOBAL_STATE_ALLOWED = {
    "generators.predictible_factory_generator": "documented: the round-robin factory rotates its owner through the module-level _LAST_OWNER",
}
MUTATING_METHODS = {"append", "add", "update", "setdefault", "pop", "popitem", "clear", "extend", "insert", "remove", "discard", "sort", "fill", "put", "resize"}
ID_ARRAY_FUNCS = (P + "coalition_ids.get_all_coalitions", P + "coalition_ids.sub_coalitions", P + "coalition_ids.super_coalitions",
                  P + "bounds._get_sub_super_coalition_structure", "numpy.arange", "numpy.argsort", "numpy.flatnonzero", "numpy.where", "numpy.nonzero")
NARROW = ("numpy.int8", "numpy.uint8", "numpy.int16", "numpy.uint16", "numpy.float16")


def anchor_files(pid: str) -> list[str]:
    for line in (VERIF / "properties.jsonl").read_text().splitlines():
        if line.strip():
            p = json.loads(line)
            if p["id"] == pid:
                return list(p["anchors"]["files"])
    return []


def _property_text(pid: str) -> str:
    for line in (VERIF / "properties.jsonl").read_text().splitlines():
        if line.strip():
            p = json.loads(line)
            if p["id"] == pid:
                return (p["statement"] + " " + p["quantifier"]["text"]).lower()
    return ""


def quantifies_over_generators(pid: str) -> bool:
    for line in (VERIF / "properties.jsonl").read_text().splitlines():
        if line.strip():
            p = json.loads(line)
            if p["id"] == pid:
                return "generator" in (p["statement"] + " " + p["quantifier"]["text"]).lower()
    return False


_SCOPE_CACHE: dict = {}


def scope_files(prog: Program, pid: str) -> set[str]:
    """The anchor files of the property plus the files of every package function reachable from a function of the anchor files
    through resolved calls (plain functions, constructors; depth 3): the code the property's code actually runs."""
    key = (id(prog), pid)
    if key in _SCOPE_CACHE:
        return _SCOPE_CACHE[key]
    from .common import resolve_callee
    files = set(anchor_files(pid))
    # a property that quantifies over "every registered generator family" takes the games those functions build as its inputs
    if quantifies_over_generators(pid) and prog.has_module(P + "generators"):
        files.add(prog.module(P + "generators").rel())
    # likewise "all four gap functions" / "all registered computers": the functions behind GAP_FUNCTIONS / BOUNDS run under the property
    text = _property_text(pid)
    anchored_registries = {f"{m.name}.{n}" for m in prog.modules.values() if m.rel() in files for n, v in m.assigns.items() if isinstance(v, ast.Dict)}
    for words, reg in ((("gap", "reward"), "run.model.GAP_FUNCTIONS"), (("registered computer", "every computer", "all computers", "game class"), "bounds.BOUNDS")):
        # named by the property's text, or defined in one of its anchor files
        if any(w in text for w in words) or (P + reg) in anchored_registries:
            try:
                from ..core import registry, unwrap_partial
                for e in registry(prog, reg):
                    callee, _a, _k, module, _env = unwrap_partial(prog, e.module, e.value, e.env)
                    q = prog.resolve(module, callee)
                    r = prog.find_func(q) if q else None
                    if r is not None:
                        files.add(r.module.rel())
            except AnalysisError:
                pass
    todo = [(r, 0) for r in prog.all_functions() if r.module.rel() in files]
    seen = set()
    out = set(files)
    while todo:
        ref, d = todo.pop()
        if ref.qual in seen:
            continue
        seen.add(ref.qual)
        out.add(ref.module.rel())
        if d >= 3:
            continue
        ft = fterms(prog, ref)
        for e in ft.calls():
            c = resolve_callee(prog, ft, e)
            if c is not None and "/tests/" not in c.module.rel():
                todo.append((c, d + 1))
    _SCOPE_CACHE.clear()
    _SCOPE_CACHE[key] = out
    return out


def _root(t):
    while isinstance(t, tuple) and t[0] in ("index", "attr"):
        t = t[1]
    return t


def rule_no_module_state(prog: Program, col: Collector) -> None:
    files = set(anchor_files(col.property_id))
    col.rule("GL1", "functions of the property's anchor files write no module-level mutable state (memo dicts, `global` caches, module-level lists)", 1)
    n = 0
    for ref in prog.all_functions():
        if ref.module.rel() not in files:
            continue
        n += 1
        ft = fterms(prog, ref)
        hits = []
        for g in ft.of_kind("global"):
            hits.append((g, "declares `global " + ", ".join(g.names) + "`"))
        for ev in list(ft.of_kind("store")) + list(ft.of_kind("aug")):
            r = _root(ev.target)
            if isinstance(r, tuple) and r[0] == "global" and r[1].startswith(P) and prog.global_value(r[1]) is not None:
                hits.append((ev, f"writes into module-level {r[1].replace(P, '')}"))
        for e in ft.calls():
            if e.recv is not None and e.name in MUTATING_METHODS:
                r = _root(e.recv)
                if isinstance(r, tuple) and r[0] == "global" and r[1].startswith(P) and prog.global_value(r[1]) is not None:
                    hits.append((e, f"mutates module-level {r[1].replace(P, '')} via .{e.name}()"))
        if hits and ref.short in GLOBAL_STATE_ALLOWED:
            col.ok(ref.where(hits[0][0].node), ref.short, f"module-level state - allow-listed: {GLOBAL_STATE_ALLOWED[ref.short]}")
            continue
        col.check(not hits, ref.where(hits[0][0].node if hits else None), ref.short,
                  "no module-level state is written" + (f" ({hits[0][1]})" if hits else ""), construct="module-state-write",
                  necessity="a process-wide memo or cache makes a result depend on what was computed earlier in the process (other player counts, other games "
                            "with the same key, other files): identically specified calls stop returning identical results")
    if n == 0:
        raise AnalysisError("GL1: no function found in the anchor files (paths changed?)")


def _derives_from_ids(t) -> bool:
    for s in subterms(t):
        if is_call_to(s, *ID_ARRAY_FUNCS):
            return True
    return False


def _integer_array(t) -> bool:
    """An array that is integer-typed by construction: arange/argsort/... of integers, possibly through elementwise integer operations."""
    if not isinstance(t, tuple):
        return False
    if is_call_to(t, "numpy.arange"):
        dt = dict(t[3]).get("dtype")
        floaty = (dt is not None and ("float" in show(dt) or "Value" in show(dt))) or any(a[0] == "const" and isinstance(a[1], float) for a in t[2])
        return not floaty
    if is_call_to(t, "numpy.maximum", "numpy.minimum", "numpy.add", "numpy.multiply", "numpy.abs", "numpy.flip", "numpy.sort") and t[2]:
        return all(_integer_array(a) or (a[0] == "const" and isinstance(a[1], int)) for a in t[2]) and any(_integer_array(a) for a in t[2])
    if t[0] == "bin" and t[1] in ("+", "-", "*", "//", "**"):
        sides = (t[2], t[3])
        return all(_integer_array(a) or (a[0] == "const" and isinstance(a[1], int)) or a[0] == "param" for a in sides) and any(_integer_array(a) for a in sides)
    if t[0] == "index" and t[2][0] == "slice":
        return _integer_array(t[1])
    if t[0] == "call" and t[1][0] == "attr" and t[1][2] == "astype" and t[2]:
        return "int" in show(t[2][0])
    return False


def rule_dtypes(prog: Program, col: Collector) -> None:
    files = set(anchor_files(col.property_id))
    col.rule("DT", "no float value buffer is allocated with the integer dtype of an id array (`*_like(<ids>)`), and no 8/16-bit dtype is used for tables", 1)
    n = 0
    bad = 0
    for ref in prog.all_functions():
        if ref.module.rel() not in files:
            continue
        n += 1
        ft = fterms(prog, ref)
        for e in ft.calls():
            if is_global(e.func, "numpy.zeros_like", "numpy.empty_like", "numpy.ones_like", "numpy.full_like") and e.args:
                if "dtype" not in e.kwargs and _derives_from_ids(e.args[0]):
                    bad += 1
                    col.violation(ref.where(e.node), ref.short, "int-buffer-like-ids",
                                  f"{e.func[1].rsplit('.', 1)[1]}({short(e.args[0], 40)}) inherits the integer dtype of a coalition-id array",
                                  "bounds and values stored into an integer buffer are truncated toward zero: exact for integer games, wrong for every float game")
            # products of integer arrays (factorials, binomials) wrap silently at 2**63: 21! does not fit
            prod_arg = None
            if is_global(e.func, "numpy.cumprod", "numpy.prod", "numpy.cumproduct", "numpy.product", "numpy.multiply.accumulate", "numpy.multiply.reduce") and e.args:
                prod_arg = e.args[0]
            elif e.name in ("cumprod", "prod") and e.recv is not None and not e.args:
                prod_arg = e.recv
            if prod_arg is not None and "dtype" not in e.kwargs and _integer_array(prod_arg):
                bad += 1
                col.violation(ref.where(e.node), ref.short, "integer-product",
                              f"{short(e.func, 30)} over the integer array {short(prod_arg, 50)}",
                              "NumPy integer products wrap silently at 2**63 (21! already does not fit): factorial / binomial weights computed this way are "
                              "exact for small player counts and garbage - even negative - from n = 22 on; math.factorial / math.comb use exact Python integers")
            dt = e.kwargs.get("dtype")
            cands = [dt] if dt is not None else []
            if is_global(e.func, "numpy.zeros", "numpy.ones", "numpy.empty", "numpy.full", "numpy.array", "numpy.arange", "numpy.fromiter"):
                cands += [a for a in e.args[1:]]
            if e.name == "astype" and e.args:
                cands.append(e.args[0])
            for c in cands:
                if isinstance(c, tuple) and (is_global(c, *NARROW) or (c[0] == "const" and c[1] in ("int8", "uint8", "int16", "uint16", "float16", "i1", "u1", "i2", "u2"))
                                             or is_call_to(c, "numpy.min_scalar_type", "numpy.result_type", "numpy.promote_types")):
                    bad += 1
                    col.violation(ref.where(e.node), ref.short, f"narrow-dtype:{show(c)}", f"narrow dtype {show(c)} in {short(e.term, 60)}",
                                  "ids, player numbers and their powers of two overflow 8/16-bit integers silently (2**7 wraps in int8): tables become wrong from a certain size on; a `narrowest type that fits` "
                                  "(np.min_scalar_type) is unsigned and 8 or 16 bits wide for every offered player count: mixing with a Python-int id or a negative mask raises OverflowError")
        # a buffer filled with an INTEGER literal (np.full(k, 0), np.zeros(k, dtype=int)) that later receives values read from a game
        def int_buffer(t) -> bool:
            if is_call_to(t, "numpy.full") and len(t[2]) >= 2 and "dtype" not in dict(t[3]):
                return t[2][1][0] == "const" and type(t[2][1][1]) is int
            if is_call_to(t, "numpy.zeros", "numpy.ones", "numpy.empty"):
                d = dict(t[3]).get("dtype", t[2][1] if len(t[2]) > 1 else None)
                return d is not None and (d == ("global", "int") or "int" in show(d).lower()) and "Value" not in show(d)
            return False

        def game_value(t) -> bool:
            return any(s[0] == "call" and s[1][0] == "attr" and s[1][2] in ("get_values", "get_value", "get_lower_bounds", "get_upper_bounds", "get_known_values",
                                                                           "get_lower_bound", "get_upper_bound", "get_intervals")
                       for s in subterms(t))
        for e in list(ft.of_kind("aug")) + list(ft.of_kind("store")):
            base = e.target if e.kind == "aug" else e.obj
            while isinstance(base, tuple) and base[0] == "index":
                base = base[1]
            if e.index is not None and isinstance(base, tuple) and int_buffer(base) and isinstance(e.value, tuple) and game_value(e.value):
                bad += 1
                col.violation(ref.where(e.node), ref.short, "int-buffer-literal",
                              f"values of a game are accumulated in {short(base, 40)}, an integer array (integer fill value / dtype)",
                              "game values are floats: every `buf[i] += v` truncates toward zero without a warning - exact for integer games, wrong for every fractional one")
    if n == 0:
        raise AnalysisError("DT: no function found in the anchor files")
    if bad == 0:
        col.ok("-", "anchor files", f"{n} functions scanned: no integer-typed value buffer, no narrow dtype")


def rule_view_escape(prog: Program, col: Collector) -> None:
    """G6 under every property: a consumer in the property's anchor files that mutates a getter view corrupts the table."""
    from .game import GameModel, check_view_escape
    files = scope_files(prog, col.property_id)
    check_view_escape(prog, col, GameModel(prog), scope_files=files)


def game_mutators(prog: Program) -> set[str]:
    """Methods of IncompleteCooperativeGame that (transitively, through self-calls) write the table or run the computer."""
    from .game import GameModel
    gm = GameModel(prog)
    direct = set()
    calls: dict[str, set[str]] = {}
    for name, ref in gm.methods.items():
        ft = fterms(prog, ref)
        if gm.stores(ref) or any(e.func == ("attr", ("param", "self"), "_bounds_computer") for e in ft.calls()):
            direct.add(name)
        calls[name] = {e.name for e in ft.calls() if e.recv == ("param", "self") and e.name in gm.methods}
    changed = True
    while changed:
        changed = False
        for name, cs in calls.items():
            if name not in direct and cs & direct:
                direct.add(name)
                changed = True
    return {m for m in direct if not m.startswith("__")}


def rule_observers_pure(prog: Program, col: Collector) -> None:
    from ..core import registry, unwrap_partial
    from .common import resolve_callee
    files = scope_files(prog, col.property_id)
    col.rule("OBS", "a gap function, and every package function it hands its game to, never calls a mutator of that game (set_*/reveal/unreveal/compute_bounds ...)", 1)
    muts = game_mutators(prog)
    if not {"compute_bounds", "set_value", "reveal_value"} <= muts:
        raise AnalysisError(f"OBS: mutator set derived from game.py looks wrong: {sorted(muts)}")
    roots = []
    for e in registry(prog, "run.model.GAP_FUNCTIONS"):
        callee, _a, _k, module, _env = unwrap_partial(prog, e.module, e.value, e.env)
        q = prog.resolve(module, callee)
        r = prog.find_func(q) if q else None
        if r is not None:
            roots.append(r)
    if not roots:
        raise AnalysisError("OBS: no gap function resolved from GAP_FUNCTIONS")
    seen: dict[str, tuple] = {}
    todo = [(r, 0, r.positional_params()[0]) for r in {x.qual: x for x in roots}.values()]
    nsites = 0
    NEC = ("every consumer (reward, done, solvers' probing, the searches) evaluates the gap on the game it is holding and goes on using that game: a gap function "
           "that recomputes or rewrites bounds changes the state it was asked to measure, so stored intervals, later gaps and undo sequences no longer match")
    while todo:
        ref, depth, gparam = todo.pop()
        key = (ref.qual, gparam)
        if key in seen or depth > 3:
            continue
        seen[key] = True
        ft = fterms(prog, ref)
        G = ("param", gparam)

        def rooted(t) -> bool:
            while isinstance(t, tuple) and t[0] in ("attr", "index"):
                t = t[1]
            return t == G

        in_scope = ref.module.rel() in files
        for ev in ft.calls():
            if ev.recv is not None and rooted(ev.recv) and ev.name in muts:
                nsites += 1
                if in_scope:
                    col.violation(ref.where(ev.node), ref.short, f"observer-mutates:{ev.name}", f"{ref.short} calls {gparam}.{ev.name}(...) on the game it observes", NEC, rule="OBS")
            callee = resolve_callee(prog, ft, ev)
            if callee is not None and callee.qual != ref.qual:
                cp = callee.positional_params()
                if callee.cls is not None and cp and cp[0] == "self":
                    cp = cp[1:]
                for i, a in enumerate(ev.args):
                    if i < len(cp) and a == G:
                        todo.append((callee, depth + 1, cp[i]))
                for k, a in ev.kwargs.items():
                    if k and a == G:
                        todo.append((callee, depth + 1, k))
        if in_scope:
            nsites += 1
            col.ok(ref.where(), ref.short, f"observer {ref.short}({gparam}) examined: no mutator call on its game", rule="OBS") if not any(
                f.rule == "OBS" and f.func == ref.short for f in col.findings) else None
    if nsites == 0:
        col.ok("-", "package", f"{len(seen)} observer functions reachable from GAP_FUNCTIONS examined (none in this property's anchor files)", rule="OBS")


def _len_of(d, it) -> bool:
    """Is ``d`` the number of elements of the iterable term ``it``?"""
    if d == ("call", ("global", "len"), (it,), ()):
        return True
    if is_call_to(it, "range") and it[2] in ((d,), (("const", 0), d)):
        return True
    inner = it
    while is_call_to(inner, "list", "tuple") and len(inner[2]) == 1:
        inner = inner[2][0]
        if d == ("call", ("global", "len"), (inner,), ()):
            return True
    return False


def rule_reshape_order(prog: Program, col: Collector) -> None:
    files = scope_files(prog, col.property_id)
    col.rule("RS", "when the results of a doubly nested comprehension (for a in A for b in B) are reshaped to two axes, the axes are (len(A), len(B))", 0)
    # positive control
    A, B = ("param", "A"), ("param", "B")
    comp = ("comp", "gen", ("const", 0), ((("elem", A, 1), A, ()), (("elem", B, 2), B, ())))
    if not (_len_of(("call", ("global", "len"), (A,), ()), comp[3][0][1]) and not _len_of(("call", ("global", "len"), (B,), ()), comp[3][0][1])):
        raise AnalysisError("RS positive control failed")
    n = 0
    for ref in prog.all_functions():
        if ref.module.rel() not in files:
            continue
        ft = fterms(prog, ref)
        for e in ft.calls():
            dims = None
            src_t = None
            if e.name == "reshape" and e.recv is not None:
                src_t = e.recv
                dims = e.args[0][1] if len(e.args) == 1 and e.args[0][0] == "tuple" else e.args
            elif is_global(e.func, "numpy.reshape") and len(e.args) >= 2:
                src_t = e.args[0]
                dims = e.args[1][1] if e.args[1][0] == "tuple" else e.args[1:]
            if dims is None or len(dims) != 2:
                continue
            comps = [t for t in subterms(src_t) if t[0] == "comp" and len(t[3]) == 2]
            if not comps:
                continue
            n += 1
            outer, inner = comps[0][3][0][1], comps[0][3][1][1]
            d1, d2 = dims
            if _len_of(d1, outer) and _len_of(d2, inner):
                col.ok(ref.where(e.node), ref.short, f"reshape({short(d1, 30)}, {short(d2, 30)}) follows the nesting order of the comprehension that produced the data")
            elif _len_of(d1, inner) and _len_of(d2, outer):
                transposed = any(isinstance(r.value, tuple) and any(s[0] == "attr" and s[2] == "T" and s[1] == e.term or is_call_to(s, "numpy.transpose") and s[2][:1] == (e.term,)
                                                                    for s in subterms(r.value)) for r in ft.of_kind("return"))
                col.check(False, ref.where(e.node), ref.short,
                          f"reshape axes ({short(d1, 30)}, {short(d2, 30)}) follow the comprehension nesting (outer: {short(outer, 30)}, inner: {short(inner, 30)})",
                          construct="reshape-axes-swapped",
                          necessity="the flat results are ordered outer-loop-major: reshaping with the inner length first pairs every value with the wrong (row, column) - "
                                    "here: the gap of the wrong (candidate, game) pair") if not transposed else col.undecidable(
                    ref.where(e.node), ref.short, "reshape with swapped axes followed by a transpose of the same array: not the same matrix either (order='F' would be)")
            else:
                col.undecidable(ref.where(e.node), ref.short, f"cannot relate reshape axes ({short(d1, 30)}, {short(d2, 30)}) to the comprehension's iterables")
    if n == 0:
        col.ok("-", "anchor files", "no reshape of nested-comprehension results (positive control matched)")


def _int_options(prog: Program) -> tuple[set[str], dict[str, set[str]]]:
    """(attribute names of class-level fields annotated int / int | None, {function qual: parameter names annotated int | None})."""
    fields: set[str] = set()
    params: dict[str, set[str]] = {}
    for m in prog.modules.values():
        if "/tests/" in m.rel():
            continue
        for d in m.defs.values():
            if isinstance(d, ast.ClassDef):
                for n in d.body:
                    if isinstance(n, ast.AnnAssign) and isinstance(n.target, ast.Name):
                        ann = ast.unparse(n.annotation).replace(" ", "")
                        if ann in ("int", "int|None", "Optional[int]", "None|int"):
                            fields.add(n.target.id)
    for ref in prog.all_functions():
        ps = set()
        a = ref.node.args
        defaults = dict(zip([x.arg for x in (a.posonlyargs + a.args)][len(a.posonlyargs + a.args) - len(a.defaults):], a.defaults))
        defaults.update({x.arg: d for x, d in zip(a.kwonlyargs, a.kw_defaults) if d is not None})
        for arg in a.posonlyargs + a.args + a.kwonlyargs:
            ann = ast.unparse(arg.annotation).replace(" ", "") if arg.annotation is not None else ""
            if ann in ("int|None", "Optional[int]", "None|int"):
                ps.add(arg.arg)
            # an optional selection / number (`Iterable[..] | None = None`, `list[..] | None = None`, `float | None = None`): None means "not given",
            # an EMPTY selection or 0.0 is a value of its own
            d = defaults.get(arg.arg)
            if (d is None or (isinstance(d, ast.Constant) and d.value is None)) and ("|None" in ann or ann.startswith("Optional[") or ann.startswith("None|")) and \
                    any(w in ann for w in ("Iterable", "Iterator", "Sequence", "Collection", "list", "List", "set", "Set", "tuple", "Tuple", "dict", "Dict", "float", "ndarray", "ArrayLike", "Values")):
                ps.add(arg.arg)
        if ps:
            params[ref.qual] = ps
    return fields, params


def rule_truthiness_defaults(prog: Program, col: Collector) -> None:
    files = scope_files(prog, col.property_id)
    col.rule("TD", "an integer option (dataclass field or parameter typed int | None) is compared with None, never tested for truth, when a default is substituted", 0)
    fields, params = _int_options(prog)
    if "seed" not in fields or "run_steps_limit" not in fields:
        raise AnalysisError(f"TD: integer option fields not found (got {sorted(fields)[:8]})")
    n = bad = 0
    for ref in prog.all_functions():
        if ref.module.rel() not in files:
            continue
        ft = fterms(prog, ref)
        mine = params.get(ref.qual, set())

        def is_option(t) -> bool:
            return isinstance(t, tuple) and ((t[0] == "attr" and t[2] in fields and t[1][0] in ("param", "attr", "global")) or (t[0] == "param" and t[1] in mine))
        seen = set()
        for ev in ft.events:
            # `x or default` anywhere in a value
            for v in ev.data.values():
                if isinstance(v, tuple):
                    for t in subterms(v):
                        if t[0] == "bool" and t[1] == "or" and t[2] and is_option(t[2][0]) and t not in seen:
                            seen.add(t)
                            n += 1
                            bad += 1
                            col.violation(ref.where(ev.node), ref.short, f"truthiness-default:{short(t[2][0], 30)}", f"`{short(t, 70)}` substitutes the default for every falsy value, 0 included",
                                          "0 is a legal value of an integer option (seed 0, step limit 0, size bound 0): treating it as 'unset' silently runs another configuration "
                                          "than the one asked for, and two components that read the option differently disagree")
            # `if x:` / `if not x:` / `a if x else b` on the option itself
            for f in ev.ctx:
                if f[0] == "if" and is_option(f[1]) and (id(f[3]) if len(f) > 3 else repr(f[1])) not in seen:
                    seen.add(id(f[3]) if len(f) > 3 else repr(f[1]))
                    n += 1
                    bad += 1
                    col.violation(ref.where(ev.node), ref.short, f"truthiness-test:{short(f[1], 30)}", f"branch on the truth value of the optional argument / option {short(f[1], 40)}",
                                  "0 is a legal value of an integer option and an empty selection is a selection: `if not limit` / `if seed` / `if not coalitions` confuse them with None "
                                  "(an empty list of coalitions then stands for ALL coalitions)")
    if bad == 0:
        col.ok("-", "scope", f"no truthiness test or `or`-default on the integer options {sorted(fields)[:6]}... or on int | None parameters")


def _own_column_ops(tree: ast.AST) -> list[ast.AST]:
    """`X op X[:, j]` / `X op= X[:, j]` (arithmetic between a 2-D array and ONE OF ITS OWN COLUMNS without a new axis)."""
    hits = []
    for n in ast.walk(tree):
        pairs = []
        if isinstance(n, ast.BinOp) and isinstance(n.op, (ast.Div, ast.Sub, ast.Add, ast.Mult, ast.FloorDiv, ast.Mod)):
            pairs = [(n.left, n.right), (n.right, n.left)]
        elif isinstance(n, ast.AugAssign) and isinstance(n.op, (ast.Div, ast.Sub, ast.Add, ast.Mult, ast.FloorDiv, ast.Mod)):
            pairs = [(n.target, n.value)]
        for whole, part in pairs:
            if isinstance(part, ast.Subscript) and isinstance(part.slice, ast.Tuple) and len(part.slice.elts) == 2 \
                    and isinstance(part.slice.elts[0], ast.Slice) and part.slice.elts[0].lower is None and part.slice.elts[0].upper is None \
                    and part.slice.elts[0].step is None and not isinstance(part.slice.elts[1], (ast.Slice, ast.Tuple, ast.List)) \
                    and not (isinstance(part.slice.elts[1], ast.Constant) and part.slice.elts[1].value is None) \
                    and isinstance(whole, (ast.Name, ast.Attribute)) and ast.dump(part.value) == ast.dump(whole).replace("ctx=Store()", "ctx=Load()"):
                hits.append(n)
                break
    return hits


def rule_own_column_broadcast(prog: Program, col: Collector) -> None:
    files = scope_files(prog, col.property_id)
    col.rule("BC", "arithmetic between a two-dimensional array and one of its own columns adds the axis back (X / X[:, j, None] or keepdims), never X / X[:, j]", 0)
    control = ast.parse("def f(a):\n    a /= a[:, -1]\n    b = a - a[:, 0]\n    c = a / a[:, -1, None]\n    return a / a[:, [-1]]\n")
    if len(_own_column_ops(control)) != 2:
        raise AnalysisError("BC positive control failed")
    n = 0
    for ref in prog.all_functions():
        if ref.module.rel() not in files:
            continue
        for hit in _own_column_ops(ref.node):
            n += 1
            col.check(False, ref.where(hit), ref.short, f"`{src(hit)[:70]}` combines an array with its own column along the LAST axis",
                      construct="own-column-broadcast",
                      necessity="NumPy aligns trailing axes: (k, m) op (k,) raises for k != m and k != 1 (and silently normalises columns by the wrong rows when k == m); "
                                "row-wise normalisation needs X[:, j, None] - the registry entries that reach this line with more than one row fail on every call")
    if n == 0:
        col.ok("-", "anchor files", "no arithmetic between an array and its own column without a new axis (positive control matched)")


LIST_MUTATORS = {"append", "extend", "insert", "remove", "pop", "clear", "sort", "reverse", "update", "add", "discard", "setdefault", "popitem"}


def _is_listlike(t) -> bool:
    return isinstance(t, tuple) and (t[0] in ("list", "tuple", "set", "dict") or (t[0] == "comp" and t[1] in ("list", "set", "dict"))
                                     or is_call_to(t, "list", "sorted", "tuple", "set", "dict"))


def rule_observer_alias_mutation(prog: Program, col: Collector) -> None:
    """A getter must not change the object it reads - not even through a local alias of one of its containers."""
    files = scope_files(prog, col.property_id)
    col.rule("AL", "an observer (get_* / is_* / are_* / has_* method or property) never extends or edits a container attribute of its object or arguments in place, "
                   "also not through a local alias (`known = self.k_zero; known += [...]`)", 0)
    n = 0
    for ref in prog.all_functions():
        if ref.module.rel() not in files or ref.cls is None:
            continue
        nm = ref.node.name
        is_prop = any((isinstance(d, ast.Name) and d.id in ("property", "cached_property")) or (isinstance(d, ast.Attribute) and d.attr in ("cached_property",))
                      for d in ref.node.decorator_list)
        if not (nm.startswith(("get_", "is_", "are_", "has_")) or is_prop):
            continue
        n += 1
        ft = fterms(prog, ref)
        params = {("param", p) for p in ref.params()}

        def rooted_attr(t) -> bool:
            seen_attr = False
            while isinstance(t, tuple) and t[0] == "attr":
                seen_attr = True
                t = t[1]
            return seen_attr and t in params
        hits = []
        for e in ft.of_kind("aug"):
            if e.op == "+" and rooted_attr(e.target) and _is_listlike(e.value):
                hits.append((e, f"`{src(e.node)[:60]}` extends {short(e.target, 40)} in place"))
        for e in ft.calls():
            if e.name in LIST_MUTATORS and e.recv is not None and rooted_attr(e.recv) and not (e.recv[0] == "attr" and e.recv[2].startswith("_cache")):
                hits.append((e, f"`{src(e.node)[:60]}` edits {short(e.recv, 40)} in place"))
        for e, msg in hits:
            col.check(False, ref.where(e.node), ref.short, msg, construct=f"observer-alias-mutation:{nm}",
                      necessity="a list attribute extended inside a getter keeps growing with every query: the answer to the next query depends on which queries came before "
                                "(`x = self.items; x += more` extends self.items; `x = x + more` or `self.items + more` would not)")
        if not hits:
            col.ok(ref.where(), ref.short, f"observer {nm}: no in-place edit of a container attribute (aliases followed)")
    if n == 0:
        col.ok("-", "anchor files", "no observer methods in the anchor files")


VIEW_PRESERVING = ("numpy.ascontiguousarray", "numpy.asarray", "numpy.asanyarray", "numpy.atleast_1d", "numpy.atleast_2d", "numpy.ravel", "numpy.reshape",
                   "numpy.squeeze", "numpy.transpose", "numpy.asfarray")


# one named function, one reason: the write through the getter's view IS the function's documented effect
AR_BY_DESIGN = {"normalize._normalize_icg": "normalisation rescales the bound columns of the game it is given in place, through the views its bound getters return "
                                            "(checked by M1-M6; the game is the function's output)"}


def rule_getter_result_mutated(prog: Program, col: Collector) -> None:
    """What a getter of an ARGUMENT returned is not modified in place (it may be the argument's own storage)."""
    files = scope_files(prog, col.property_id)
    col.rule("AR", "an array returned by a getter of an argument (game.get_values(), ...) is never modified in place - also not through reshape / ravel / "
                   "ascontiguousarray / slices, which return views whenever they can", 0)
    n = 0
    for ref in prog.all_functions():
        if ref.module.rel() not in files:
            continue
        if ref.short in AR_BY_DESIGN:
            col.assume(f"AR exception {ref.short}: {AR_BY_DESIGN[ref.short]}")
            continue
        ft = fterms(prog, ref)
        params = {("param", p) for p in ref.params() if p != "self"}
        if not params:
            continue

        def root(t):
            """The getter call an array term is (possibly) a view of; None if it is certainly fresh or not from a getter."""
            for _ in range(12):
                if not isinstance(t, tuple):
                    return None
                if t[0] == "index":
                    if t[2][0] not in ("slice", "tuple", "const"):
                        return None                      # fancy / mask indexing copies
                    if t[2][0] == "tuple" and not all(isinstance(x, tuple) and x[0] in ("slice", "const") for x in t[2][1]):
                        return None
                    t = t[1]
                elif t[0] == "attr" and t[2] in ("T", "real", "flat"):
                    t = t[1]
                elif t[0] == "call" and t[1][0] == "attr" and t[1][2] in ("reshape", "ravel", "view", "squeeze", "transpose", "swapaxes"):
                    t = t[1][1]
                elif is_call_to(t, *VIEW_PRESERVING) and t[2]:
                    t = t[2][0]
                elif t[0] == "call" and t[1][0] == "attr" and t[1][2].startswith("get_") and t[1][2].endswith("s") and t[1][1] in params:
                    return t            # plural getters return arrays; a scalar from get_value() is rebound by `x *= c`, not modified
                else:
                    return None
            return None
        for e in list(ft.of_kind("aug")) + [x for x in ft.of_kind("store") if x.index is not None]:
            tgt = e.target if e.kind == "aug" else e.obj
            g = root(tgt)
            if g is not None:
                n += 1
                col.check(False, ref.where(e.node), ref.short,
                          f"`{src(e.node)[:60]}` writes into {short(tgt, 50)}, which can be a view of what {short(g, 40)} returned",
                          construct="getter-result-mutated",
                          necessity="reshape, ravel, slices and np.ascontiguousarray return the very storage whenever they can: for a game whose get_values() hands out its own "
                                    "(contiguous) vector the in-place update overwrites the game, so every later computation on it - the next player's Shapley value - is wrong")
    if n == 0:
        col.ok("-", "anchor files", "no in-place write into (a view of) an array returned by a getter of an argument")


_CACHE_DECOS = ("functools.cache", "functools.lru_cache", "functools.cached_property")
_MUTATORS = {"append", "extend", "insert", "pop", "remove", "clear", "sort", "reverse", "update", "setdefault", "popitem", "add", "discard", "fill", "resize", "put", "itemset", "sort"}


def _cached_functions(prog: Program) -> dict[str, object]:
    out = {}
    for ref in prog.all_functions():
        for d in ref.node.decorator_list:
            target = d.func if isinstance(d, ast.Call) else d
            if prog.resolve(ref.module, target) in _CACHE_DECOS:
                out[ref.qual] = ref
    return out


def rule_cached_results_immutable(prog: Program, col: Collector) -> None:
    """CM: what a memoised function returns is shared by all its callers - nobody changes it in place."""
    files = scope_files(prog, col.property_id)
    cached = _cached_functions(prog)
    col.rule("CM", "the result of a memoised (functools.cache / lru_cache) package function is never modified in place by a caller", 0)
    n = 0
    # the victim decides the scope: a memoised function of the property's code, modified by ANY function of the package
    cached = {q: r for q, r in cached.items() if r.module.rel() in files}
    for ref in (prog.all_functions() if cached else []):
        if "/tests/" in ref.module.rel():
            continue
        ft = fterms(prog, ref)

        def from_cache(t) -> bool:
            """t is (an element, slice or unpacked part of) the value of a call of a memoised package function."""
            while isinstance(t, tuple) and t and t[0] in ("index", "attr") and not (t[0] == "attr" and t[2] in ("T",)):
                t = t[1]
            return isinstance(t, tuple) and len(t) == 4 and t[0] == "call" and t[1][0] == "global" and t[1][1] in cached
        hits = []
        for e in ft.calls():
            if e.recv is not None and e.name in _MUTATORS and from_cache(e.recv):
                hits.append((e, f".{e.name}() on the result of {short(e.recv, 50)}"))
        for e in list(ft.of_kind("store")) + list(ft.of_kind("aug")):
            tgt = e.data.get("obj") if e.data.get("index") is not None else (e.data.get("target") if e.kind == "aug" else None)
            if tgt is not None and from_cache(tgt):
                hits.append((e, f"in-place write into the result of {short(tgt, 50)}"))
        for ev, what in hits:
            n += 1
            col.violation(ref.where(ev.node), ref.short, f"cached-result-mutated:{ref.node.name}", f"{what}: the memoised object is shared by every later call with the same arguments",
                          "the cache hands the SAME list / array to every caller: popping or overwriting an entry changes what all later callers (other games, other computers, the "
                          "enumeration helpers) receive for the rest of the process - results depend on call history")
    if n == 0:
        col.ok("-", "scope", f"{len(cached)} memoised package function(s): no caller in scope modifies a result in place")


_DECOS_OK = ("property", "staticmethod", "classmethod", "functools.cache", "functools.lru_cache", "functools.wraps", "functools.cached_property", "abc.abstractmethod",
             "dataclasses.dataclass", "typing.runtime_checkable", "typing.overload", "typing.final", "functools.total_ordering", "contextlib.contextmanager")


def rule_decorators_transparent(prog: Program, col: Collector) -> None:
    """DEC: a decorator on a function of the property's anchor files is one whose effect is known."""
    files = set(anchor_files(col.property_id))
    col.rule("DEC", "functions of the anchor files carry only decorators whose effect is known (property / staticmethod / classmethod / cache / dataclass ...)", 0)
    n = 0
    for ref in prog.all_functions():
        if ref.module.rel() not in files:
            continue
        for d in ref.node.decorator_list:
            target = d.func if isinstance(d, ast.Call) else d
            if isinstance(target, ast.Attribute) and target.attr in ("setter", "getter", "deleter"):
                continue
            q = prog.resolve(ref.module, target) or src(target)
            if q in _DECOS_OK:
                continue
            n += 1
            if q in ("numpy.errstate",) and isinstance(d, ast.Call) and any(isinstance(k.value, ast.Constant) and k.value.value == "raise" for k in d.keywords):
                col.violation(ref.where(d), ref.short, f"errstate-raise:{ref.node.name}", f"@{src(d)[:50]} turns floating-point conditions inside {ref.node.name} into exceptions",
                              "`all='raise'` (or under= / over= / invalid='raise') makes harmless events - a float32 underflow to 0 for tiny or widely scaled legal inputs - abort "
                              "the computation half-way with its state partly updated, where the plain code returns the correct result")
            elif q.startswith("incomplete_cooperative."):
                # a wrapper of the package: transparent if it passes every failure of the wrapped call on and returns its result (the analysis of A7)
                from .save import decorator_transparency
                verdict, msg = decorator_transparency(prog, ref.module, d)
                if verdict == "ok":
                    col.ok(ref.where(d), ref.short, f"decorator @{src(d)[:40]} passes results and failures of {ref.node.name} through")
                elif verdict == "violation":
                    col.violation(ref.where(d), ref.short, f"wrapper-swallows-failure:{ref.node.name}", msg,
                                  "a call that failed and is reported as done lets the caller go on with a half-finished effect")
                else:
                    col.undecidable(ref.where(d), ref.short, f"decorator @{src(d)[:50]} wraps {ref.node.name}: {msg}")
            else:
                col.undecidable(ref.where(d), ref.short, f"decorator @{src(d)[:50]} on {ref.node.name}: effect not known")
    if n == 0:
        col.ok("-", "anchor files", "only decorators with a known effect")
