"""Package-wide hygiene rules scoped to a property's anchor files:

GL1  functions write no module-level mutable state (memo dicts, 'global' caches) outside the documented sites
DT   arrays that hold float game values are not allocated with an integer dtype (``zeros_like(<id array>)``) and no
     narrow (8/16 bit) integer dtype is used for id / index tables
"""
from __future__ import annotations

import ast
import json
from pathlib import Path

from ..core import AnalysisError, Program
from ..report import Collector
from ..terms import is_call_to, is_global, show, subterms
from .common import fterms, short

P = "incomplete_cooperative."
VERIF = Path(__file__).resolve().parent.parent.parent

# documented module-level state (one named symbol each, with the reason)
GLOBAL_STATE_ALLOWED = {
    "generators.predictible_factory_generator": "documented: the round-robin factory rotates its owner through the module-level _LAST_OWNER",
}
MUTATING_METHODS = {"append", "add", "update", "setdefault", "pop", "popitem", "clear", "extend", "insert", "remove", "discard", "sort", "fill", "put", "resize"}
ID_ARRAY_FUNCS = (P + "coalition_ids.get_all_coalitions", P + "coalition_ids.sub_coalitions", P + "coalition_ids.super_coalitions",
                  P + "bounds._get_sub_super_coalition_structure", "numpy.arange", "numpy.argsort", "numpy.flatnonzero", "numpy.where", "numpy.nonzero")
NARROW = ("numpy.int8", "numpy.uint8", "numpy.int16", "numpy.uint16", "numpy.float16")


def anchor_files(pid: str) -> list[str]:
    for line in (VERIF / "properties.jsonl").read_text().splitlines():
        if line.strip():
            p = json.loads(line)
            if p["id"] == pid:
                return list(p["anchors"]["files"])
    return []


def _root(t):
    while isinstance(t, tuple) and t[0] in ("index", "attr"):
        t = t[1]
    return t


def rule_no_module_state(prog: Program, col: Collector) -> None:
    files = set(anchor_files(col.property_id))
    col.rule("GL1", "functions of the property's anchor files write no module-level mutable state (memo dicts, `global` caches, module-level lists)", 1)
    n = 0
    for ref in prog.all_functions():
        if ref.module.rel() not in files:
            continue
        n += 1
        ft = fterms(prog, ref)
        hits = []
        for g in ft.of_kind("global"):
            hits.append((g, "declares `global " + ", ".join(g.names) + "`"))
        for ev in list(ft.of_kind("store")) + list(ft.of_kind("aug")):
            r = _root(ev.target)
            if isinstance(r, tuple) and r[0] == "global" and r[1].startswith(P) and prog.global_value(r[1]) is not None:
                hits.append((ev, f"writes into module-level {r[1].replace(P, '')}"))
        for e in ft.calls():
            if e.recv is not None and e.name in MUTATING_METHODS:
                r = _root(e.recv)
                if isinstance(r, tuple) and r[0] == "global" and r[1].startswith(P) and prog.global_value(r[1]) is not None:
                    hits.append((e, f"mutates module-level {r[1].replace(P, '')} via .{e.name}()"))
        if hits and ref.short in GLOBAL_STATE_ALLOWED:
            col.ok(ref.where(hits[0][0].node), ref.short, f"module-level state - allow-listed: {GLOBAL_STATE_ALLOWED[ref.short]}")
            continue
        col.check(not hits, ref.where(hits[0][0].node if hits else None), ref.short,
                  "no module-level state is written" + (f" ({hits[0][1]})" if hits else ""), construct="module-state-write",
                  necessity="a process-wide memo or cache makes a result depend on what was computed earlier in the process (other player counts, other games "
                            "with the same key, other files): identically specified calls stop returning identical results")
    if n == 0:
        raise AnalysisError("GL1: no function found in the anchor files (paths changed?)")


def _derives_from_ids(t) -> bool:
    for s in subterms(t):
        if is_call_to(s, *ID_ARRAY_FUNCS):
            return True
    return False


def rule_dtypes(prog: Program, col: Collector) -> None:
    files = set(anchor_files(col.property_id))
    col.rule("DT", "no float value buffer is allocated with the integer dtype of an id array (`*_like(<ids>)`), and no 8/16-bit dtype is used for tables", 1)
    n = 0
    bad = 0
    for ref in prog.all_functions():
        if ref.module.rel() not in files:
            continue
        n += 1
        ft = fterms(prog, ref)
        for e in ft.calls():
            if is_global(e.func, "numpy.zeros_like", "numpy.empty_like", "numpy.ones_like", "numpy.full_like") and e.args:
                if "dtype" not in e.kwargs and _derives_from_ids(e.args[0]):
                    bad += 1
                    col.violation(ref.where(e.node), ref.short, "int-buffer-like-ids",
                                  f"{e.func[1].rsplit('.', 1)[1]}({short(e.args[0], 40)}) inherits the integer dtype of a coalition-id array",
                                  "bounds and values stored into an integer buffer are truncated toward zero: exact for integer games, wrong for every float game")
            dt = e.kwargs.get("dtype")
            cands = [dt] if dt is not None else []
            if is_global(e.func, "numpy.zeros", "numpy.ones", "numpy.empty", "numpy.full", "numpy.array", "numpy.arange", "numpy.fromiter"):
                cands += [a for a in e.args[1:]]
            if e.name == "astype" and e.args:
                cands.append(e.args[0])
            for c in cands:
                if isinstance(c, tuple) and (is_global(c, *NARROW) or (c[0] == "const" and c[1] in ("int8", "uint8", "int16", "uint16", "float16", "i1", "u1", "i2", "u2"))):
                    bad += 1
                    col.violation(ref.where(e.node), ref.short, f"narrow-dtype:{show(c)}", f"narrow dtype {show(c)} in {short(e.term, 60)}",
                                  "ids, player numbers and their powers of two overflow 8/16-bit integers silently (2**7 wraps in int8): tables become wrong from a certain size on")
    if n == 0:
        raise AnalysisError("DT: no function found in the anchor files")
    if bad == 0:
        col.ok("-", "anchor files", f"{n} functions scanned: no integer-typed value buffer, no narrow dtype")
