"""C10: every offered generator runs and is seeded (N-sig, N-int, N-rng)."""
from __future__ import annotations

import ast

from ..core import AnalysisError, AnchorMissing, FuncRef, Program, registry, src, unwrap_partial
from ..report import Collector
from ..terms import Term, is_call_to, is_global, show, subterms
from .common import fterms, has_subterm, resolve_callee, short

P = "incomplete_cooperative."
GEN_DRAW_METHODS = {"random", "integers", "uniform", "normal", "choice", "permutation", "permuted", "shuffle", "beta", "triangular",
                    "poisson", "exponential", "standard_normal", "binomial", "gamma", "bytes", "randint", "rand", "randn", "sample",
                    "randrange", "gauss", "betavariate", "lognormal", "geometric", "dirichlet", "multinomial"}
NPINT_SOURCES_METHODS = {"integers", "randint", "choice"}
NPINT_SOURCE_FUNCS = ("numpy.argmax", "numpy.argmin", "numpy.random.choice", "numpy.random.randint", "numpy.searchsorted", "numpy.int64", "numpy.int32")
SANITISERS = ("int", "float", "bool", "str")

# documented exceptions of the RNG-source discipline: one named symbol each, with the reason
RNG_EXCEPTIONS = {
    "generators.graph_generator": "documented: the graph-weight-distribution family ignores the supplied generator (draws through dist_fn bound to the module-level RNG)",
    "generators.predictible_factory_generator": "documented: the round-robin factory ignores the supplied generator (owner rotates deterministically)",
    "generators.convex_generator": "external dependency (pyfmtools) absent here; documented as unseeded",
}


def generator_targets(prog: Program):
    """[(key, target FuncRef | None, bound kwargs (ast), entry, callee expr, module)] for every GENERATORS entry."""
    out = []
    for e in registry(prog, "generators.GENERATORS"):
        callee, args, kwargs, module, env = unwrap_partial(prog, e.module, e.value, e.env)
        q = prog.resolve(module, callee)
        ref = prog.find_func(q) if q else None
        out.append((e.key, ref, args, kwargs, e, callee, module, env))
    return out


def rule_nsig(prog: Program, col: Collector) -> None:
    col.rule("N-sig", "every GENERATORS entry resolves to a callable accepting (number_of_players, rng) positionally; partial-bound keywords are parameters of the target", 60)
    # the call convention is read off the call site
    gref = prog.func("run.model.ModelInstance.game_generator_fn")
    gft = fterms(prog, gref)
    sites = []
    for fr in prog.all_functions():
        ft = fterms(prog, fr)
        for e in ft.calls():
            if e.func[0] == "index" and is_global(e.func[1], P + "generators.GENERATORS"):
                sites.append((fr, e))
        for e in ft.calls():
            # partial(GENERATORS[k], n, rng)
            if is_global(e.func, "functools.partial") and e.args and e.args[0][0] == "index" and is_global(e.args[0][1], P + "generators.GENERATORS"):
                sites.append((fr, e))
    if not sites:
        raise AnalysisError("no call site of GENERATORS[...] found")
    npos = 0
    for fr, e in sites:
        n = len(e.args) - (1 if is_global(e.func, "functools.partial") else 0)
        npos = max(npos, n)
        col.check(n == 2 and not e.kwargs, fr.where(e.node), fr.short, "GENERATORS[name] is called with two positionals (number_of_players, rng)",
                  construct="call-convention", necessity="every registry entry is called the same way")
    entries = generator_targets(prog)
    if len(entries) < 60:
        raise AnalysisError(f"GENERATORS expanded to only {len(entries)} entries")
    keys = [k for k, *_ in entries]
    dup = {k for k in keys if keys.count(k) > 1}
    col.check(not dup, "-", "generators.GENERATORS", f"registry keys are unique after expansion ({sorted(dup)})", construct="dup-keys",
              necessity="a later duplicate silently replaces an earlier generator")
    for key, ref, args, kwargs, entry, callee, module, env in entries:
        where = f"{entry.module.rel()}:{entry.node.lineno}"
        if ref is None:
            col.violation(where, "generators.GENERATORS", f"unresolved:{key}", f"GENERATORS[{key!r}] = {src(entry.value)[:60]} does not resolve to a function of the package",
                          "a CLI choice that cannot be called fails for every seed")
            continue
        a = ref.node.args
        pos = [x.arg for x in a.posonlyargs + a.args]
        kwonly = [x.arg for x in a.kwonlyargs]
        ok_pos = len(pos) - len(args) >= 2 or a.vararg is not None
        bad_kw = [k for k in kwargs if k not in pos + kwonly and a.kwarg is None]
        collide = [k for k in kwargs if k in pos[:2 + len(args)]]
        required_kwonly = [x.arg for x, d in zip(a.kwonlyargs, a.kw_defaults) if d is None and x.arg not in kwargs]
        nreq = len(pos) - len(a.defaults)
        unbound_required = [p for p in pos[2 + len(args):nreq] if p not in kwargs]
        gp = _gen_param(ref)
        first_ann = ast.unparse(a.posonlyargs[0].annotation if a.posonlyargs else a.args[0].annotation) if (a.posonlyargs or a.args) and \
            (a.posonlyargs[0] if a.posonlyargs else a.args[0]).annotation is not None else ""
        role_ok = len(pos) >= 2 and gp == pos[1 + len(args)] if len(pos) > 1 + len(args) else False
        role_ok = role_ok and (first_ann in ("int", "") or "int" in first_ann)
        col.check(role_ok, where, ref.short, f"GENERATORS[{key!r}]: the target's positionals are (number_of_players: int, <random generator>)",
                  construct=f"entry-roles:{key}", necessity="a target whose second positional is not the random generator cannot be seeded by the caller")
        col.check(ok_pos and not bad_kw and not collide and not required_kwonly and not unbound_required, where, ref.short,
                  f"GENERATORS[{key!r}] -> {ref.short}({', '.join(pos[:2])}, ...) accepts the convention; bound keywords {sorted(kwargs)} are its parameters"
                  + (f" [unknown {bad_kw}, colliding {collide}, unbound {unbound_required + required_kwonly}]" if bad_kw or collide or unbound_required or required_kwonly else ""),
                  construct=f"entry-sig:{key}", necessity="a keyword the target does not accept raises TypeError for every call of that CLI choice")
        # nested callables handed on (dist_fn=, graph_gen=, value_fn=, additive_gen=)
        for k, v in kwargs.items():
            if isinstance(v, ast.Name) and isinstance(env.get(v.id), ast.AST):
                v = env[v.id]
            inner, iargs, ikw, imod, _ = unwrap_partial(prog, module, v, env)
            iq = prog.resolve(imod, inner)
            iref = prog.find_func(iq) if iq else None
            if iref is not None:
                ia = iref.node.args
                ipos = [x.arg for x in ia.posonlyargs + ia.args] + [x.arg for x in ia.kwonlyargs]
                badk = [kk for kk in ikw if kk not in ipos and ia.kwarg is None]
                col.check(not badk, where, iref.short, f"nested callable {k}={iref.short} accepts its bound keywords {sorted(ikw)}",
                          construct=f"nested-sig:{key}:{k}", necessity="a keyword bound in the registry that the nested callable does not accept raises TypeError on every call of that entry")
            elif isinstance(inner, ast.Attribute) and inner.attr in NUMPY_SAMPLERS and (iargs or ikw):
                # an external sampler (a bound method of a numpy Generator): the consumer calls it with ONE positional argument, the size
                calls1 = [c for c in ast.walk(ref.node) if isinstance(c, ast.Call) and isinstance(c.func, ast.Name) and c.func.id == k]
                positional_call = bool(calls1) and all(len(c.args) == 1 and not c.keywords for c in calls1)
                sig = NUMPY_SAMPLERS[inner.attr]
                slot = sig[len(iargs)] if len(iargs) < len(sig) else None
                okb = not positional_call or (slot == "size" and "size" not in ikw and all(kk in sig[len(iargs):] for kk in ikw)
                                              and not any(kk in sig[:sig.index("size")] for kk in ikw))
                col.check(okb, where, ref.short,
                          f"GENERATORS[{key!r}]: {k}={src(v)[:60]} leaves `size` as the next positional parameter of {inner.attr}{tuple(sig)} "
                          f"(the consumer calls {k}(<size>) positionally)", construct=f"nested-sampler:{key}:{k}",
                          necessity="distribution parameters bound by keyword leave the FIRST positional slot open: the size tuple passed by the consumer lands on it "
                                    "(TypeError 'multiple values', or a sampler called with a tuple as its left / low / a parameter) for every call of that CLI choice")


# positional signatures of numpy.random.Generator samplers (the prefix up to and including `size`)
NUMPY_SAMPLERS = {"triangular": ("left", "mode", "right", "size"), "beta": ("a", "b", "size"), "uniform": ("low", "high", "size"),
                  "normal": ("loc", "scale", "size"), "exponential": ("scale", "size"), "gamma": ("shape", "scale", "size"),
                  "lognormal": ("mean", "sigma", "size"), "integers": ("low", "high", "size"), "random": ("size",),
                  "standard_normal": ("size",), "poisson": ("lam", "size"), "binomial": ("n", "p", "size"), "pareto": ("a", "size"),
                  "power": ("a", "size"), "weibull": ("a", "size"), "chisquare": ("df", "size"), "laplace": ("loc", "scale", "size"),
                  "logistic": ("loc", "scale", "size"), "geometric": ("p", "size"), "rayleigh": ("scale", "size")}

# --------------------------------------------------------------------------------------
# N-int
# --------------------------------------------------------------------------------------

def _coalition_returning(prog: Program) -> tuple[set[str], set[str]]:
    """(functions returning a Coalition, functions returning an iterable of Coalitions) by annotation."""
    one, many = set(), set()
    for r in prog.all_functions():
        ann = r.node.returns
        if ann is None:
            continue
        t = ast.unparse(ann)
        if t.strip("'\"") == "Coalition":
            one.add(r.qual)
        elif "Coalition" in t and any(w in t for w in ("Iterable", "Iterator", "list", "List", "Sequence")) and "tuple" not in t:
            many.add(r.qual)
    return one, many


class NpIntFlow:
    def __init__(self, prog: Program) -> None:
        self.prog = prog
        self.one, self.many = _coalition_returning(prog)
        # sinks: (function qual, param) that dispatch on isinstance(param, int | Player)
        self.sink_params: dict[str, set[str]] = {}
        for r in prog.all_functions():
            ps = set(r.params())
            for n in ast.walk(r.node):
                if isinstance(n, ast.Call) and isinstance(n.func, ast.Name) and n.func.id == "isinstance" and len(n.args) == 2 \
                        and isinstance(n.args[0], ast.Name) and n.args[0].id in ps:
                    ty = ast.unparse(n.args[1])
                    if ty in ("int", "Player") or ty.replace(" ", "") in ("(int,)", "(Player,)"):
                        self.sink_params.setdefault(r.qual, set()).add(n.args[0].id)
        self.op_sinks = {r.split(".")[-1] for r in self.sink_params if ".Coalition." in r}

    def coalition_typed(self, t: Term, ref: FuncRef, depth: int = 0) -> bool:
        if depth > 6 or not isinstance(t, tuple):
            return False
        if t[0] == "elem":
            it = t[1]
            while is_call_to(it, "list", "tuple", "sorted", "reversed", "iter", "set") and it[2]:
                it = it[2][0]
            if it[0] == "call" and it[1][0] == "global" and it[1][1] in self.many:
                return True
            if is_call_to(it, "filter") and len(it[2]) == 2:
                return self.coalition_typed(("elem", it[2][1], 0), ref, depth + 1)
            if it[0] == "comp":
                return self.coalition_typed(it[2], ref, depth + 1)
            if it[0] == "param":
                return "Coalition" in self._ann(ref, it[1])
            return False
        if t[0] == "call" and t[1][0] == "global" and (t[1][1] in self.one or t[1][1] == P + "coalitions.Coalition"):
            return True
        if t[0] == "param":
            a = self._ann(ref, t[1])
            return a.strip("'\"") == "Coalition"
        if t[0] == "bin" and t[1] in ("|", "&", "-", "+"):
            return self.coalition_typed(t[2], ref, depth + 1)
        if t[0] in ("phi", "ifexp"):
            return self.coalition_typed(t[2], ref, depth + 1) or self.coalition_typed(t[3], ref, depth + 1)
        return False

    def _ann(self, ref: FuncRef, name: str) -> str:
        for a in ref.node.args.posonlyargs + ref.node.args.args + ref.node.args.kwonlyargs:
            if a.arg == name and a.annotation is not None:
                return ast.unparse(a.annotation)
        return ""

    def source_in(self, t: Term) -> Term | None:
        """An un-sanitised NumPy-integer scalar source inside t (None if every source is wrapped by int()/item())."""
        if not isinstance(t, tuple):
            return None
        if t[0] == "call":
            f = t[1]
            if is_global(f, *SANITISERS):
                return None
            if f[0] == "attr" and f[2] in ("item", "tolist"):
                return None
            if f[0] == "attr" and f[2] in NPINT_SOURCES_METHODS:
                kw = dict(t[3])
                scalar = "size" not in kw and not (f[2] == "integers" and len(t[2]) >= 3) and not (f[2] == "choice" and len(t[2]) >= 2)
                if scalar:
                    return t
                return None
            if is_global(f, *NPINT_SOURCE_FUNCS):
                return t
            if is_global(f, "len", "range", "min", "max", "sum", "abs", "round") and f[1] in ("len", "range"):
                return None
        if t[0] in ("const", "global", "param", "lparam"):
            return None
        if t[0] == "elem":
            return None
        if t[0] == "index":
            return None          # element of an array: may be a numpy integer, but list/array indexing accepts it (__index__)
        for x in t[1:]:
            if isinstance(x, tuple):
                if x and isinstance(x[0], str):
                    r = self.source_in(x)
                    if r is not None:
                        return r
                else:
                    for y in x:
                        if isinstance(y, tuple):
                            r = self.source_in(y) if (y and isinstance(y[0], str)) else None
                            if r is not None:
                                return r
        return None

    def findings(self, ref: FuncRef, depth: int = 0, tainted_params: frozenset = frozenset()) -> list[tuple]:
        ft = fterms(self.prog, ref)
        out = []

        def tainted(t: Term) -> Term | None:
            s = self.source_in(t)
            if s is not None:
                return s
            for p in tainted_params:
                if has_subterm(t, ("param", p)) and not _sanitised_everywhere(t, ("param", p)):
                    return ("param", p)
            return None

        for ev in ft.events:
            for key, v in ev.data.items():
                if key in ("func",) or not isinstance(v, tuple):
                    continue
                for s in subterms(v):
                    # x in C  /  x not in C
                    if s[0] == "cmp" and s[1] in ("in", "not in") and "__contains__" in self.op_sinks:
                        src_t = tainted(s[2])
                        if src_t is not None and self.coalition_typed(s[3], ref):
                            out.append((ev, f"NumPy integer {short(src_t, 50)} reaches `{s[1]} <Coalition>` (Coalition.__contains__ dispatches on isinstance(., int))"))
                    if s[0] == "bin" and s[1] in ("-", "+", "|", "&"):
                        opn = {"-": "__sub__", "+": "__add__", "|": "__or__", "&": "__and__"}[s[1]]
                        if opn in self.op_sinks and self.coalition_typed(s[2], ref):
                            src_t = tainted(s[3])
                            if src_t is not None:
                                out.append((ev, f"NumPy integer {short(src_t, 50)} reaches `<Coalition> {s[1]} .` (Coalition.{opn} dispatches on isinstance(., int))"))
                    if s[0] == "cmp" and s[1] in ("==", "!=") and "__eq__" in self.op_sinks and self.coalition_typed(s[2], ref):
                        src_t = tainted(s[3])
                        if src_t is not None:
                            out.append((ev, f"NumPy integer {short(src_t, 50)} compared with a Coalition"))
        # calls into package functions whose parameter is a sink, or that forward the value
        for ev in ft.calls():
            callee = resolve_callee(self.prog, ft, ev)
            if callee is None or depth >= 2 or callee.qual == ref.qual:
                continue
            cp = callee.positional_params()
            if callee.cls is not None and cp and cp[0] == "self":
                cp = cp[1:]
            bound: dict[str, Term] = {}
            for i, a in enumerate(ev.args):
                if i < len(cp):
                    bound[cp[i]] = a
            for k, a in ev.kwargs.items():
                if k:
                    bound[k] = a
            hot = {p for p, a in bound.items() if tainted(a) is not None}
            if not hot:
                continue
            for p in hot & self.sink_params.get(callee.qual, set()):
                out.append((ev, f"NumPy integer passed as `{p}` to {callee.short}, which dispatches on isinstance({p}, int)"))
            for ev2, msg in self.findings(callee, depth + 1, frozenset(hot)):
                out.append((ev, f"via {callee.short}: {msg}"))
        return out


def _sanitised_everywhere(t: Term, p: Term) -> bool:
    """Every occurrence of p inside t is wrapped by int(...)."""
    if t == p:
        return False
    if not isinstance(t, tuple):
        return True
    if t[0] == "call" and is_global(t[1], *SANITISERS):
        return True
    ok = True
    for x in t[1:]:
        if isinstance(x, tuple):
            if x and isinstance(x[0], str):
                ok = ok and _sanitised_everywhere(x, p)
            else:
                for y in x:
                    if isinstance(y, tuple) and y and isinstance(y[0], str):
                        ok = ok and _sanitised_everywhere(y, p)
                    elif isinstance(y, tuple):
                        for z in y:
                            if isinstance(z, tuple) and z and isinstance(z[0], str):
                                ok = ok and _sanitised_everywhere(z, p)
    return ok


def rule_nint(prog: Program, col: Collector) -> None:
    col.rule("N-int", "no NumPy-integer scalar (Generator.integers, argmax, ...) reaches an operand whose callee dispatches on isinstance(., int) unsanitised", 10)
    flow = NpIntFlow(prog)
    nsinks = sum(len(v) for v in flow.sink_params.values())
    col.note("isinstance(., int|Player) dispatch sinks derived from the package: " +
             ", ".join(f"{q.replace(P, '')}({','.join(sorted(ps))})" for q, ps in sorted(flow.sink_params.items())))
    if nsinks < 5:
        raise AnalysisError(f"only {nsinks} int-dispatch sinks found (Coalition operators changed shape)")
    seen = set()
    targets = []
    for key, ref, *_ in generator_targets(prog):
        if ref is not None and ref.qual not in seen:
            seen.add(ref.qual)
            targets.append(ref)
    # plus the other modules that index coalitions with drawn integers
    for r in prog.all_functions():
        if r.qual not in seen and not r.module.name.endswith(".generators"):
            ft = fterms(prog, r)
            if any(e.name in NPINT_SOURCES_METHODS or is_global(e.func, *NPINT_SOURCE_FUNCS) for e in ft.calls()):
                seen.add(r.qual)
                targets.append(r)
    for ref in targets:
        fs = flow.findings(ref)
        uniq = []
        for ev, msg in fs:
            if msg not in [m for _, m in uniq]:
                uniq.append((ev, msg))
        if not uniq:
            col.ok(ref.where(), ref.short, "no unsanitised NumPy integer reaches an int-dispatching operand")
        for ev, msg in uniq:
            col.violation(ref.where(ev.node), ref.short, "npint-sink", msg,
                          "np.int64 is not an int: the dispatch falls through to `.id` and raises AttributeError for EVERY seed")


# --------------------------------------------------------------------------------------
# N-rng
# --------------------------------------------------------------------------------------

def _gen_param(ref: FuncRef) -> str | None:
    for a in ref.node.args.posonlyargs + ref.node.args.args:
        ann = ast.unparse(a.annotation) if a.annotation is not None else ""
        if "random.Generator" in ann or a.arg in ("generator", "rng"):
            return a.arg
    return None


def _is_rng_ctor(t: Term) -> bool:
    return is_call_to(t, "numpy.random.default_rng", "numpy.random.Generator", "random.Random", "numpy.random.RandomState")


def _module_level_rngs(prog: Program) -> set[str]:
    out = set()
    for m in prog.modules.values():
        for name, val in m.assigns.items():
            if isinstance(val, ast.Call):
                q = prog.resolve(m, val.func)
                if q in ("numpy.random.default_rng", "numpy.random.Generator", "random.Random", "numpy.random.RandomState"):
                    out.add(f"{m.name}.{name}")
    return out


def rule_nrng(prog: Program, col: Collector) -> None:
    col.rule("N-rng", "in every generator reachable from the registry each random draw comes from the `generator` parameter (or a locally seeded RNG) and the parameter is handed on to every callee that draws", 10)
    mod_rngs = _module_level_rngs(prog)
    col.note(f"module-level RNG objects: {sorted(q.replace(P, '') for q in mod_rngs)}")
    entries = generator_targets(prog)
    # reachable generator functions (targets + package callees that take a generator)
    todo = [ref for _, ref, *_ in entries if ref is not None]
    seen: dict[str, FuncRef] = {}
    while todo:
        r = todo.pop()
        if r.qual in seen:
            continue
        seen[r.qual] = r
        ft = fterms(prog, r)
        for e in ft.calls():
            c = resolve_callee(prog, ft, e)
            if c is not None and c.module.name.endswith(".generators") and c.qual not in seen:
                todo.append(c)
        # default-argument callables and generator functions referenced as values
        for ev in ft.events:
            for v in ev.data.values():
                if isinstance(v, tuple):
                    for s in subterms(v):
                        if s[0] == "global" and s[1].startswith(P + "generators."):
                            fr = prog.find_func(s[1])
                            if fr is not None and fr.qual not in seen:
                                todo.append(fr)
        for d in ft.param_defaults.values():
            q = prog.resolve(r.module, d) if isinstance(d, (ast.Name, ast.Attribute)) else None
            fr = prog.find_func(q) if q else None
            if fr is not None and fr.qual not in seen and fr.module.name.endswith(".generators"):
                todo.append(fr)
    if len(seen) < 10:
        raise AnalysisError(f"only {len(seen)} generator functions reachable from the registry")
    for q, ref in sorted(seen.items()):
        gp = _gen_param(ref)
        exc = RNG_EXCEPTIONS.get(ref.short)
        ft = fterms(prog, ref)
        problems = []
        ndraw = 0
        local_rngs = {e.value for e in ft.of_kind("assign") if _is_rng_ctor(e.value)}
        seeded_local = {t for t in local_rngs if t[2] or t[3]}

        def rng_root(t: Term) -> Term:
            while isinstance(t, tuple) and t[0] in ("attr", "index"):
                t = t[1]
            return t

        def ok_receiver(t: Term) -> bool:
            root = rng_root(t)
            if gp is not None and root == ("param", gp):
                return True
            if t in seeded_local or root in seeded_local:
                return True
            if root[0] in ("phi", "ifexp") and all(ok_receiver(x) for x in (root[2], root[3])):
                return True
            return False
        for e in ft.calls():
            f = e.func
            # draws on an RNG-like receiver
            if e.recv is not None and e.name in GEN_DRAW_METHODS:
                root = rng_root(e.recv)
                rng_like = (root[0] == "param" and root[1] == gp) or (root[0] == "global" and root[1] in mod_rngs) or _is_rng_ctor(root) \
                    or root in local_rngs or (root[0] == "global" and root[1] in ("numpy.random", "random"))
                if rng_like:
                    ndraw += 1
                    if not ok_receiver(e.recv):
                        problems.append((e, f"draw {short(e.term, 60)} is not from the `{gp}` parameter"))
            if f[0] == "global" and (f[1].startswith("numpy.random.") or f[1].startswith("random.")) and \
                    f[1].rsplit(".", 1)[-1] in GEN_DRAW_METHODS and not f[1].startswith("numpy.random.Generator."):
                ndraw += 1
                problems.append((e, f"draw from the process-global RNG {f[1]}"))
            # callees that take a generator must receive ours
            callee = resolve_callee(prog, ft, e)
            if callee is not None and callee.module.name.endswith(".generators"):
                cgp = _gen_param(callee)
                if cgp is not None:
                    cp = callee.positional_params()
                    idx = cp.index(cgp)
                    passed = e.args[idx] if idx < len(e.args) else e.kwargs.get(cgp)
                    ndraw += 1
                    if passed is None or not ok_receiver(passed):
                        problems.append((e, f"{callee.short}(...) is called without this generator's RNG (falls back to its unseeded default)"))
            # callable parameters that are generator-like (additive_gen, graph_gen, weights_dist_fn)
            if f[0] == "param" and f[1] != gp:
                ann = ""
                for a in ref.node.args.posonlyargs + ref.node.args.args + ref.node.args.kwonlyargs:
                    if a.arg == f[1] and a.annotation is not None:
                        ann = ast.unparse(a.annotation)
                if any(w in ann for w in ("Generator", "GeneratorFn", "GraphGen")):
                    ndraw += 1
                    passed_any = any(ok_receiver(a) for a in list(e.args) + list(e.kwargs.values()) if isinstance(a, tuple))
                    if not passed_any:
                        problems.append((e, f"callable parameter {f[1]}(...) is invoked without the generator"))
        # lambdas / defaults that capture module-level RNGs
        for dname, d in ft.param_defaults.items():
            for n in ast.walk(d):
                if isinstance(n, (ast.Name, ast.Attribute)):
                    qd = prog.resolve(ref.module, n)
                    if qd in mod_rngs:
                        ndraw += 1
                        problems.append((ref.node, f"default of `{dname}` draws from the module-level RNG {qd.replace(P, '')}"))
                        break
        if exc:
            col.ok(ref.where(), ref.short, f"RNG-source discipline waived - {exc}" + (f" ({len(problems)} draw(s) outside the parameter)" if problems else ""))
            continue
        if not problems:
            col.ok(ref.where(), ref.short, f"{ndraw} draw / hand-over site(s), all from the `{gp}` parameter or a locally seeded RNG")
        for e, msg in problems:
            col.violation(ref.where(e if isinstance(e, ast.AST) else e.node), ref.short, "rng-source", msg,
                          "identically seeded calls must return identical games: a draw from any other RNG is not a function of the seed")
    # registry-level: partials over bound methods of module-level RNGs only below the excepted targets
    for key, ref, args, kwargs, entry, callee, module, env in entries:
        uses_mod_rng = []
        for k, v in kwargs.items():
            if isinstance(v, ast.Name) and isinstance(env.get(v.id), ast.AST):
                v = env[v.id]
            for n in ast.walk(v):
                if isinstance(n, (ast.Name, ast.Attribute)):
                    qd = prog.resolve(module, n)
                    if qd is not None and any(qd == m or qd.startswith(m + ".") for m in mod_rngs):
                        uses_mod_rng.append(k)
                        break
        if uses_mod_rng:
            ok = ref is not None and ref.short in RNG_EXCEPTIONS
            col.check(ok, f"{entry.module.rel()}:{entry.node.lineno}", "generators.GENERATORS",
                      f"GENERATORS[{key!r}] binds {uses_mod_rng} to the module-level RNG: only below a documented exception",
                      construct=f"registry-mod-rng:{key}", necessity="a seeded family must not draw from the unseeded module-level RNG")


# --------------------------------------------------------------------------------------
# N-ext / N-fac
# --------------------------------------------------------------------------------------

# documented preconditions of external graph generators for the smallest offered player count (n = 3):
# one line per entry with the source of the constraint
EXTERNAL_PRECONDITIONS = {
    "networkx.connected_watts_strogatz_graph": ("k", lambda k: isinstance(k, int) and k <= 3,
                                                "networkx raises NetworkXError when k > n; the registry is offered from n = 3 upwards"),
    "networkx.gnp_random_graph": ("p", lambda p: isinstance(p, (int, float)) and 0 <= p <= 1, "a probability"),
    "networkx.random_geometric_graph": ("radius", lambda r: isinstance(r, (int, float)) and r > 0, "a positive radius"),
}


def rule_next_nfac(prog: Program, col: Collector) -> None:
    col.rule("N-ext", "literal arguments bound to external graph generators satisfy their documented preconditions at the smallest player count", 1)
    n = 0
    for key, ref, args, kwargs, entry, callee, module, env in generator_targets(prog):
        for k, v in kwargs.items():
            if isinstance(v, ast.Name) and isinstance(env.get(v.id), ast.AST):
                v = env[v.id]
            inner, iargs, ikw, imod, _ = unwrap_partial(prog, module, v, env)
            iq = prog.resolve(imod, inner)
            if iq in EXTERNAL_PRECONDITIONS:
                pname, pred, why = EXTERNAL_PRECONDITIONS[iq]
                if pname in ikw:
                    try:
                        val = ast.literal_eval(ikw[pname])
                    except Exception:
                        col.undecidable(f"{entry.module.rel()}:{entry.node.lineno}", "generators.GENERATORS", f"{iq}({pname}=...) is not a literal", rule="N-ext")
                        continue
                    n += 1
                    col.check(bool(pred(val)), f"{entry.module.rel()}:{entry.node.lineno}", "generators.GENERATORS",
                              f"GENERATORS[{key!r}]: {iq.rsplit('.', 1)[1]}({pname}={val}) - {why}", construct=f"external-precondition:{key}",
                              necessity="every offered generator must be invocable for every player count from 3 upwards", rule="N-ext")
    if n == 0:
        raise AnalysisError("no external graph generator with a literal precondition found (registry changed shape)")

    col.rule("N-fac", "owner-gated factory values: a coalition without the owner is stored with the literal value 0 (value_fn is applied to owner coalitions only)", 2)
    for fname in ("generators.factory_generator", "generators.factory_cheerleader_generator"):
        ref = prog.func(fname)
        ft = fterms(prog, ref)
        sets = [e for e in ft.calls("set_value") if any(f[0] == "for" for f in e.ctx) and len(e.args) == 2]
        if not sets:
            raise AnalysisError(f"{fname}: no set_value inside the coalition loop")

        def owner_test(t):
            """+1 if t means 'owner in coalition', -1 if 'owner not in coalition', 0 otherwise."""
            pol = 1
            while t[0] == "un" and t[1] == "not":
                t, pol = t[2], -pol
            if t[0] == "cmp" and t[1] in ("in", "not in") and any(s2[0] in ("call", "phi", "param") for s2 in [t[2]]) and "owner" in show(t[2]):
                return pol if t[1] == "in" else -pol
            return 0
        zero_ok = False
        bad = None
        for e in sets:
            val = e.args[0]
            g = 0
            for f in e.ctx:
                if f[0] == "if":
                    o = owner_test(f[1])
                    if o:
                        g = o if f[2] else -o
            if g == -1:
                if val == ("const", 0):
                    zero_ok = True
                else:
                    bad = (e, f"a coalition without the owner is stored with {short(val, 50)}")
            elif g == 0:
                # unguarded store: the value itself must select the literal 0 for non-owner coalitions
                def without_owner(v) -> set:
                    """The values ``v`` can take for a coalition without the owner (conditional expressions / branch-assigned names resolved)."""
                    if v[0] in ("ifexp", "phi"):
                        o = owner_test(v[1])
                        if o == 1:
                            return without_owner(v[3])
                        if o == -1:
                            return without_owner(v[2])
                        return without_owner(v[2]) | without_owner(v[3])
                    return {v}
                ok_sel = val[0] in ("ifexp", "phi") and without_owner(val) == {("const", 0)}
                if ok_sel:
                    zero_ok = True
                else:
                    bad = (e, f"the stored value {short(val, 60)} is not the literal 0 for coalitions without the owner")
        col.check(zero_ok and bad is None, ref.where((bad[0] if bad else sets[0]).node), ref.short,
                  "coalitions without the owner get the literal value 0" + (f" ({bad[1]})" if bad else ""), construct="factory-non-owner-zero",
                  necessity="value_fn(0) is not 0 for the registered exp / constant-1 value functions: the empty coalition would get a non-zero value and "
                            "the game would not be superadditive (the in-code assertion then fails for every call of that CLI choice)", rule="N-fac")


# --------------------------------------------------------------------------------------
# N-idx: a randomly drawn index stays inside the sequence it indexes
# --------------------------------------------------------------------------------------

def _strip_int(t):
    while isinstance(t, tuple) and t[0] == "call" and t[1] in (("global", "int"), ("global", "numpy.int64"), ("global", "operator.index")) and len(t[2]) == 1:
        t = t[2][0]
    return t


def _drawn_bound(t):
    """hi of ``rng.integers(hi)`` / ``rng.integers(lo, hi)`` / ``randrange(hi)`` if ``t`` is such a draw (int()-wrapping stripped), else None."""
    t = _strip_int(t)
    if isinstance(t, tuple) and t[0] == "call" and t[1][0] == "attr" and t[1][2] in ("integers", "randint", "randrange"):
        kw = dict(t[3])
        if "endpoint" in kw or t[1][2] == "randint" and t[1][1][0] != "global":
            return ("unknown", "inclusive upper end")
        if "high" in kw:
            return kw["high"]
        if len(t[2]) == 1:
            return t[2][0]
        if len(t[2]) >= 2:
            return t[2][1]
    return None


def _length_relation(seq, hi) -> str:
    """'equal' / 'shorter' / 'unknown': how len(seq) relates to the exclusive bound hi."""
    if hi == ("call", ("global", "len"), (seq,), ()):
        return "equal"
    inner = seq
    while isinstance(inner, tuple) and inner[0] == "call" and inner[1] in (("global", "list"), ("global", "tuple"), ("global", "sorted")) and len(inner[2]) == 1:
        inner = inner[2][0]
    if is_call_to(inner, "range") and inner[2] in ((hi,), (("const", 0), hi)):
        return "equal"
    if is_call_to(inner, "numpy.arange") and inner[2][:1] == (hi,) and len(inner[2]) == 1:
        return "equal"
    if is_call_to(inner, "numpy.zeros", "numpy.ones", "numpy.empty", "numpy.full") and inner[2][:1] == (hi,):
        return "equal"
    if isinstance(inner, tuple) and inner[0] == "comp" and len(inner[3]) == 1:
        _el, it, conds = inner[3][0]
        rel = _length_relation(it, hi)
        if rel == "equal":
            return "shorter" if conds else "equal"
        return rel
    if isinstance(inner, tuple) and inner[0] == "index" and inner[2][0] == "slice":
        return "unknown"
    return "unknown"


def rule_nidx(prog: Program, col: Collector) -> None:
    col.rule("N-idx", "an index drawn with rng.integers(hi) only subscripts a sequence of exactly hi elements (or len(seq) is the bound)", 1)
    # positive control: the shape the rule exists for
    n = ("param", "n")
    seq = ("comp", "list", ("elem", "x"), ((("elem", "x"), ("call", ("global", "range"), (n,), ()), (("cmp", "!=", ("elem", "x"), ("param", "o")),)),))
    if _length_relation(seq, n) != "shorter" or _drawn_bound(("call", ("global", "int"), (("call", ("attr", ("param", "g"), "integers"), (n,), ()),), ())) != n:
        raise AnalysisError("N-idx positive control failed")
    nfun = nsite = 0
    for ref in prog.all_functions():
        if not ref.module.name.endswith(".generators"):
            continue
        nfun += 1
        ft = fterms(prog, ref)
        seen = set()
        for ev in ft.events:
            for v in ev.data.values():
                if not isinstance(v, tuple):
                    continue
                for t in subterms(v):
                    if t[0] != "index" or t in seen:
                        continue
                    hi = _drawn_bound(t[2])
                    if hi is None:
                        continue
                    seen.add(t)
                    nsite += 1
                    rel = _length_relation(t[1], hi)
                    what = f"{short(t[1], 60)}[<drawn below {short(hi, 30)}>]"
                    if rel == "equal":
                        col.ok(ref.where(ev.node), ref.short, f"{what}: the sequence has exactly that many elements")
                    elif rel == "shorter":
                        col.violation(ref.where(ev.node), ref.short, "random-index-out-of-range", f"{what}: the sequence is a filtered selection and has fewer elements than the bound of the draw",
                                      "for the seeds whose draw lands past the end the generator raises IndexError: the registry key cannot be invoked for every seed")
                    else:
                        col.undecidable(ref.where(ev.node), ref.short, f"{what}: cannot relate the length of the sequence to the bound of the draw")
    if nfun == 0:
        raise AnalysisError("N-idx: generators module not found")
    if nsite == 0:
        col.ok("-", "generators", f"no randomly drawn subscript in {nfun} generator functions (positive control matched)")


# --------------------------------------------------------------------------------------
# N-range: a draw `rng.integers(lo, hi)` has a non-empty range for the smallest player count (3)
# --------------------------------------------------------------------------------------

def _fold_n(t, n_terms: tuple, n: int):
    """Constant folding of an integer expression in the player count (None when something else occurs)."""
    if not isinstance(t, tuple):
        return None
    if t in n_terms:
        return n
    if t[0] == "const" and isinstance(t[1], int) and not isinstance(t[1], bool):
        return t[1]
    if t[0] == "bin" and t[1] in ("+", "-", "*", "//", "**"):
        a, b = _fold_n(t[2], n_terms, n), _fold_n(t[3], n_terms, n)
        if a is None or b is None:
            return None
        try:
            return {"+": a + b, "-": a - b, "*": a * b, "//": a // b if b else None, "**": a ** b if 0 <= b < 32 else None}[t[1]]
        except Exception:
            return None
    if t[0] == "un" and t[1] == "-":
        a = _fold_n(t[2], n_terms, n)
        return None if a is None else -a
    if is_call_to(t, "int") and len(t[2]) == 1:
        return _fold_n(t[2][0], n_terms, n)
    return None


def rule_nrange(prog: Program, col: Collector) -> None:
    col.rule("N-range", "every integer draw whose bounds are expressions in the player count has a non-empty range for n = 3, 4, ... (lo < hi)", 3)
    nsite = 0
    for ref in prog.all_functions():
        if not ref.module.name.endswith(".generators"):
            continue
        pp = ref.positional_params()
        if not pp or "player" not in pp[0]:
            continue
        npar = (("param", pp[0]),)
        ft = fterms(prog, ref)
        for e in ft.calls():
            if e.recv is None or e.name not in ("integers", "randrange", "randint"):
                continue
            kw = e.kwargs
            if len(e.args) == 1:
                lo, hi = ("const", 0), e.args[0]
            elif len(e.args) >= 2:
                lo, hi = e.args[0], e.args[1]
            else:
                continue
            if "high" in kw:
                hi = kw["high"]
            inclusive = e.name == "randint" or kw.get("endpoint") == ("const", True)
            worst = None
            for n in (3, 4, 5, 8):
                a, b = _fold_n(lo, npar, n), _fold_n(hi, npar, n)
                if a is None or b is None:
                    worst = "unknown"
                    break
                if (b < a) if inclusive else (b <= a):
                    worst = (n, a, b)
                    break
            if worst == "unknown":
                continue          # bounds that do not depend on the player count alone are not this rule's business
            nsite += 1
            if worst is None:
                col.ok(ref.where(e.node), ref.short, f"{short(e.term, 60)}: non-empty for n = 3, 4, 5, 8")
            else:
                col.violation(ref.where(e.node), ref.short, "empty-draw-range", f"{short(e.term, 60)} has the empty range [{worst[1]}, {worst[2]}) for {worst[0]} players",
                              "numpy raises `ValueError: low >= high` on every call: the registry entry cannot be invoked for that player count, whatever the seed")
    if nsite == 0:
        raise AnalysisError("N-range: no integer draw with bounds in the player count found (anchor vanished)")
