"""C19 (saved results faithful / never overwritten) and C20 (crash-atomic save).

All rules start from the registry ``run.save.SAVERS`` and the ``save`` dispatcher, so the
saver is found through the package's own table, not by its name.
"""
from __future__ import annotations

import ast

from ..core import AnalysisError, AnchorMissing, FuncRef, Program, registry, src
from ..report import Collector
from ..terms import Term, is_call_to, is_global, show, subterms
from .common import const_of, fterms, has_subterm, resolve_callee, short

WRITE_MODE_CHARS = set("wax+")
TEMPFILE_FUNCS = ("tempfile.NamedTemporaryFile", "tempfile.mkstemp", "tempfile.mktemp", "tempfile.TemporaryFile",
                  "tempfile.SpooledTemporaryFile")
REPLACE_FUNCS = ("os.replace", "os.rename", "shutil.move")
COPY_FUNCS = ("shutil.copy", "shutil.copy2", "shutil.copyfile", "numpy.save", "numpy.savetxt", "numpy.savez")
REMOVE_FUNCS = ("os.remove", "os.unlink", "shutil.rmtree")


def json_saver(prog: Program) -> FuncRef:
    entries = registry(prog, "run.save.SAVERS")
    for e in entries:
        if e.key == "data.json":
            q = prog.resolve(e.module, e.value)
            r = prog.find_func(q) if q else None
            if r is None:
                raise AnchorMissing("SAVERS['data.json'] does not resolve to a function of the package")
            return r
    raise AnchorMissing("SAVERS has no 'data.json' entry")


# --------------------------------------------------------------------------------------
# path classification
# --------------------------------------------------------------------------------------

def _tempfile_call(t: Term) -> Term | None:
    """The tempfile.* call a term denotes the name / handle of, if any."""
    seen = 0
    while isinstance(t, tuple) and seen < 6:
        seen += 1
        if is_call_to(t, *TEMPFILE_FUNCS):
            return t
        if t[0] == "attr" and t[2] == "name":
            t = t[1]
        elif t[0] == "with":
            t = t[1]
        elif t[0] == "index":
            t = t[1]
        else:
            return None
    return None


def path_kind(t: Term, dests: set[Term]) -> str:
    """'dest' | 'sibling' (same directory as dest, derived from it) | 'foreign' | 'unknown'."""
    if t in dests:
        return "dest"
    if t[0] == "call" and is_global(t[1], "pathlib.Path", "str", "os.fspath") and len(t[2]) == 1 and t[2][0] in dests:
        return "dest"
    tc = _tempfile_call(t)
    if tc is not None:
        d = dict(tc[3]).get("dir")
        if d is not None and any(has_subterm(d, x) for x in dests):
            return "sibling"
        return "foreign"
    if any(has_subterm(t, x) for x in dests):
        return "sibling"
    if t[0] in ("param", "unknown", "loopmod"):
        return "unknown"
    return "foreign"


def _mode_of(ev, pos: int) -> str | None:
    m = ev.kwargs.get("mode")
    if m is None and len(ev.args) > pos:
        m = ev.args[pos]
    if m is None:
        return "r"
    try:
        v = const_of(m)
    except ValueError:
        return None
    return v if isinstance(v, str) else None


class _Write:
    def __init__(self, ev, ref: FuncRef, path: Term, kind: str, how: str, close_seq, seq) -> None:
        self.ev, self.ref, self.path, self.kind, self.how, self.close_seq, self.seq = ev, ref, path, kind, how, close_seq, seq


class _Replace:
    def __init__(self, ev, ref: FuncRef, source: Term, target: Term, seq) -> None:
        self.ev, self.ref, self.source, self.target, self.seq = ev, ref, source, target, seq


def _lin_ast(e: ast.expr) -> dict | None:
    """Integer linear form of an expression over its names: {name: coef, 1: const}."""
    if isinstance(e, ast.Constant) and type(e.value) is int:
        return {1: e.value}
    if isinstance(e, ast.Name):
        return {e.id: 1}
    if isinstance(e, ast.UnaryOp) and isinstance(e.op, ast.USub):
        a = _lin_ast(e.operand)
        return None if a is None else {k: -v for k, v in a.items()}
    if isinstance(e, ast.BinOp) and isinstance(e.op, (ast.Add, ast.Sub)):
        a, b = _lin_ast(e.left), _lin_ast(e.right)
        if a is None or b is None:
            return None
        out = dict(a)
        for k, v in b.items():
            out[k] = out.get(k, 0) + (v if isinstance(e.op, ast.Add) else -v)
        return {k: v for k, v in out.items() if v}
    return None


def decorator_transparency(prog: Program, module, dec: ast.expr) -> tuple[str, str]:
    """Does a decorator on a function of the writing path pass every failure of the wrapped call on?  ("ok" | "violation" | "undecided", why).

    Understood: a package decorator (plain, or a factory called with arguments) whose innermost wrapper calls the wrapped function; a handler
    around that call must re-raise, unconditionally - or, inside ``for i in range(lo, hi)``, under a test ``i == E`` / ``i >= E`` with E = hi - 1
    as integer linear forms (the last attempt), so that the wrapper cannot end normally without the call having ended normally."""
    target = dec.func if isinstance(dec, ast.Call) else dec
    q = prog.resolve(module, target)
    if q in ("functools.wraps",):
        return "ok", ""
    ref = prog.find_func(q) if q and q.startswith("incomplete_cooperative") else None
    if ref is None:
        return "undecided", f"decorator {src(dec)[:50]} on a function of the writing path is not a package function: whether it passes failures on is not known"
    # the wrapped function: a parameter of the decorator (plain) or of the inner `decorator(func)` (factory)
    defs = [n for n in ast.walk(ref.node) if isinstance(n, ast.FunctionDef)]
    calls = []
    for d in defs:
        outer_params = {a.arg for o in defs if o is not d and any(x is d for x in ast.walk(o)) for a in o.args.args + o.args.posonlyargs}
        if d is not ref.node or True:
            for n in ast.walk(d):
                if isinstance(n, ast.Call) and isinstance(n.func, ast.Name) and n.func.id in outer_params and n.func.id not in {a.arg for a in d.args.args}:
                    if not any(isinstance(x, ast.FunctionDef) and x is not d and any(y is n for y in ast.walk(x)) for x in ast.walk(d)):
                        calls.append((d, n))
    if not calls:
        return "undecided", f"decorator {ref.short}: the call of the wrapped function was not found"
    for wrapper, call in calls:
        # a memoising wrapper: the wrapped call sits under a membership test on a container of the decorator (`if key not in known: known[key] = f(..)`)
        # - then every argument that reaches the wrapped function is part of the key
        wparams = [a.arg for a in wrapper.args.posonlyargs + wrapper.args.args + wrapper.args.kwonlyargs]
        for node in ast.walk(wrapper):
            if isinstance(node, ast.If) and any(x is call for x in ast.walk(node)) and isinstance(node.test, ast.Compare) and len(node.test.ops) == 1 \
                    and isinstance(node.test.ops[0], (ast.In, ast.NotIn)) and isinstance(node.test.comparators[0], ast.Name):
                key = node.test.left
                names = {n.id for n in ast.walk(key) if isinstance(n, ast.Name)}
                # one level of local definitions: key = int(coalition)
                for st in wrapper.body:
                    if isinstance(st, ast.Assign) and len(st.targets) == 1 and isinstance(st.targets[0], ast.Name) and st.targets[0].id in names:
                        names |= {n.id for n in ast.walk(st.value) if isinstance(n, ast.Name)}
                passed = {n.id for a in list(call.args) + [k.value for k in call.keywords] for n in ast.walk(a) if isinstance(n, ast.Name)} & set(wparams)
                missing = sorted(passed - names)
                if wrapper.args.vararg is not None and wrapper.args.vararg.arg in names:
                    missing = []
                if missing:
                    return "violation", (f"decorator {ref.short} memoises by {src(key)[:40]}: the argument(s) {missing} reach the wrapped function but are not part of the key - "
                                         "the first call fixes the result for every later call that differs only there (another player count, another game)")
        # chain of statements from the wrapper body down to the call
        def chain(stmts, acc):
            for st in stmts:
                if any(x is call for x in ast.walk(st)):
                    acc.append(st)
                    for fld in ("body", "orelse", "finalbody"):
                        sub = getattr(st, fld, None)
                        if isinstance(sub, list) and any(any(x is call for x in ast.walk(y)) for y in sub):
                            chain(sub, acc)
                    return acc
            return acc
        path = chain(wrapper.body, [])
        loops = [st for st in path if isinstance(st, (ast.For, ast.While))]
        for t in [st for st in path if isinstance(st, ast.Try)]:
            if not any(any(x is call for x in ast.walk(y)) for y in t.body):
                continue
            for h in t.handlers:
                last = h.body[-1] if h.body else None
                if isinstance(last, ast.Raise):
                    continue                                    # passes the failure on (possibly converted)
                cond = [st for st in h.body if isinstance(st, ast.If) and st.body and isinstance(st.body[-1], ast.Raise)]
                loop = loops[-1] if loops else None
                if cond and isinstance(loop, ast.For) and isinstance(loop.target, ast.Name) and isinstance(loop.iter, ast.Call) \
                        and isinstance(loop.iter.func, ast.Name) and loop.iter.func.id == "range" and 1 <= len(loop.iter.args) <= 2 and not loop.orelse:
                    hi = loop.iter.args[-1]
                    test = cond[0].test
                    if isinstance(test, ast.Compare) and len(test.ops) == 1 and isinstance(test.ops[0], (ast.Eq, ast.GtE)) \
                            and isinstance(test.left, ast.Name) and test.left.id == loop.target.id:
                        want = _lin_ast(ast.BinOp(left=hi, op=ast.Sub(), right=ast.Constant(value=1)))
                        have = _lin_ast(test.comparators[0])
                        if want is not None and have is not None:
                            if have == want:
                                continue
                            return "violation", (f"decorator {ref.short}: the handler re-raises only when {src(test)}, but the last iteration of "
                                                 f"`for {loop.target.id} in {src(loop.iter)}` is {loop.target.id} = {src(hi)} - 1: after the last failed attempt the wrapper returns normally")
                    return "undecided", f"decorator {ref.short}: conditional re-raise `{src(test)[:40]}` not understood"
                if not any(isinstance(n, ast.Raise) for st in h.body for n in ast.walk(st)):
                    if loops:
                        # swallowed inside a retry loop: fine only if the wrapper cannot leave the loop normally
                        after = wrapper.body[wrapper.body.index(path[0]) + 1:] if path and path[0] in wrapper.body else []
                        if (loop_else_raises(loops[-1]) or (after and isinstance(after[-1], ast.Raise))):
                            continue
                    return "violation", f"decorator {ref.short}: a failure of the wrapped call ({src(h.type) if h.type is not None else 'any exception'}) is swallowed and the wrapper returns normally"
                return "undecided", f"decorator {ref.short}: handler around the wrapped call not understood"
    return "ok", ""


def loop_else_raises(loop) -> bool:
    return bool(loop.orelse) and isinstance(loop.orelse[-1], ast.Raise)


class SaverModel:
    """Writes, replaces, removals and serialised objects reachable from the saver (helpers inlined)."""

    def __init__(self, prog: Program, saver: FuncRef) -> None:
        self.prog = prog
        self.saver = saver
        self.writes: list[_Write] = []
        self.replaces: list[_Replace] = []
        self.removes: list[tuple] = []
        self.dumps: list[tuple] = []      # (ev, ref, obj term, file term)
        self.undecided: list[tuple] = []
        self.functions: list[str] = []
        params = saver.positional_params()
        if not params:
            raise AnalysisError(f"{saver.short} has no positional parameter for the destination path")
        self.dest_param = params[0]
        self.wrapper_issues: list[tuple] = []      # (ref, node, "violation" | "undecided", message)
        self._collect(saver, {("param", params[0])}, (), 0)

    def _collect(self, ref: FuncRef, dests: set[Term], prefix: tuple, depth: int, siblings: dict | None = None) -> None:
        siblings = siblings or {}       # parameter of this helper -> the caller's term for the temporary sibling it was given
        try:
            n0 = len(self.writes)
            self._collect_(ref, dests, prefix, depth, siblings)
        finally:
            for w in self.writes[n0:]:
                if w.path in siblings:
                    w.path = siblings[w.path]

    def _collect_(self, ref: FuncRef, dests: set[Term], prefix: tuple, depth: int, siblings: dict) -> None:
        ft = fterms(self.prog, ref)
        self.functions.append(ref.short)
        _pk = globals()["path_kind"]

        def path_kind(path, dests_):        # a parameter that the caller bound to a temporary sibling of the destination is one here too
            return "sibling" if path in siblings else _pk(path, dests_)
        with_exit = {e.uid: e.seq for e in ft.of_kind("with_exit")}
        with_enter = [e for e in ft.of_kind("with_enter")]

        def close_seq_for(call_ev) -> tuple | None:
            for we in with_enter:
                node = we.node
                for it in node.items:
                    if it.context_expr is call_ev.node:
                        return prefix + (with_exit[we.uid],)
            # explicit .close() on the value
            for e in ft.calls("close"):
                if e.recv == call_ev.term:
                    return prefix + (e.seq,)
            return None

        for ev in ft.calls():
            f = ev.func
            seq = prefix + (ev.seq,)
            # --- opens
            if ev.name == "open" and not is_global(f, "os.open"):
                if f[0] == "attr":
                    path, mode = f[1], _mode_of(ev, 0)
                elif is_global(f, "open", "io.open", "codecs.open") and ev.args:
                    path, mode = ev.args[0], _mode_of(ev, 1)
                else:
                    continue
                if mode is None:
                    self.undecided.append((ev, ref, "open() with a mode that is not a string literal"))
                    continue
                if WRITE_MODE_CHARS & set(mode):
                    w = _Write(ev, ref, path, path_kind(path, dests), f"open(mode={mode!r})", close_seq_for(ev), seq)
                    w.fresh = bool(set(mode) & {"w", "x"})
                    buf = ev.kwargs.get("buffering")
                    if buf is None:
                        pos = 1 if f[0] == "attr" else 2
                        buf = ev.args[pos] if len(ev.args) > pos else None
                    w.unbuffered = buf == ("const", 0)
                    self.writes.append(w)
                continue
            if is_global(f, "os.open") and ev.args:
                flags = ev.args[1] if len(ev.args) > 1 else ev.kwargs.get("flags")
                names = {x[1].rsplit(".", 1)[-1] for x in subterms(flags) if x[0] == "global" and x[1].startswith("os.O_")} if flags is not None else set()
                if names & {"O_WRONLY", "O_RDWR", "O_CREAT", "O_APPEND", "O_TRUNC"}:
                    w = _Write(ev, ref, ev.args[0], path_kind(ev.args[0], dests), "os.open(" + "|".join(sorted(names)) + ")", None, seq)
                    w.fresh = bool(names & {"O_TRUNC", "O_EXCL"})
                    w.fd_term = ev.term
                    self.writes.append(w)
                continue
            if is_global(f, "os.fdopen") and ev.args:
                # the descriptor of an os.open() seen before: the file object writes to that path; remember where it is closed
                for w0 in self.writes:
                    if getattr(w0, "fd_term", None) == ev.args[0]:
                        w0.close_seq = close_seq_for(ev)
                        break
                else:
                    mode = _mode_of(ev, 1)
                    if mode is None or WRITE_MODE_CHARS & set(mode):
                        self.writes.append(_Write(ev, ref, ev.args[0], path_kind(ev.args[0], dests), "os.fdopen",
                                                  close_seq_for(ev), seq))
                continue
            if False and is_global(f, "os.fdopen") and ev.args:
                mode = _mode_of(ev, 1)
                if mode is None or WRITE_MODE_CHARS & set(mode):
                    self.writes.append(_Write(ev, ref, ev.args[0], path_kind(ev.args[0], dests), "os.fdopen",
                                              close_seq_for(ev), seq))
                continue
            if is_global(f, *TEMPFILE_FUNCS):
                if f[1].endswith("NamedTemporaryFile"):
                    mode = _mode_of(ev, 0) or "w+b"
                    self.writes.append(_Write(ev, ref, ev.term, path_kind(ev.term, dests), "NamedTemporaryFile",
                                              close_seq_for(ev), seq))
                continue
            if ev.name in ("write_text", "write_bytes") and f[0] == "attr":
                self.writes.append(_Write(ev, ref, f[1], path_kind(f[1], dests), ev.name, seq, seq))
                continue
            if is_global(f, *COPY_FUNCS):
                idx = 0 if f[1].startswith("numpy.") else 1
                if len(ev.args) > idx:
                    self.writes.append(_Write(ev, ref, ev.args[idx], path_kind(ev.args[idx], dests), f[1], seq, seq))
                continue
            # --- replaces
            if is_global(f, *REPLACE_FUNCS) and len(ev.args) >= 2:
                self.replaces.append(_Replace(ev, ref, ev.args[0], ev.args[1], seq))
                continue
            if ev.name in ("replace", "rename") and f[0] == "attr" and len(ev.args) == 1 \
                    and (path_kind(ev.args[0], dests) in ("dest", "sibling") or path_kind(f[1], dests) in ("dest", "sibling")):
                self.replaces.append(_Replace(ev, ref, f[1], ev.args[0], seq))
                continue
            # --- removals
            if is_global(f, *REMOVE_FUNCS) and ev.args:
                self.removes.append((ev, ref, ev.args[0], path_kind(ev.args[0], dests)))
                continue
            if ev.name in ("unlink", "rmdir") and f[0] == "attr":
                self.removes.append((ev, ref, f[1], path_kind(f[1], dests)))
                continue
            if ev.name == "truncate" and f[0] == "attr":
                self.writes.append(_Write(ev, ref, f[1], path_kind(f[1], dests), "truncate", seq, seq))
                continue
            # --- serialisation
            if is_global(f, "json.dump") and len(ev.args) >= 2:
                self.dumps.append((ev, ref, ev.args[0], ev.args[1]))
                continue
            if is_global(f, "json.dumps") and ev.args:
                self.dumps.append((ev, ref, ev.args[0], None))
                continue
            # --- helpers of the package that receive the destination (or something derived from it)
            callee = resolve_callee(self.prog, ft, ev)
            if callee is not None and self.prog.inlinable(callee) and callee.cls is None:
                if callee.short not in self.functions:
                    self.functions.append(callee.short)      # part of the saver: the term layer has read this helper through, its events are in `ft`
                continue
            if callee is not None and depth < 3 and callee.qual != ref.qual:
                cparams = callee.positional_params()
                if callee.cls is not None and cparams and cparams[0] == "self":
                    cparams = cparams[1:]
                mapped: set[Term] = set()
                sib: dict = {}
                for i, a in enumerate(ev.args):
                    if i < len(cparams) and a in dests:
                        mapped.add(("param", cparams[i]))
                    elif i < len(cparams) and path_kind(a, dests) == "sibling":
                        sib[("param", cparams[i])] = a
                for k, a in ev.kwargs.items():
                    if k is not None and a in dests:
                        mapped.add(("param", k))
                    elif k is not None and path_kind(a, dests) == "sibling":
                        sib[("param", k)] = a
                if mapped or sib:
                    for dec in callee.node.decorator_list:
                        verdict, msg = decorator_transparency(self.prog, callee.module, dec)
                        if verdict != "ok":
                            self.wrapper_issues.append((callee, dec, verdict, msg))
                    self._collect(callee, mapped, seq, depth + 1, sib)


def _model(prog: Program) -> SaverModel:
    return SaverModel(prog, json_saver(prog))


# --------------------------------------------------------------------------------------
# C20
# --------------------------------------------------------------------------------------

_READ_CALLS = {"load", "loads", "read_text", "read_bytes", "read", "open"}
_ABSENT_ONLY = {"FileNotFoundError"}


def _check_read_errors(prog: Program, col: Collector, m) -> None:
    """A6: a failure while READING the existing results is not "no results yet".  In every function in or below the saver (and in the
    dispatcher), a handler around a read of a file that swallows the error may catch FileNotFoundError only."""
    col.rule("A6", "an error while reading the stored results is never swallowed as `no results yet` (only FileNotFoundError may be handled)", 0)
    quals = list(m.functions)
    disp = prog.find_func("run.save.save")
    if disp is not None and disp.qual not in quals:
        quals.append(disp.qual)
    refs = [r for r in (prog.find_func(q) for q in quals) if r is not None]
    # helpers of the same module that the saver or the dispatcher calls (read through by the term layer, so not listed as functions of their own)
    seen = {r.qual for r in refs}
    for r in list(refs):
        for n in ast.walk(r.node):
            if isinstance(n, ast.Call) and isinstance(n.func, ast.Name):
                h = prog.find_func(f"{r.module.name}.{n.func.id}")
                if h is not None and h.qual not in seen:
                    seen.add(h.qual)
                    refs.append(h)
    for ref in refs:
        for t in ast.walk(ref.node):
            if not isinstance(t, ast.Try):
                continue
            reads = [n for st in t.body for n in ast.walk(st) if isinstance(n, ast.Call)
                     and ((isinstance(n.func, ast.Attribute) and n.func.attr in _READ_CALLS) or (isinstance(n.func, ast.Name) and n.func.id == "open"))]
            writes = [n for st in t.body for n in ast.walk(st) if isinstance(n, ast.Call) and isinstance(n.func, ast.Attribute) and n.func.attr in ("dump", "write", "write_text", "replace", "rename")]
            if not reads or writes:
                continue
            for h in t.handlers:
                swallowed = not any(isinstance(n, ast.Raise) for st in h.body for n in ast.walk(st))
                if not swallowed:
                    continue
                types = [h.type] if h.type is not None and not isinstance(h.type, ast.Tuple) else list(h.type.elts) if h.type is not None else []
                names = {(x.attr if isinstance(x, ast.Attribute) else getattr(x, "id", "?")) for x in types} or {"<bare except>"}
                decode_only = names <= {"JSONDecodeError", "ValueError"}
                if decode_only:
                    continue        # a file that does not parse holds no recoverable runs: outside this clause
                col.check(names <= _ABSENT_ONLY, ref.where(h), ref.short,
                          f"the handler around the read of the stored results catches {sorted(names)}: only a missing file means `no results yet`",
                          construct="read-error-as-empty",
                          necessity="EMFILE, EACCES or EIO while opening or reading an existing data.json are OSErrors too: treated as `file absent`, the save goes on with an "
                                    "empty mapping and atomically installs a file that holds only the new run - every earlier run is lost", rule="A6")


def rule_c20_atomic(prog: Program, col: Collector) -> None:
    m = _model(prog)
    saver = m.saver
    fn = saver.short
    col.rule("A1", "the results file itself is never opened for writing / truncated / copied onto in place", 1)
    if not m.writes:
        raise AnalysisError(f"no file write found in or below {fn}: the saver no longer writes, or uses an unknown API")
    for ev, ref, msg in m.undecided:
        col.undecidable(ref.where(ev.node), ref.short, msg, rule="A1")
    nec1 = ("opening the results file in a truncating/writing mode destroys the previous content before the new one is "
            "complete: a kill at any byte of the dump leaves an unparseable file and loses every earlier run")
    for w in m.writes:
        col.check(w.kind != "dest", w.ref.where(w.ev.node), w.ref.short,
                  f"write via {w.how} targets {short(w.path, 80)} [{w.kind}], not the destination itself",
                  construct=f"write-in-place:{w.how}", necessity=nec1, rule="A1")
    col.rule("A2", "new content goes to a temporary sibling in the destination's directory", 1)
    for w in m.writes:
        if w.kind == "dest":
            continue
        if w.kind == "unknown":
            col.undecidable(w.ref.where(w.ev.node), w.ref.short,
                            f"cannot relate written path {short(w.path, 80)} to the destination", rule="A2")
            continue
        col.check(w.kind == "sibling", w.ref.where(w.ev.node), w.ref.short,
                  f"temporary path {short(w.path, 80)} is derived from the destination (same directory / file system)",
                  construct=f"foreign-temp:{w.how}",
                  necessity="a temporary file on another file system cannot be renamed atomically onto the destination",
                  rule="A2")
    uname_param = ("param", saver.positional_params()[1]) if len(saver.positional_params()) > 1 else None
    for w in m.writes:
        if w.kind == "sibling" and uname_param is not None and w.ref.qual == saver.qual and has_subterm(w.path, uname_param):
            col.check(False, w.ref.where(w.ev.node), w.ref.short,
                      f"the temporary file's name is derived from the destination only, not from the run name (found {short(w.path, 70)})", construct="temp-name-from-run-name",
                      necessity="a run name is an arbitrary string: raw it makes an invalid or nested path (`sweep/lr-0.1/run-1`: the save raises and the run is never stored), "
                                "encoded it can BE the destination (`--unique-name data` stages into data.json itself: opened with 'w' the results file is truncated in place)", rule="A2")
    links = [e for q in m.functions for rr in [prog.find_func(q)] if rr is not None for e in fterms(prog, rr).calls()
             if is_global(e.func, "os.link", "os.symlink", "shutil.move") or (e.name in ("hardlink_to", "symlink_to", "link_to") and e.recv is not None)]
    for e in links:
        col.check(False, saver.where(e.node), saver.short, f"the completed temporary file is installed by one atomic replace, not by {short(e.func, 30)} + unlink",
                  construct="install-by-link",
                  necessity="link + unlink is two steps: a death in between leaves the temporary NAME as a second link to the results file's inode - the next save opens that name "
                            "with 'w' and truncates the results file in place, and os.replace between two links of one inode does nothing", rule="A3")
    for w in m.writes:
        if w.kind == "sibling" and getattr(w, "fresh", None) is False:
            col.check(False, w.ref.where(w.ev.node), w.ref.short, f"the temporary file is created fresh (truncating or exclusive open; found {w.how})", construct="temp-not-fresh",
                      necessity="a save that died earlier leaves its temporary file behind: opened without truncation, a shorter new content keeps the tail of the leftover, and the "
                                "replace installs a file that does not parse ('Extra data') - every stored run is lost one save after the crash", rule="A2")
    for w in m.writes:
        if getattr(w, "unbuffered", False):
            col.check(False, w.ref.where(w.ev.node), w.ref.short, "the temporary file is written through a buffered writer (found buffering=0)", construct="temp-unbuffered",
                      necessity="a raw write may store fewer bytes than it was given (file-size limit, quota, signal) and says so only in its return value: the truncated "
                                "temporary file is then closed without an error and installed over the results file", rule="A2")
    raw_writes = [e for r in m.functions for rr in [prog.find_func(r) or prog.func(r)] if rr is not None for e in fterms(prog, rr).calls()
                  if is_global(e.func, "os.write")]
    for e in raw_writes:
        col.check(False, saver.where(e.node), saver.short, "content is written through a file object, not os.write (whose short counts must be looped over)",
                  construct="temp-os-write", necessity="os.write may write fewer bytes than given", rule="A2")
    _check_read_errors(prog, col, m)
    col.rule("A7", "a wrapper (decorator) around a function of the writing path passes every failure of the wrapped call on", 0)
    for ref, node, verdict, msg in m.wrapper_issues:
        if verdict == "undecided":
            col.undecidable(ref.where(node), ref.short, msg, rule="A7")
        else:
            col.violation(ref.where(node), ref.short, "wrapper-swallows-failure", msg,
                          "a write that failed (disk full, quota, EIO) and is reported as done is followed by the replace: the half-written temporary file is installed "
                          "over the results file, which no longer parses - every stored run is lost", rule="A7")
    col.rule("A3", "the atomic replace(tmp, dest) comes after the temporary file is closed, on every path that wrote it", 0)
    dests = {("param", m.dest_param)}
    for w in m.writes:
        if w.kind != "sibling":
            continue
        root = _tempfile_call(w.path) or w.path
        cands = [r for r in m.replaces
                 if (r.source == w.path or (_tempfile_call(r.source) or r.source) == root)]
        if not cands:
            # nothing installs this file: C20 is not endangered (the old file stays); C19/W5 reports it
            col.note(f"write to {short(w.path, 60)} is never installed by a replace (see C19 W5)")
            continue
        for r in cands:
            ok_target = _is_dest_like(r.target, m, w)
            col.check(ok_target, r.ref.where(r.ev.node), r.ref.short,
                      f"replace installs {short(r.source, 60)} onto the destination",
                      construct="replace-target", necessity="the completed temporary file must replace the results file itself",
                      rule="A3")
            if w.close_seq is None:
                col.undecidable(w.ref.where(w.ev.node), w.ref.short,
                                "cannot find where the temporary file is closed (no with-block, no close())", rule="A3")
                continue
            col.check(r.seq > w.close_seq, r.ref.where(r.ev.node), r.ref.short,
                      "replace happens after the temporary file is closed (content complete)",
                      construct="replace-before-close",
                      necessity="renaming a file that is still open/unflushed can install a truncated file",
                      rule="A3")
            exc_path = [f for f in r.ev.ctx if f[0] == "try" and f[2] in ("finally", "except")]
            col.check(not exc_path, r.ref.where(r.ev.node), r.ref.short, "the replace happens on the normal path only (not in a finally / except block)",
                      construct="replace-on-exception-path",
                      necessity="a finally-block installs the temporary file also when writing it failed or was interrupted: the results file is replaced by a truncated one",
                      rule="A3")
            is_atomic = not is_global(r.ev.func, "shutil.move")
            if not is_atomic:
                col.assume("shutil.move on a sibling path reduces to os.rename (same file system)")
    col.rule("A4", "the destination is never removed, moved away or written after/before the replace", 0)
    for r in m.replaces:
        sk = path_kind(r.source, dests) if r.ref.qual == saver.qual else None
        if sk == "dest":
            col.check(False, r.ref.where(r.ev.node), r.ref.short, f"the results file itself is never renamed away ({short(r.source, 40)} -> {short(r.target, 40)})",
                      construct="dest-moved-away",
                      necessity="between moving data.json aside and installing the new file there is no results file at all: a crash there loses every earlier run for the next save",
                      rule="A4")
    for ev, ref, path, kind in m.removes:
        # an entry of the destination's own directory (glob / iterdir / listdir / scandir over a path derived from the destination) may BE the destination
        listing = [s for s in subterms(path) if s[0] == "call" and ((s[1][0] == "attr" and s[1][2] in ("glob", "rglob", "iterdir"))
                                                                    or is_global(s[1], "os.listdir", "os.scandir", "glob.glob", "glob.iglob"))
                   and any(has_subterm(s, d) for d in dests)]
        if listing:
            excluded = any(f[0] == "if" and any(has_subterm(f[1], d) for d in dests) and has_subterm(f[1], path if path[0] != "index" else path) for f in ev.ctx)
            if excluded:
                col.undecidable(ref.where(ev.node), ref.short, f"removal of directory entries {short(path, 50)} under a test that mentions the destination: not decided", rule="A4")
            else:
                col.check(False, ref.where(ev.node), ref.short,
                          f"removal of entries listed from the destination's own directory ({short(listing[0], 60)}) cannot hit the results file itself",
                          construct="remove-listed-sibling",
                          necessity="a pattern such as `data.json*` (or a plain directory listing) also yields data.json: it is unlinked before the new file is installed, "
                                    "so a crash in between leaves no results file and every earlier run is lost", rule="A4")
            continue
        if kind == "unknown":
            col.undecidable(ref.where(ev.node), ref.short, f"removal of a path not related to the destination: {short(path, 60)}",
                            rule="A4")
            continue
        col.check(kind != "dest", ref.where(ev.node), ref.short,
                  f"removal targets {short(path, 60)} [{kind}], not the results file",
                  construct="remove-dest",
                  necessity="unlinking the results file opens a window in which no results file exists: earlier runs are lost on a crash",
                  rule="A4")
    col.rule("A5", "no function outside the saver's own write-then-replace sequence renames, replaces, removes or truncates files (who-may-call, whole package)", 1)
    inside = set(m.functions)
    n5 = 0
    for ref in prog.all_functions():
        if ref.short in inside or "/tests/" in ref.module.rel():
            continue
        ft = fterms(prog, ref)
        for ev in ft.calls():
            f = ev.func
            what = None
            if is_global(f, *REPLACE_FUNCS) or is_global(f, *REMOVE_FUNCS) or is_global(f, "shutil.rmtree", "os.truncate"):
                what = f[1]
            elif f[0] == "attr" and ev.name in ("unlink", "rmdir", "truncate") :
                what = "." + ev.name + "()"
            elif f[0] == "attr" and ev.name in ("rename", "replace") and len(ev.args) == 1 and not ev.kwargs and _pathlike(f[1]):
                what = "." + ev.name + "()"
            if what:
                n5 += 1
                col.violation(ref.where(ev.node), ref.short, f"foreign-fs-mutation:{what}",
                              f"{what} on {short(ev.args[0] if ev.args else f[1], 60)} outside the saver: only {fn}'s write-then-replace sequence may install or remove files",
                              "a second site that renames onto, moves or removes result files (a 'recovery' of a leftover temporary file, a cleanup, a rotation) installs "
                              "content that no completed dump produced, or opens a window without a results file: a crash or an earlier interrupted save then loses every stored run",
                              rule="A5")
    if n5 == 0:
        col.ok("-", "package", f"no rename/replace/remove/truncate call anywhere outside {', '.join(sorted(inside))}", rule="A5")
    col.assume("rename(2)/os.replace is atomic on the local file system (trusted)")
    col.assume("the property speaks of the process dying, not of power loss: fsync before replace is not required")


def _pathlike(t: Term) -> bool:
    """A term that denotes a path object (so that .replace/.rename are file operations, not str methods)."""
    for x in subterms(t):
        if x[0] == "bin" and x[1] == "/":
            return True
        if is_call_to(x, "pathlib.Path") or (x[0] == "call" and x[1][0] == "attr" and x[1][2] in ("with_name", "with_suffix", "joinpath", "parent")):
            return True
        if x[0] == "attr" and x[2] in ("parent", "model_path", "model_dir"):
            return True
        if x[0] == "param" and ("path" in x[1] or "dir" in x[1]):
            return True
    return False


def _is_dest_like(t: Term, m: SaverModel, w: _Write) -> bool:
    # the destination term in the function where the replace happens: a parameter bound to dest
    return t[0] == "param" or path_kind(t, {t}) == "dest"


# --------------------------------------------------------------------------------------
# C19
# --------------------------------------------------------------------------------------

def _loaded_mapping_info(t: Term, dest: Term) -> tuple[bool, bool]:
    """(derives from json.load(s) of the destination, alternative is an empty dict)."""
    loads = False
    empty_alt = False
    for s in subterms(t):
        if is_call_to(s, "json.loads", "json.load") and s[2] and has_subterm(s[2][0], dest):
            loads = True
        if s[0] == "dict" and len(s[1]) == 0:
            empty_alt = True
        if is_call_to(s, "dict") and not s[2] and not s[3]:
            empty_alt = True
    return loads, empty_alt


def rule_c19_saver(prog: Program, col: Collector) -> None:
    m = _model(prog)
    saver = m.saver
    ft = fterms(prog, saver)
    fn = saver.short
    params = saver.positional_params()
    if len(params) < 3:
        raise AnalysisError(f"{fn} does not take (path, unique_name, output)")
    dest, uname, output = ("param", params[0]), ("param", params[1]), ("param", params[2])

    # the mapping that is serialised
    col.rule("W2", "the object serialised is the loaded mapping (or {} when the file is absent) plus the new entry", 1)
    if not m.dumps:
        raise AnalysisError(f"no json.dump/json.dumps found in or below {fn}")
    mapping_terms: list[Term] = []
    for ev, ref, obj, fileterm in m.dumps:
        if ref.qual != saver.qual:
            col.note(f"serialisation happens in helper {ref.short}; mapping taken from the saver's call argument")
            continue
        mapping_terms.append(obj)
        loads, empty_alt = _loaded_mapping_info(obj, dest)
        if obj[0] == "dict":
            # {**loaded, unique_name: entry}
            spreads = [v for k, v in obj[1] if k == ("star2",)]
            ok = any(_loaded_mapping_info(v, dest)[0] for v in spreads)
            col.check(ok, ref.where(ev.node), fn, "serialised dict spreads the mapping loaded from the results file",
                      construct="dump-fresh-dict",
                      necessity="a fresh dict drops every earlier entry: saving under a new name must leave earlier entries unchanged",
                      rule="W2")
        else:
            col.check(loads, ref.where(ev.node), fn,
                      f"serialised object {short(obj, 90)} derives from json.load(s) of the destination",
                      construct="dump-not-loaded",
                      necessity="a mapping not loaded from the file drops every earlier entry", rule="W2")
            col.check(empty_alt, ref.where(ev.node), fn, "when the file is absent the mapping starts as an empty dict",
                      construct="dump-no-empty-alt", necessity="first save must create a mapping with only the new entry",
                      rule="W2")
    if not mapping_terms:
        # dump in a helper: take the helper call's argument
        for ev in ft.calls():
            callee = resolve_callee(prog, ft, ev)
            if callee is not None and any(callee.short == r.short for _, r, _, _ in m.dumps):
                for a in ev.args:
                    if _loaded_mapping_info(a, dest)[0]:
                        mapping_terms.append(a)
        col.check(bool(mapping_terms), saver.where(), fn, "the helper that serialises receives the loaded mapping",
                  construct="dump-helper-arg", necessity="a mapping not loaded from the file drops every earlier entry",
                  rule="W2")

    # mutations of the mapping
    BAD = {"pop", "popitem", "clear", "__delitem__"}
    GOOD = {"update", "setdefault", "__setitem__"}
    adds = 0
    for ev in ft.calls():
        if ev.recv is not None and ev.recv in mapping_terms:
            if ev.name in BAD:
                col.violation(saver.where(ev.node), fn, f"mapping-{ev.name}", f"loaded mapping is shrunk by .{ev.name}()",
                              "earlier entries must survive every save", rule="W2")
            elif ev.name in GOOD:
                adds += 1
                # key must be unique_name and the value output.json
                keys_ok = False
                val_ok = False
                if ev.name == "update" and ev.args and ev.args[0][0] == "dict":
                    pairs = ev.args[0][1]
                    keys_ok = len(pairs) == 1 and pairs[0][0] == uname
                    val_ok = len(pairs) == 1 and has_subterm(pairs[0][1], output)
                elif ev.name == "update" and ev.kwargs:
                    keys_ok = False
                elif ev.name in ("setdefault", "__setitem__") and len(ev.args) == 2:
                    keys_ok = ev.args[0] == uname
                    val_ok = has_subterm(ev.args[1], output)
                col.check(keys_ok, saver.where(ev.node), fn, "the only key added is the run's unique name",
                          construct="added-key", necessity="an entry stored under another key overwrites or hides a run", rule="W2")
                col.check(val_ok, saver.where(ev.node), fn, "the value stored is built from the output argument",
                          construct="added-value", necessity="the file must hold what the run produced", rule="W2")
    for ev in ft.of_kind("store"):
        if ev.obj in mapping_terms and ev.index is not None:
            adds += 1
            col.check(ev.index == uname, saver.where(ev.node), fn, "the only key assigned is the run's unique name",
                      construct="added-key", necessity="an entry stored under another key overwrites or hides a run", rule="W2")
            col.check(has_subterm(ev.value, output), saver.where(ev.node), fn, "the value stored is built from the output argument",
                      construct="added-value", necessity="the file must hold what the run produced", rule="W2")
    for ev in ft.of_kind("delete"):
        t = ev.target
        if isinstance(t, tuple) and t[0] == "index" and t[1] in mapping_terms:
            col.violation(saver.where(ev.node), fn, "mapping-del", "an entry of the loaded mapping is deleted",
                          "earlier entries must survive every save", rule="W2")
    spread_new = any(o[0] == "dict" and any(k == uname for k, _ in o[1]) for o in mapping_terms)
    col.check(adds >= 1 or spread_new, saver.where(), fn, "the new entry is added to the mapping before it is serialised",
              construct="no-add", necessity="a save that adds nothing loses the run", rule="W2")

    # W1: skip-if-present dominates every modification and write
    col.rule("W1", "membership test of the unique name, with early exit, dominates every modification and write", 1)

    def is_membership(t: Term) -> bool:
        if t[0] == "cmp" and t[1] in ("in", "not in") and t[2] == uname:
            return True
        if t[0] == "un" and t[1] == "not":
            return is_membership(t[2])
        return False

    def guarded(ev) -> bool:
        for f in ev.ctx:
            if f[0] == "if":
                t, pol = f[1], f[2]
                neg = False
                while t[0] == "un" and t[1] == "not":
                    t, neg = t[2], not neg
                if t[0] == "cmp" and t[1] in ("in", "not in") and t[2] == uname:
                    present_branch = (t[1] == "in") != neg
                    # event must sit on the branch where the name is NOT present
                    if pol != present_branch:
                        # the container tested must be the mapping (or its keys())
                        cont = t[3]
                        if cont[0] == "call" and cont[1][0] == "attr" and cont[1][2] == "keys":
                            cont = cont[1][1]
                        if cont in mapping_terms or any(has_subterm(mt, cont) for mt in mapping_terms):
                            return True
        return False

    effect_events = []
    for w in m.writes:
        if w.ref.qual == saver.qual:
            effect_events.append((w.ev, f"write via {w.how}"))
    for r in m.replaces:
        if r.ref.qual == saver.qual:
            effect_events.append((r.ev, "replace"))
    for ev in ft.calls():
        if ev.recv is not None and ev.recv in mapping_terms and ev.name in GOOD | BAD:
            effect_events.append((ev, f"mapping.{ev.name}"))
        callee = resolve_callee(prog, ft, ev)
        if callee is not None and any(callee.short in (w.ref.short for w in m.writes) for _ in [0]) and callee.qual != saver.qual:
            effect_events.append((ev, f"call of writing helper {callee.short}"))
    for ev in ft.of_kind("store"):
        if ev.obj in mapping_terms:
            effect_events.append((ev, "mapping[...] = ..."))
    if not effect_events:
        raise AnalysisError(f"no write / update site found in {fn}")
    for ev, what in effect_events:
        col.check(guarded(ev), saver.where(ev.node), fn,
                  f"{what} runs only when the unique name is not yet in the loaded mapping",
                  construct=f"unguarded:{what.split()[0]}",
                  necessity="saving under an existing name must change nothing", rule="W1")

    # W5: what is written gets installed (complements C20/A3)
    col.rule("W5", "every save path that wrote new content makes it the results file", 1)
    for w in m.writes:
        if w.kind == "dest":
            col.ok(w.ref.where(w.ev.node), w.ref.short, "content written directly to the destination (see C20 for atomicity)")
            continue
        root = _tempfile_call(w.path) or w.path
        cands = [r for r in m.replaces if (r.source == w.path or (_tempfile_call(r.source) or r.source) == root)]
        ok = False
        for r in cands:
            rg = [(f[1], f[2]) for f in r.ev.ctx if f[0] == "if"] if r.ref.qual == w.ref.qual else []
            wg = [(f[1], f[2]) for f in w.ev.ctx if f[0] == "if"]
            if all(g in wg for g in rg):
                ok = True
        col.check(ok, w.ref.where(w.ev.node), w.ref.short,
                  f"temporary content {short(w.path, 60)} is installed onto the destination on every path that wrote it",
                  construct="write-never-installed", necessity="a result left in a temporary file cannot be read back", rule="W5")


def rule_c19_output_roundtrip(prog: Program, col: Collector) -> None:
    """W3: Output.json (writer) and Output.from_json (reader) agree on keys and columns."""
    col.rule("W3", "writer keys of Output.json == keys read by from_json; data/actions not crossed; dataclass fields restored", 6)
    meths = prog.methods("run.save.Output")
    mod, cls = prog.cls("run.save.Output")
    for need in ("json", "from_json", "metadata", "data_list", "actions_list"):
        if need not in meths:
            raise AnchorMissing(f"Output.{need} not found")
    fields = [n.target.id for n in cls.body if isinstance(n, ast.AnnAssign) and isinstance(n.target, ast.Name)]
    jf = fterms(prog, meths["json"])
    rets = list(jf.of_kind("return"))
    if len(rets) != 1 or rets[0].value[0] != "dict":
        raise AnalysisError("Output.json is not a single returned dict display")
    writer: dict[str, Term] = {}
    for k, v in rets[0].value[1]:
        try:
            writer[const_of(k)] = v
        except ValueError:
            raise AnalysisError("Output.json has a non-literal key")
    selfp = ("param", "self")

    def prop_source(name: str) -> Term | None:
        """Return expression of a zero-argument property of Output."""
        if name not in meths:
            return None
        r = list(fterms(prog, meths[name]).of_kind("return"))
        return r[-1].value if r else None

    def derives_from_field(t: Term, field: str, depth: int = 0) -> bool:
        if has_subterm(t, ("attr", selfp, field)):
            return True
        if depth < 3:
            for s in subterms(t):
                if s[0] == "attr" and s[1] == selfp and s[2] in meths and s[2] != field:
                    ps = prop_source(s[2])
                    if ps is not None and derives_from_field(ps, field, depth + 1):
                        return True
        return False

    w = meths["json"].where()
    for key, field in (("data", "data"), ("actions", "actions")):
        other = "actions" if field == "data" else "data"
        col.check(key in writer and derives_from_field(writer[key], field) and not derives_from_field(writer[key], other),
                  w, "run.save.Output.json", f"key '{key}' is written from the '{field}' matrix (and not from '{other}')",
                  construct=f"writer-{key}", necessity="gap and action matrices must round-trip into their own fields")
    col.check("metadata" in writer and derives_from_field(writer.get("metadata", ("const", None)), "parsed_args"),
              w, "run.save.Output.json", "key 'metadata' is written from parsed_args",
              construct="writer-metadata", necessity="metadata must round-trip")
    # tolist(): shapes and NaN survive; a flatten/ravel/sum would not
    for prop, field in (("data_list", "data"), ("actions_list", "actions")):
        ps = prop_source(prop)
        ok = ps is not None and ps[0] == "call" and ps[1] == ("attr", ("attr", selfp, field), "tolist")
        col.check(ok, meths[prop].where(), f"run.save.Output.{prop}",
                  f"{prop} is exactly self.{field}.tolist() (shape- and NaN-preserving)",
                  construct=f"{prop}-tolist", necessity="matrices must round-trip exactly, shapes preserved")

    # reader: replay the dict operations of from_json on the writer's key set
    rf = fterms(prog, meths["from_json"])
    rparams = meths["from_json"].positional_params()
    dparam = ("param", rparams[1] if rparams and rparams[0] == "cls" and len(rparams) > 1 else rparams[0])
    keys = set(writer)
    meta_keys_read: list[str] = []
    ops = sorted(list(rf.of_kind("store")) + [e for e in rf.calls() if e.name in ("pop", "get", "setdefault")] +
                 list(rf.of_kind("delete")), key=lambda e: e.seq)
    r_where = meths["from_json"].where()
    rname = "run.save.Output.from_json"
    restored: dict[str, Term] = {}
    for e in ops:
        if e.kind == "store" and e.obj == dparam and e.index is not None and e.index[0] == "const":
            keys.add(e.index[1])
            restored[e.index[1]] = e.value
        elif e.kind == "call" and e.name == "pop" and e.recv == dparam and e.args and e.args[0][0] == "const":
            col.check(e.args[0][1] in keys, rf.ref.where(e.node), rname, f"pop('{e.args[0][1]}') removes a key the writer produced",
                      construct="reader-pop", necessity="reader and writer must agree on the key set")
            keys.discard(e.args[0][1])
        elif e.kind == "delete" and isinstance(e.target, tuple) and e.target[0] == "index" and e.target[1] == dparam \
                and e.target[2][0] == "const":
            keys.discard(e.target[2][1])
    # every subscript read data["k"] must be a writer key (or one stored earlier)
    for s in (t for ev in rf.events for v in ev.data.values() if isinstance(v, tuple) for t in subterms(v)):
        if s[0] == "index" and s[1] == dparam and s[2][0] == "const" and isinstance(s[2][1], str):
            if s[2][1] not in writer and s[2][1] not in restored:
                col.violation(r_where, rname, f"reader-key:{s[2][1]}", f"from_json reads key '{s[2][1]}' that Output.json never writes",
                              "reader and writer must agree on the key set")
    # final construction cls(**data)
    ctor = [e for e in rf.calls() if e.func == ("param", "cls") or is_global(e.func, "incomplete_cooperative.run.save.Output")]
    if not ctor:
        raise AnalysisError("from_json does not construct cls(...)")
    ce = ctor[-1]
    if any(a == ("star", dparam) for a in ce.args) or (None in ce.kwargs and ce.kwargs[None] == dparam):
        col.check(keys == set(fields), rf.ref.where(ce.node), rname,
                  f"after its rewrites the dict passed to cls(**...) has exactly the dataclass fields {sorted(fields)} (got {sorted(keys)})",
                  construct="reader-fields", necessity="otherwise every read-back raises TypeError or loses a matrix")
    else:
        col.undecidable(rf.ref.where(ce.node), rname, "constructor call is not cls(**data)")
    # data <- data, actions <- actions (not crossed)
    for field in ("data", "actions"):
        other = "actions" if field == "data" else "data"
        v = restored.get(field)
        if v is None:
            col.ok(r_where, rname, f"'{field}' passed through unchanged")
            continue
        src_ok = has_subterm(v, ("index", dparam, ("const", field))) and not has_subterm(v, ("index", dparam, ("const", other)))
        col.check(src_ok, r_where, rname, f"restored '{field}' is built from the stored '{field}' entry",
                  construct=f"reader-{field}", necessity="gap and action matrices must not be crossed on read-back")
    # the matrices come back in the shape they were stored in
    reshapes = [e for e in rf.calls() if (e.name in ("reshape", "ravel", "flatten", "squeeze", "transpose", "swapaxes") and e.recv is not None)
                or is_global(e.func, "numpy.reshape", "numpy.ravel", "numpy.squeeze", "numpy.transpose", "numpy.atleast_2d", "numpy.atleast_1d", "numpy.vstack", "numpy.hstack", "numpy.concatenate")]
    col.check(not reshapes, rf.ref.where(reshapes[0].node) if reshapes else r_where, rname,
              "from_json rebuilds the stored matrices as they are (no reshape / squeeze / transpose on the way back)", construct="reader-reshapes",
              necessity="the best-states search stores a 3-D action record (size x repetition x step): `reshape(len(a), -1)` is the identity for the 2-D records of solve / eval / greedy "
                        "and flattens that one - what is read back is not what the search produced")
    # metadata: run_type written, func dropped; reader restores func from run_type
    mf = fterms(prog, meths["metadata"])
    pops = [e for e in mf.calls("pop") if e.args and e.args[0] == ("const", "func")]
    stores = [e for e in mf.of_kind("store") if e.index == ("const", "run_type")]
    # ... or merged in as a display: args | {"run_type": ..} / {**args, "run_type": ..}
    stores += [r for r in mf.of_kind("return") for t in subterms(r.value) if t[0] == "dict" and any(k == ("const", "run_type") for k, _ in t[1])]
    # ... or filtered out: {k: v for k, v in vars(args).items() if k != "func"}
    from .common import comp_parts as _cp
    filtered = [t for e in mf.events for v in e.data.values() if isinstance(v, tuple) for t in subterms(v)
                if t[0] == "comp" and len(t) == 4 and len(t[3]) == 1 and any(c[0] == "cmp" and c[1] == "!=" and ("const", "func") in (c[2], c[3]) for c in t[3][0][2])]
    real_pops = list(pops)
    pops = pops or filtered
    col.check(bool(pops), meths["metadata"].where(), "run.save.Output.metadata", "the non-serialisable 'func' entry is dropped",
              construct="metadata-func", necessity="a function object cannot be stored in JSON faithfully")
    col.check(bool(stores), meths["metadata"].where(), "run.save.Output.metadata", "'run_type' is written",
              construct="metadata-run_type", necessity="from_json reads metadata['run_type']")
    copies = [e for e in mf.calls("copy")]
    vars_call = lambda t: is_call_to(t, "vars") and len(t[2]) == 1      # noqa: E731
    copies += [e for e in mf.calls() if is_global(e.func, "dict", "copy.copy", "copy.deepcopy") and len(e.args) == 1 and vars_call(e.args[0])]
    copies += [e for e in mf.events for v in e.data.values() if isinstance(v, tuple) for t in subterms(v)
               if t[0] == "dict" and any(k == ("star2",) and vars_call(x) for k, x in t[1])]
    col.check(bool(copies) or not real_pops, meths["metadata"].where(), "run.save.Output.metadata",
              "metadata works on a copy of vars(parsed_args) (the caller's namespace is not mutated)",
              construct="metadata-copy", necessity="popping 'func' from the live namespace breaks a second save of the same output")
    reads_rt = any(s == ("index", ("index", dparam, ("const", "metadata")), ("const", "run_type"))
                   for ev in rf.events for v in ev.data.values() if isinstance(v, tuple) for s in subterms(v))
    col.check(reads_rt == bool(stores), r_where, rname, "from_json reads 'run_type' iff metadata writes it",
              construct="reader-run_type", necessity="reader and writer must agree on metadata keys")
    # Namespace(**metadata)
    ns = [e for e in rf.calls() if is_global(e.func, "argparse.Namespace")]
    col.check(bool(ns), r_where, rname, "parsed_args is rebuilt as a Namespace from the stored metadata",
              construct="reader-namespace", necessity="metadata must round-trip")


def rule_c19_readers(prog: Program, col: Collector) -> None:
    """W6: the file-level readers return the entry stored under the requested name / every entry under its own name."""
    col.rule("W6", "from_file returns from_json(entry stored under the requested name); get_outputs maps every name to its own entry", 2)
    meths = prog.methods("run.save.Output")
    ff = meths.get("from_file")
    if ff is None:
        raise AnchorMissing("Output.from_file not found")
    ft = fterms(prog, ff)
    pp = ff.positional_params()
    path, name = ("param", pp[1]), ("param", pp[2])
    rv = list(ft.of_kind("return"))
    ok = False
    if len(rv) == 1 and rv[0].value[0] == "call" and rv[0].value[1] == ("attr", ("param", pp[0]), "from_json") and len(rv[0].value[2]) == 1:
        a = rv[0].value[2][0]
        ok = a[0] == "index" and a[2] == name and is_call_to(a[1], "json.load", "json.loads") and any(has_subterm(x, path) for x in a[1][2])
    col.check(ok, ff.where(), ff.short, "from_file(path, name) = from_json(json.load(path)[name])", construct="from_file",
              necessity="what a run saved must be read back under its own name")
    gref = prog.func("run.save.get_outputs")
    gft = fterms(prog, gref)
    dp = ("param", gref.positional_params()[0])
    rv = list(gft.of_kind("return"))
    ok = False
    if len(rv) == 1 and rv[0].value[0] == "comp" and rv[0].value[1] == "dict":
        c = rv[0].value
        el, it, cd = c[3][0]
        k, v = ("index", el, ("const", 0)), ("index", el, ("const", 1))
        ok = not cd and it == ("call", ("attr", dp, "items"), (), ()) and c[2][0] == "tuple" and c[2][1][0] == k and \
            c[2][1][1] == ("call", ("global", "incomplete_cooperative.run.save.Output.from_json"), (v,), ())
    col.check(ok, gref.where(), gref.short, "get_outputs = {name: Output.from_json(entry) for name, entry in data.items()}", construct="get_outputs",
              necessity="every earlier entry must read back under its own name")


def _taint_sources(ft, root_terms: list[Term], var_term: Term, var_name: str | None) -> set[int]:
    """Indices i such that (index, root, i) flows into the value (term containment + out-parameter calls)."""
    out: set[int] = set()

    def scan(t: Term) -> None:
        for s in subterms(t):
            if s[0] == "index" and s[1] in root_terms and s[2][0] == "const" and isinstance(s[2][1], int):
                out.add(s[2][1])
    scan(var_term)
    return out


def rule_c19_commands(prog: Program, col: Collector) -> None:
    """W4 / REG-V: each command stores what it computed, through save(model_dir, unique_name, Output(...))."""
    col.rule("W4", "Output(data, actions, args): data derives from position 0 and actions from position 1 of the evaluator/search result", 4)
    producers = {
        "run.solve.solve_func": ("incomplete_cooperative.evaluation.evaluate",),
        "run.eval.eval_func": ("incomplete_cooperative.evaluation.evaluate",),
        "run.greedy.greedy_func": ("incomplete_cooperative.run.greedy.get_greedy_rewards",),
        "run.best_states.best_states_func": ("incomplete_cooperative.run.best_states.get_best_exploitability",),
    }
    for q, prods in producers.items():
        ref = prog.func(q)
        ft = fterms(prog, ref)
        roots = [e.term for e in ft.calls() if is_global(e.func, *prods)]
        if not roots:
            raise AnalysisError(f"{q} no longer calls {prods[0]}")
        outs = [e for e in ft.calls() if is_global(e.func, "incomplete_cooperative.run.save.Output")]
        saves = [e for e in ft.calls() if is_global(e.func, "incomplete_cooperative.run.save.save")]
        if not outs or not saves:
            raise AnalysisError(f"{q} no longer builds Output(...) / calls save(...)")
        # flow-insensitive dependency closure: names -> indices of the producer result they depend on
        deps: dict[str, set[int]] = {}
        name_terms: dict[str, list[Term]] = {}
        for e in ft.of_kind("assign"):
            name_terms.setdefault(e.name, []).append(e.value)

        def term_deps(t: Term, seen: frozenset = frozenset()) -> set[int]:
            d: set[int] = set()
            for s in subterms(t):
                if s[0] == "index" and s[1] in roots and s[2][0] == "const" and isinstance(s[2][1], int):
                    d.add(s[2][1])
                if s[0] == "loopmod" and s[1] not in seen:
                    for v in name_terms.get(s[1], []):
                        d |= term_deps(v, seen | {s[1]})
            return d

        # out-parameter calls: f(x[...], y) makes x depend on y  (fill_in_coalitions(actions_all[ep], best[ep]))
        out_deps: dict[Term, set[int]] = {}
        for e in ft.calls():
            # a list that collects blocks (`blocks.append(rep)` ... `np.hstack(blocks)`) depends on what is appended to it
            if e.name in ("append", "extend", "insert") and e.recv is not None and e.recv[0] in ("list", "comp", "call") and e.args:
                d0: set[int] = set()
                for a in e.args:
                    d0 |= term_deps(a)
                if d0:
                    out_deps.setdefault(e.recv, set()).update(d0)
                continue
            callee = resolve_callee(prog, ft, e)
            if callee is None or not e.args:
                continue
            first = e.args[0]
            base = first
            while base[0] == "index":
                base = base[1]
            d: set[int] = set()
            for a in e.args[1:]:
                d |= term_deps(a)
            if d:
                out_deps.setdefault(base, set()).update(d)

        def full_deps(t: Term) -> set[int]:
            d = term_deps(t)
            for base, dd in out_deps.items():
                if has_subterm(t, base) or t == base:
                    d |= dd
            return d

        oe = outs[-1]
        args = list(oe.args)
        kw = oe.kwargs
        data_t = args[0] if len(args) > 0 else kw.get("data")
        act_t = args[1] if len(args) > 1 else kw.get("actions")
        if data_t is None or act_t is None:
            col.undecidable(ref.where(oe.node), ref.short, "Output(...) call without data/actions arguments")
            continue
        dd, ad = full_deps(data_t), full_deps(act_t)
        col.check(dd == {0}, ref.where(oe.node), ref.short,
                  f"Output.data derives from position 0 (gaps) of {prods[0].rsplit('.', 1)[1]} only (found positions {sorted(dd)})",
                  construct="output-data", necessity="the file must hold the matrices the evaluation or search produced")
        col.check(ad == {1}, ref.where(oe.node), ref.short,
                  f"Output.actions derives from position 1 (actions) only (found positions {sorted(ad)})",
                  construct="output-actions", necessity="the file must hold the matrices the evaluation or search produced")
        se = saves[-1]
        inst = ("param", ref.positional_params()[0])
        ok = len(se.args) >= 3 and se.args[0] == ("attr", inst, "model_dir") and se.args[1] == ("attr", inst, "unique_name") \
            and se.args[2] == oe.term
        col.check(ok, ref.where(se.node), ref.short, "save(instance.model_dir, instance.unique_name, <that Output>)",
                  construct="save-args", necessity="results must be stored under the run's own name in the model directory")
        if q == "run.greedy.greedy_func":
            # the one sequence the greedy search returns is stored as ONE COLUMN (steps x 1), like one repetition of the other commands
            seq = ("index", roots[0], ("const", 1))
            arr = [("call", ("global", "numpy.array"), (seq,), ()), ("call", ("global", "numpy.asarray"), (seq,), ())]
            n_rows = ("call", ("global", "len"), (seq,), ())
            one = ("const", 1)
            column = []
            for a in arr:
                column += [("call", ("global", "numpy.reshape"), (a, ("tuple", (n_rows, one))), ()), ("call", ("attr", a, "reshape"), (("tuple", (n_rows, one)),), ()),
                           ("call", ("attr", a, "reshape"), (n_rows, one), ()), ("call", ("attr", a, "reshape"), (("un", "-", one), one), ()),
                           ("call", ("attr", a, "reshape"), (("tuple", (("un", "-", one), one)),), ()),
                           ("call", ("global", "numpy.reshape"), (a, ("tuple", (("un", "-", one), one))), ()),
                           ("index", a, ("tuple", (("slice", None, None, None), ("const", None)))),
                           ("index", a, ("tuple", (("slice", None, None, None), ("global", "numpy.newaxis")))),
                           ("call", ("global", "numpy.expand_dims"), (a, one), ()), ("call", ("global", "numpy.expand_dims"), (a,), (("axis", one),))]
            row_like = any(is_call_to(s, "numpy.atleast_2d") or (is_call_to(s, "numpy.array", "numpy.asarray") and dict(s[3]).get("ndmin") is not None)
                           or (s[0] == "index" and s[2][0] == "tuple" and s[2][1][:1] in ((("const", None),), (("global", "numpy.newaxis"),)))
                           or (is_call_to(s, "numpy.expand_dims") and (s[2][1:2] == (("const", 0),) or dict(s[3]).get("axis") == ("const", 0)))
                           for s in subterms(act_t))
            if act_t in column:
                col.ok(ref.where(oe.node), ref.short, "the greedy sequence is stored as one column (steps x 1)")
            elif row_like:
                col.check(False, ref.where(oe.node), ref.short, f"the greedy sequence is stored as one column, steps x 1 (found a ROW: {short(act_t, 60)})",
                          construct="greedy-actions-row", necessity="a new axis in FRONT (ndmin=2, atleast_2d, [None, :]) gives 1 x steps: the stored action matrix no longer has one "
                          "row per step next to the (steps + 1)-row gap matrix, so the entry read back is not the matrix the search produced")
            else:
                col.undecidable(ref.where(oe.node), ref.short, f"shape of the stored greedy action matrix not understood: {short(act_t, 80)}", rule="W4")

    # W4b: best-states accumulates gaps and actions in the same repetition order
    bref = prog.func("run.best_states.best_states_func")
    bft = fterms(prog, bref)
    hs = [e for e in bft.calls() if is_global(e.func, "numpy.hstack", "numpy.concatenate", "numpy.column_stack") and e.args and e.args[0][0] in ("tuple", "list")]
    prod = [e.term for e in bft.calls() if is_global(e.func, "incomplete_cooperative.run.best_states.get_best_exploitability")]
    for e in hs:
        items = e.args[0][1]
        if len(items) == 2 and prod:
            new_last = items[1] == ("index", prod[0], ("const", 0)) and items[0][0] in ("loopmod", "phi", "unknown")
            col.check(new_last, bref.where(e.node), bref.short, "gap columns are appended in repetition order: hstack((accumulated, new repetition))",
                      construct="best-states-hstack-order",
                      necessity="the action tensor lists repetitions in order (x + [y]); reversed gap columns pair every repetition's gaps with another repetition's actions")
    acc = [e for e in bft.of_kind("assign") if e.value[0] == "comp" and e.value[2][0] == "bin" and e.value[2][1] == "+" and is_call_to(e.value[3][0][1], "zip")]
    for e in acc:
        el = e.value[3][0][0]
        left, right = e.value[2][2], e.value[2][3]
        okacc = left == ("index", el, ("const", 0)) and right == ("list", (("index", el, ("const", 1)),))
        col.check(okacc, bref.where(e.node), bref.short, "chosen coalitions are appended in repetition order: x + [y]", construct="best-states-append-order", necessity="the action tensor lists repetitions in order: prepending pairs every repetition's gaps with another repetition's actions")

    fills = [e for e in bft.calls() if is_global(e.func, "incomplete_cooperative.run.best_states.fill_in_coalitions") and any(f[0] == "for" for f in e.ctx)]
    for e in fills:
        lp = [f for f in e.ctx if f[0] == "for"][-1]
        idx_ok = len(e.args) == 2 and e.args[1][0] == "index" and e.args[1][2] == lp[2]
        src = e.args[1][1] if idx_ok else None
        rng_ok = idx_ok and is_call_to(lp[3], "range") and lp[3][2] == (("call", ("global", "len"), (src,), ()),)
        col.check(bool(rng_ok), bref.where(e.node), bref.short, "every row of the chosen-coalition lists is copied into the action tensor (range(len(<that list>)))",
                  construct="best-states-fill-range", necessity="a shorter range leaves the last row NaN: the file does not hold the action matrix the search produced")

    col.rule("W7", "every saver that runs before (or is) the JSON saver treats the output as read-only (what is serialised is what was computed)", 1)
    w7_entries = list(registry(prog, "run.save.SAVERS"))
    jq7 = json_saver(prog).qual
    order = [prog.resolve(e.module, e.value) for e in w7_entries]
    jpos = next((i for i, q in enumerate(order) if q and prog.find_func(q) is not None and prog.find_func(q).qual == jq7), len(order))
    for pos, e in enumerate(w7_entries):
        q = prog.resolve(e.module, e.value)
        r = prog.find_func(q) if q else None
        if r is None or len(r.positional_params()) < 3:
            continue
        if pos > jpos:
            col.ok(r.where(), r.short, f"SAVERS[{e.key!r}] runs after the JSON saver: what it does to the Output object cannot change what was stored")
            continue
        outp = ("param", r.positional_params()[2])
        rft = fterms(prog, r)
        bad = []

        def rooted(t) -> bool:
            while isinstance(t, tuple) and t[0] in ("attr", "index"):
                t = t[1]
            return t == outp
        for ev in list(rft.of_kind("store")) + list(rft.of_kind("aug")):
            if rooted(ev.target):
                bad.append((ev, f"in-place write to {short(ev.target, 50)}"))
        for ev in rft.calls():
            if ev.recv is not None and rooted(ev.recv) and ev.name in ("sort", "fill", "put", "resize", "clip", "partition", "pop", "clear", "update", "append", "__setitem__") \
                    and not (ev.name == "clip" and "out" not in ev.kwargs):
                bad.append((ev, f"in-place .{ev.name}() on {short(ev.recv, 40)}"))
            if is_global(ev.func, "numpy.place", "numpy.copyto", "numpy.put", "numpy.putmask", "numpy.nan_to_num") and ev.args and rooted(ev.args[0]) \
                    and not (is_global(ev.func, "numpy.nan_to_num") and ev.kwargs.get("copy", ("const", True)) != ("const", False)):
                bad.append((ev, f"{ev.func[1]} on {short(ev.args[0], 40)}"))
            o = ev.kwargs.get("out")
            if o is not None and rooted(o):
                bad.append((ev, "out= an array of the output"))
        col.check(not bad, r.where(bad[0][0].node if bad else None), r.short,
                  f"SAVERS[{e.key!r}] does not modify the output object" + (f" ({bad[0][1]})" if bad else ""), construct=f"saver-mutates-output:{e.key}",
                  necessity="savers run one after the other on the same Output: a saver that edits the matrices in place changes what the JSON saver stores")

    col.rule("REG-V", "SAVERS entries accept (path, unique_name, output); save() creates the directory and calls each saver", 3)
    entries = registry(prog, "run.save.SAVERS")
    for e in entries:
        q = prog.resolve(e.module, e.value)
        r = prog.find_func(q) if q else None
        if r is None:
            col.violation(f"{e.module.rel()}:{e.node.lineno}", "run.save.SAVERS", f"saver:{e.key}",
                          f"SAVERS[{e.key!r}] does not resolve to a function", "save() calls every entry")
            continue
        col.check(len(r.positional_params()) >= 3, r.where(), r.short, f"SAVERS[{e.key!r}] accepts (path, unique_name, output)",
                  construct=f"saver-sig:{e.key}", necessity="save() calls every entry with three positionals")
    sref = prog.func("run.save.save")
    sft = fterms(prog, sref)
    sp = sref.positional_params()
    calls = [e for e in sft.calls() if e.func[0] in ("elem", "index") and any(f[0] == "for" for f in e.ctx)]
    ok = False
    for e in calls:
        loop = [f for f in e.ctx if f[0] == "for"][-1]
        it = loop[3]
        over_savers = any(is_global(s, "incomplete_cooperative.run.save.SAVERS") for s in subterms(it))
        if over_savers and len(e.args) == 3 and has_subterm(e.args[0], ("param", sp[0])) \
                and e.args[1] == ("param", sp[1]) and e.args[2] == ("param", sp[2]):
            ok = True
    col.check(ok, sref.where(), sref.short, "save() calls each SAVERS entry with (model_path / name, unique_name, output)",
              construct="save-dispatch", necessity="the JSON saver must receive the run's name and output")
    disp = [e for e in calls if len(e.args) == 3]

    def name_guard(test: Term, name_param: Term) -> bool:
        """``<name> in <mapping loaded with json.load(s)>`` (possibly with `.keys()`), conjoined with existence tests of the file."""
        conj = list(test[2]) if test[0] == "bool" and test[1] == "and" else [test]
        hit = False
        for c in conj:
            if c[0] == "cmp" and c[1] == "in" and c[2] == name_param and any(is_call_to(x, "json.load", "json.loads") for x in subterms(c[3])):
                hit = True
            elif c[0] == "call" and c[1][0] == "attr" and c[1][2] in ("exists", "is_file"):
                continue
            else:
                return False
        return hit

    name_p = ("param", sp[1])
    early = [e for e in sft.of_kind("return") if disp and e.seq < disp[0].seq]

    def guards_of(ev) -> list:
        return [(f[1], f[2]) for f in ev.ctx if f[0] == "if"]
    bad_early = [e for e in early if not (guards_of(e) and all(pol is True for _t, pol in guards_of(e)) and name_guard(guards_of(e)[-1][0], name_p)
                                           and all(t[0] == "call" and t[1][0] == "attr" and t[1][2] in ("exists", "is_file") for t, _p in guards_of(e)[:-1]))]
    guarded = [f for e in disp for f in e.ctx if f[0] == "if" and not (len(f) > 4 and f[4] == "implied")]
    col.check(not bad_early and not guarded, sref.where(bad_early[0].node if bad_early else None), sref.short,
              "the only early exit before the dispatch loop is `name already stored in data.json`; the savers themselves are called unconditionally",
              construct="save-dispatch-conditional",
              necessity="the skip decision is about the exact name in the loaded mapping: a shortcut on another artefact "
                        "(e.g. an existing plot file) silently drops a run saved under a new name")
    # saving under an existing name changes nothing: every saver that writes must sit behind the existing-name test
    dispatcher_guard = any(e not in bad_early for e in early)
    for e in entries:
        q = prog.resolve(e.module, e.value)
        r = prog.find_func(q) if q else None
        if r is None:
            continue
        rft = fterms(prog, r)
        rp = r.positional_params()
        own = False
        if len(rp) >= 2:
            for ev in rft.of_kind("return"):
                gs = guards_of(ev)
                if gs and any(name_guard(t, ("param", rp[1])) or (t[0] == "cmp" and t[1] == "in" and t[2] == ("param", rp[1])) for t, pol in gs if pol is True):
                    writes_before = [w for w in rft.calls() if w.seq < ev.seq and (w.name in ("savefig", "mkdir", "write_text", "write_bytes", "dump") or is_global(w.func, "json.dump", "numpy.save"))]
                    own = own or not writes_before
        col.check(own or dispatcher_guard, r.where(), r.short,
                  f"SAVERS[{e.key!r}] only runs for a name that is not stored yet (its own skip-if-present guard, or the dispatcher's)", construct=f"saver-unguarded:{e.key}",
                  necessity="saving under an existing name must change nothing: an unguarded plot saver overwrites the earlier run's figure with the new data while data.json keeps "
                            "the old entry (and the directory-creating saver raises FileExistsError afterwards)")
    # the primary record first: an auxiliary saver that fails (a run name with a path separator, a name too long for a file) must not
    # prevent the result matrices from being stored
    jq = json_saver(prog).qual
    first = entries[0] if entries else None
    fq = prog.resolve(first.module, first.value) if first is not None else None
    fr = prog.find_func(fq) if fq else None
    col.check(fr is not None and fr.qual == jq, f"{first.module.rel()}:{first.node.lineno}" if first is not None else "-", "run.save.SAVERS",
              f"the JSON saver is the first entry of SAVERS (found first: {first.key if first is not None else None!r})", construct="json-saver-not-first",
              necessity="save() calls the savers in registry order: a plot saver that raises before the JSON saver ran (run name 'exp/run1': FileNotFoundError for "
                        "data_plots/exp/run1.png) loses the gap and action matrices of a finished evaluation", rule="REG-V")
    # distinct names must give distinct files: with_suffix() replaces everything after the last dot of the NAME
    nsfx = 0
    for e in entries:
        q = prog.resolve(e.module, e.value)
        r = prog.find_func(q) if q else None
        if r is None or len(r.positional_params()) < 2:
            continue
        rft = fterms(prog, r)
        namep = ("param", r.positional_params()[1])
        for ev in rft.calls("with_suffix"):
            last = ev.recv[3] if ev.recv is not None and ev.recv[0] == "bin" and ev.recv[1] == "/" else ev.recv      # the final path component
            if last is not None and has_subterm(last, namep):
                nsfx += 1
                col.violation(r.where(ev.node), r.short, f"suffix-replaces-name:{e.key}",
                              f"{short(ev.recv, 50)}.with_suffix(...) replaces the part of the run name after its last dot",
                              "two different names that differ only after the last dot - the default names are ISO timestamps with microseconds - map to the same file: "
                              "saving under a new name overwrites an artefact of an earlier entry", rule="REG-V")
    if nsfx == 0:
        col.ok(sref.where(), "run.save.SAVERS", "no saver derives a file name from the run name with with_suffix()", rule="REG-V")
    # ... and names that are different strings must not be the same PATH: every saver other than the JSON one joins a single component
    # derived from the name (its separators encoded), never the raw name, onto its directory
    for e in entries:
        q = prog.resolve(e.module, e.value)
        r = prog.find_func(q) if q else None
        if r is None or r.qual == jq or len(r.positional_params()) < 2:
            continue
        rft = fterms(prog, r)
        pathp, namep = ("param", r.positional_params()[0]), ("param", r.positional_params()[1])

        def encoded(t) -> bool:
            """The name with its path separators replaced: name.replace("/", ...) somewhere on the way (helpers are read through)."""
            return any(s0[0] == "call" and s0[1][0] == "attr" and s0[1][2] == "replace" and s0[2] and s0[2][0] in (("const", "/"), ("global", "os.sep"), ("attr", ("global", "os"), "sep"))
                       and has_subterm(s0[1][1], namep) for s0 in subterms(t))
        joins = set()
        for ev in rft.events:
            for val in ev.data.values():
                if isinstance(val, tuple):
                    for s0 in subterms(val):
                        if s0[0] == "bin" and s0[1] == "/" and has_subterm(s0[2], pathp) and has_subterm(s0[3], namep):
                            joins.add(s0)
        if not joins:
            continue
        raw = [j for j in joins if not encoded(j[3])]
        col.check(not raw, r.where(), r.short,
                  f"SAVERS[{e.key!r}] joins a single path component derived from the run name onto its directory (separators of the name encoded)"
                  + (f": found the raw name in {short(raw[0], 60)}" if raw else ""), construct=f"plot-path-from-raw-name:{e.key}",
                  necessity="run names that are different strings but the same path ('a' and './a', 'x/../a') are separate records of data.json whose plots share "
                            "one file: saving the second run redraws the first run's plot and then fails with FileExistsError in the coalition plots", rule="REG-V")
    mk = [e for e in sft.calls("mkdir")]
    col.check(bool(mk), sref.where(), sref.short, "save() creates the model directory when missing",
              construct="save-mkdir", necessity="first save into a fresh directory must succeed")
