"""C11: exhaustive search (P2-P5, P9, L1) - P1 lives in evaluation.py, T1 in typestate.py."""
from __future__ import annotations

import ast
import re

from ..core import AnalysisError, AnchorMissing, FuncRef, Program, dotted
from ..flow import Flow
from ..report import Collector
from ..terms import FunctionTerms, Term, is_call_to, is_global, show, subterms
from .common import fterms, has_subterm, resolve_callee, short
from .typestate import T1, check_function

P = "incomplete_cooperative."
LAZY_BUILTINS = ("map", "filter", "zip", "iter", "reversed", "enumerate", "itertools.chain", "itertools.chain.from_iterable",
                 "itertools.combinations", "itertools.permutations", "itertools.product", "itertools.starmap", "itertools.islice",
                 "itertools.combinations_with_replacement", "itertools.accumulate", "itertools.takewhile", "itertools.dropwhile")

_LAZY_FUNCS: dict[int, set[str]] = {}


def lazy_functions(prog: Program) -> set[str]:
    """Qualified names of package functions that return a single-use iterator (derived: generators and lazy returns)."""
    key = id(prog)
    if key in _LAZY_FUNCS:
        return _LAZY_FUNCS[key]
    lazy: set[str] = set()
    refs = [r for r in prog.all_functions()]
    for r in refs:
        if any(isinstance(n, (ast.Yield, ast.YieldFrom)) for s in r.node.body for n in _walk_same_scope(s)):
            lazy.add(r.qual)
    for _ in range(3):
        for r in refs:
            if r.qual in lazy:
                continue
            ft = fterms(prog, r)
            rets = list(ft.of_kind("return"))
            if rets and all(is_lazy_term(x.value, lazy) for x in rets):
                lazy.add(r.qual)
    _LAZY_FUNCS[key] = lazy
    return lazy


def _walk_same_scope(node: ast.AST):
    todo = [node]
    while todo:
        n = todo.pop()
        yield n
        for c in ast.iter_child_nodes(n):
            if isinstance(c, (ast.FunctionDef, ast.AsyncFunctionDef, ast.Lambda, ast.ClassDef)):
                continue
            todo.append(c)


def is_lazy_term(t: Term, lazy_funcs: set[str]) -> bool:
    if not isinstance(t, tuple):
        return False
    if t[0] == "comp" and t[1] == "gen":
        return True
    if t[0] == "call" and t[1][0] == "global" and (t[1][1] in LAZY_BUILTINS or t[1][1] in lazy_funcs):
        return True
    if t[0] in ("phi", "ifexp"):
        return is_lazy_term(t[2], lazy_funcs) or is_lazy_term(t[3], lazy_funcs)
    return False


# --------------------------------------------------------------------------------------
# L1
# --------------------------------------------------------------------------------------

def _iterable_params(func: ast.FunctionDef) -> set[str]:
    """Parameters annotated as (possibly single-use) iterables: Iterable[...] / Iterator[...] / Generator[...]."""
    out = set()
    a = func.args
    for x in a.posonlyargs + a.args + a.kwonlyargs:
        if x.annotation is not None:
            t = ast.unparse(x.annotation)
            if re.search(r"\b(Iterable|Iterator)\b|(?<!random\.)\bGenerator\[", t) and not re.search(r"\b(list|List|Sequence|tuple|set)\[", t.split("|")[0]):
                out.add(x.arg)
    return out


def _consuming_loads(node: ast.AST, as_test: bool = False) -> dict[str, int]:
    """Number of consuming loads per name in an expression/statement: `x is None` tests and isinstance(x, ..) do not consume;
    the two arms of a conditional expression are alternatives."""
    counts: dict[str, int] = {}

    def merge_max(a: dict, b: dict) -> dict:
        return {k: max(a.get(k, 0), b.get(k, 0)) for k in set(a) | set(b)}

    def add(a: dict, b: dict) -> dict:
        return {k: a.get(k, 0) + b.get(k, 0) for k in set(a) | set(b)}

    def rec_test(n: ast.AST) -> dict:
        """A name tested for truth (`if xs:`, `not xs`, `xs and ..`) is looked at, not traversed."""
        if isinstance(n, ast.Name):
            return {}
        if isinstance(n, ast.UnaryOp) and isinstance(n.op, ast.Not):
            return rec_test(n.operand)
        if isinstance(n, ast.BoolOp):
            out: dict = {}
            for v in n.values:
                out = add(out, rec_test(v))
            return out
        return rec(n)

    def rec(n: ast.AST) -> dict:
        if isinstance(n, ast.Name):
            return {n.id: 1} if isinstance(n.ctx, ast.Load) else {}
        if isinstance(n, ast.Compare) and len(n.ops) == 1 and isinstance(n.ops[0], (ast.Is, ast.IsNot)) and isinstance(n.left, ast.Name):
            return rec(n.comparators[0])
        if isinstance(n, ast.Call) and isinstance(n.func, ast.Name) and n.func.id in ("isinstance", "type", "id") and n.args and isinstance(n.args[0], ast.Name):
            out: dict = {}
            for a in n.args[1:]:
                out = add(out, rec(a))
            return out
        if isinstance(n, ast.IfExp):
            return add(rec_test(n.test), merge_max(rec(n.body), rec(n.orelse)))
        if isinstance(n, (ast.FunctionDef, ast.AsyncFunctionDef, ast.ClassDef)):
            return {}
        out = {}
        for c in ast.iter_child_nodes(n):
            out = add(out, rec(c))
        return out
    return rec_test(node) if as_test else rec(node)


def lazy_reuse_findings(func: ast.FunctionDef, lazy_assign_nodes: set[int], lazy_params: set[str] = frozenset()) -> list[tuple[ast.AST, str]]:
    """Names bound to a single-use iterator that are loaded more than once on some path.

    ``lazy_assign_nodes``: ids of the Assign statements whose value is a single-use iterator.
    State: frozenset of (name, 'fresh'|'used').
    """
    findings: list[tuple[ast.AST, str]] = []
    for_iters = {id(n.iter) for n in ast.walk(func) if isinstance(n, (ast.For, ast.AsyncFor))}

    def loads_in(node: ast.AST) -> list[ast.Name]:
        out = []
        for n in _walk_same_scope(node):
            if isinstance(n, ast.Name) and isinstance(n.ctx, ast.Load):
                out.append(n)
        # nested lambdas / comprehensions are walked too (a closure over a consumed iterator is still a load)
        return out

    def consume(state: frozenset, node: ast.AST, as_test: bool = False) -> frozenset:
        d = dict(state)
        for name, cnt in _consuming_loads(node, as_test).items():
            st = d.get(name)
            if st is None or cnt == 0:
                continue
            first = next((n for n in loads_in(node) if n.id == name), node)
            if st == "fresh":
                d[name] = "used"
                if cnt > 1:
                    findings.append((first, name))
            elif st == "used":
                findings.append((first, name))
        return frozenset(d.items())

    def transfer(state, node, kind):
        if kind == "call":
            return [state]
        if kind == "test":
            return [consume(state, node, id(node) not in for_iters)]        # the iterable of a for statement is traversed, a test is only looked at
        if kind in ("stmt", "return"):
            if isinstance(node, (ast.Assign, ast.AnnAssign)) and getattr(node, "value", None) is not None:
                state = consume(state, node.value)
                d = dict(state)
                targets = node.targets if isinstance(node, ast.Assign) else [node.target]
                for t in targets:
                    for n in ast.walk(t):
                        if isinstance(n, ast.Name) and isinstance(n.ctx, ast.Store):
                            if id(node) in lazy_assign_nodes and isinstance(t, ast.Name):
                                d[n.id] = "fresh"
                            else:
                                d.pop(n.id, None)
                        elif isinstance(n, ast.Name):
                            pass
                    if not isinstance(t, ast.Name):
                        # loads inside subscript / attribute targets
                        st2 = consume(frozenset(d.items()), t)
                        d = dict(st2)
                return [frozenset(d.items())]
            if isinstance(node, ast.AugAssign):
                return [consume(state, node)]
            return [consume(state, node)]
        return [state]

    class _F(Flow):
        # the loop variable of ``for x in it`` re-binds x: handled by consume() not knowing x; fine
        pass

    _F(func, transfer).run({frozenset((p, "fresh") for p in lazy_params)})
    # unique by position
    seen, out = set(), []
    for n, name in findings:
        k = (n.lineno, n.col_offset)
        if k not in seen:
            seen.add(k)
            out.append((n, name))
    return out


_L1_CONTROL = '''
def control(g):
    xs = map(str, g)
    for a in xs:
        pass
    for b in xs:
        pass
def twin(g, flag):
    xs = map(str, g)
    if flag:
        return list(xs)
    else:
        return tuple(xs)
'''


def rule_l1_lazy_reuse(prog: Program, col: Collector) -> None:
    col.rule("L1", "a name bound to a single-use iterator (map/filter/generator expression/all_coalitions(...)/...) is loaded at most once on any path", 1)
    # positive control and its twin
    tree = ast.parse(_L1_CONTROL)
    ctrl, twin = tree.body[0], tree.body[1]
    if not lazy_reuse_findings(ctrl, {id(ctrl.body[0])}) or lazy_reuse_findings(twin, {id(twin.body[0])}):
        raise AnalysisError("L1 self-check failed (positive control / exclusive-branch twin)")
    lazy = lazy_functions(prog)
    col.note("single-use producers derived from the package: " + ", ".join(sorted(q.replace(P, "") for q in lazy)))
    total = 0
    nfun = 0
    from .hygiene import scope_files
    files = scope_files(prog, col.property_id)       # the property's anchor files and the files of what their functions call
    for ref in prog.all_functions():
        if ref.module.rel() not in files:
            continue
        ft = fterms(prog, ref)
        lazy_nodes = set()
        for e in ft.of_kind("assign"):
            if isinstance(e.node, (ast.Assign, ast.AnnAssign)) and e.data.get("value_node") is not None and is_lazy_term(e.value, lazy):
                # only direct producer calls / generator expressions (a name copied from another name is an alias)
                vn = e.data["value_node"]
                if isinstance(vn, (ast.Call, ast.GeneratorExp, ast.IfExp)):
                    lazy_nodes.add(id(e.node))
        lparams = _iterable_params(ref.node)
        if not lazy_nodes and not lparams:
            continue
        nfun += 1
        for n, name in lazy_reuse_findings(ref.node, lazy_nodes, lparams):
            total += 1
            col.violation(ref.where(n), ref.short, f"lazy-reuse:{name}", f"single-use iterator `{name}` is consumed a second time on some path",
                          "the second traversal sees an exhausted iterator: values and coalitions get out of step or a set of candidates is silently empty",
                          rule="L1")
    col.ok("-", "package", f"{nfun} functions hold single-use iterators in names or Iterable-annotated parameters; {total} reuse(s) found (positive control matched)", rule="L1")


# --------------------------------------------------------------------------------------
# P4 paired arguments
# --------------------------------------------------------------------------------------

def rule_p4_paired(prog: Program, col: Collector) -> None:
    col.rule("P4", "at every X.set_known_values(G.get_values(A), B) site A and B are the same materialised list", 5 if col.property_id == "C11" else 1)
    lazy = lazy_functions(prog)
    n = 0
    for ref in prog.all_functions():
        if ref.cls is not None and ref.node.name == "set_known_values":
            continue
        ft = fterms(prog, ref)
        for e in ft.calls("set_known_values"):
            if len(e.args) != 2:
                continue
            vals, coals = e.args
            if not (vals[0] == "call" and vals[1][0] == "attr" and vals[1][2] == "get_values" and len(vals[2]) == 1):
                col.undecidable(ref.where(e.node), ref.short, f"values argument is not <game>.get_values(<coalitions>): {short(vals, 60)}", rule="P4")
                continue
            n += 1
            A = vals[2][0]
            a_node = None
            v_node = e.arg_nodes[0]
            if isinstance(v_node, ast.Call) and v_node.args:
                a_node = v_node.args[0]
            b_node = e.arg_nodes[1]
            same = A == coals
            col.check(same, ref.where(e.node), ref.short, f"values are fetched for the same coalitions they are stored under ({short(coals, 50)})",
                      construct="pair-differs", necessity="values[i] must be the hidden game's value of coalitions[i]")
            lazyv = is_lazy_term(coals, lazy)
            same_name = isinstance(a_node, (ast.Name, ast.Attribute)) and isinstance(b_node, (ast.Name, ast.Attribute)) \
                and dotted(a_node) == dotted(b_node)
            col.check(not (lazyv and same_name), ref.where(e.node), ref.short, "the shared coalition collection is materialised (not a single-use iterator)",
                      construct="pair-lazy", necessity="get_values consumes the iterator; set_known_values then pairs the values with an empty sequence")
    if n == 0:
        raise AnalysisError("no set_known_values(get_values(A), B) site found")


# --------------------------------------------------------------------------------------
# P2 P3 worker / enumeration
# --------------------------------------------------------------------------------------

def _mutable_globals_read(prog: Program, ref: FuncRef, depth: int = 0, seen: set | None = None) -> list[tuple[FuncRef, str]]:
    seen = seen if seen is not None else set()
    if ref.qual in seen or depth > 3:
        return []
    seen.add(ref.qual)
    ft = fterms(prog, ref)
    out: list[tuple[FuncRef, str]] = []
    for g in ft.of_kind("global"):
        out.append((ref, "global " + ",".join(g.names)))
    for ev in ft.events:
        for v in ev.data.values():
            if isinstance(v, tuple):
                for s in subterms(v):
                    if s[0] == "global" and s[1].startswith(P):
                        gv = prog.global_value(s[1])
                        if gv is not None:
                            val = gv[1]
                            pure = isinstance(val, (ast.Constant, ast.Name, ast.Attribute)) or \
                                (isinstance(val, ast.Call) and ast.unparse(val.func).endswith("getLogger")) or \
                                (isinstance(val, ast.Subscript))          # type aliases: list[Action], Callable[...]
                            name = s[1].rsplit(".", 1)[-1]
                            if not pure and not name.isupper():
                                out.append((ref, s[1]))
                            elif not pure and name.isupper() and isinstance(val, (ast.Dict, ast.List, ast.Set)):
                                pass       # registries are constants by convention (never mutated: checked by REG rules)
    # writes into module-level objects, whatever their name
    def _root(t):
        while isinstance(t, tuple) and t[0] in ("index", "attr"):
            t = t[1]
        return t
    for ev in list(ft.of_kind("store")) + list(ft.of_kind("aug")):
        r = _root(ev.target)
        if isinstance(r, tuple) and r[0] == "global" and r[1].startswith(P) and prog.global_value(r[1]) is not None:
            out.append((ref, f"write into module-level {r[1]}"))
    for e in ft.calls():
        if e.recv is not None and e.name in ("append", "add", "update", "setdefault", "pop", "clear", "extend", "insert", "remove", "discard"):
            r = _root(e.recv)
            if isinstance(r, tuple) and r[0] == "global" and r[1].startswith(P) and prog.global_value(r[1]) is not None:
                out.append((ref, f"mutation of module-level {r[1]} via .{e.name}()"))
    for e in ft.calls():
        callee = resolve_callee(prog, ft, e)
        if callee is not None:
            out.extend(_mutable_globals_read(prog, callee, depth + 1, seen))
    return out


def rule_c11_worker(prog: Program, col: Collector) -> None:
    col.rule("P2", "the pool worker re-initialises its game from its arguments, recomputes before the gap, touches no module-level mutable state and returns the caller's own sequence", 4)
    ref = prog.func("gameplay._get_act_sequence_exploitability")
    ft = fterms(prog, ref)
    params = ref.positional_params()
    game = ("param", params[0])
    bad = _mutable_globals_read(prog, ref)
    col.check(not bad, ref.where(), ref.short, "worker and the helpers it calls read no module-level mutable state" + (f" ({bad[0][1]} in {bad[0][0].short})" if bad else ""),
              construct="worker-global-state", necessity="a task's result must be a function of its arguments, whatever ran before in that worker process")
    t1 = T1(prog)
    # the worker must reset the knowledge of its game copy from its arguments
    exits, _ = t1.run(ref, game, {"CLEAN"})
    aps = [e for e in ft.calls() if is_global(e.func, P + "gameplay.apply_action_sequence")]
    sk = [e for e in ft.calls("set_known_values") if e.recv == game]
    col.check(bool(aps) or bool(sk), ref.where(), ref.short, "worker resets the knowledge of its game to (starting knowledge + the set)", construct="worker-reset",
              necessity="the gap reported for a set must be that of the game in which exactly the starting knowledge plus that set is known")
    guarded = [e for e in aps + sk if [f for f in e.ctx if f[0] in ("if", "for", "while", "try")]]
    col.check(not guarded, ref.where(guarded[0].node if guarded else None), ref.short,
              "the knowledge reset of the worker is unconditional (also for the empty set: the game copy then holds exactly the starting knowledge, with THIS task's values)",
              construct="worker-reset-conditional",
              necessity="the game copy a task receives carries whatever its caller or an earlier sample left in it (the expected-greedy search hands over the environment's own "
                        "game and evaluates it against freshly sampled hidden games): skipping the reset for the empty set reports the caller's gap for every sample in row 0")
    for e in sk:
        vals = e.args[0] if e.args else ("unknown", "")
        own_reads = [s2 for s2 in subterms(vals) if s2[0] == "call" and s2[1][0] == "attr" and s2[1][1] == game and s2[1][2] in ("get_values", "get_value", "get_known_values")]
        col.check(not own_reads, ref.where(e.node), ref.short, "every value the worker sets is fetched from the hidden full game (not from its own game copy)",
                  construct="worker-values-from-own-game",
                  necessity="the worker's game copy holds whatever an earlier task or sample left in it: the starting knowledge must carry the CURRENT full game's values")
    for e in aps:
        okargs = len(e.args) >= 3 and e.args[0] == game and e.args[1] == ("param", params[1]) and e.args[2] == ("param", params[2])
        inc = e.kwargs.get("include") if "include" in e.kwargs else (e.args[3] if len(e.args) > 3 else None)
        col.check(okargs and inc == ("param", params[3]), ref.where(e.node), ref.short,
                  "apply_action_sequence(game, full_game, action_sequence, include=known_coalitions)", construct="worker-apply-args",
                  necessity="values come from the hidden full game; the starting knowledge must be included")
    check_function(t1, col, ref, game, "P2")
    # evaluation order: reset knowledge -> recompute -> gap (terms do not carry time, events do)
    gaps = [e for e in ft.calls() if e.func == ("param", params[4]) and e.args == (game,)]
    comps = [e for e in ft.calls("compute_bounds") if e.recv == game]
    resets_ = aps + sk
    ordered = bool(gaps) and bool(comps) and bool(resets_) and all(max(r.seq for r in resets_) < c.seq for c in comps[-1:]) and \
        all(g.seq > comps[-1].seq for g in gaps)
    col.check(ordered, ref.where(gaps[0].node if gaps else None), ref.short, "the gap is evaluated after the knowledge reset and the recomputation",
              construct="worker-order", necessity="a gap taken before the reset is the gap of whatever knowledge the previous task left in this worker's game copy",
              rule="P2")
    rets = list(ft.of_kind("return"))
    okr = len(rets) == 1 and rets[0].value[0] == "tuple" and len(rets[0].value[1]) == 2 and rets[0].value[1][0] == ("param", params[2]) \
        and rets[0].value[1][1] == ("call", ("param", params[4]), (game,), ())
    col.check(okr, ref.where(), ref.short, "returns (the caller's action_sequence, gap_func(game))", construct="worker-return",
              necessity="the sequence reported must be the enumerated set itself, not the one unioned with the starting knowledge")
    # apply_action_sequence: union with include, then paired set_known_values
    aref = prog.func("gameplay.apply_action_sequence")
    aft = fterms(prog, aref)
    ap = aref.positional_params()
    sk = [e for e in aft.calls("set_known_values") if e.recv == ("param", ap[0])]
    oku = False
    if sk and len(sk[0].args) == 2:
        seq = sk[0].args[1]
        for s in subterms(seq):
            if s[0] == "call" and s[1][0] == "attr" and s[1][2] == "union" and has_subterm(s, ("param", ap[2])) and has_subterm(s, ("param", ap[3])):
                oku = True
        okv = sk[0].args[0] == ("call", ("attr", ("param", ap[1]), "get_values"), (seq,), ())
        col.check(okv, aref.where(sk[0].node), aref.short, "values are taken from full_game for exactly the coalitions being set", construct="apply-values",
                  necessity="the known coalitions must carry the hidden game's values")
    col.check(oku, aref.where(), aref.short, "the sequence is united with `include` (the starting knowledge)", construct="apply-union",
              necessity="set_known_values drops everything else: without the union the starting knowledge is lost")

    # the mutating worker may run in-process only on a copy: through the pool every task gets a pickled copy of the game
    direct = []
    for fr in prog.all_functions():
        if fr.qual == ref.qual:
            continue
        f2 = fterms(prog, fr)
        for e in f2.calls():
            if is_global(e.func, P + "gameplay._get_act_sequence_exploitability") and e.args:
                direct.append((fr, e))
    for fr, e in direct:
        g0 = e.args[0]
        is_copy = (g0[0] == "call" and g0[1][0] == "attr" and g0[1][2] == "copy") or is_call_to(g0, "copy.copy", "copy.deepcopy")
        col.check(is_copy, fr.where(e.node), fr.short, "a direct (in-process) call of the worker operates on a copy of the game",
                  construct="worker-direct-call",
                  necessity="the worker resets the knowledge of the game it is given: called in-process on the caller's own game (an env's incomplete game) "
                            "it destroys the caller's state, and the result differs from the pooled path that works on pickled copies", rule="P2")

    col.rule("P3", "possible_action_sequences = combinations of the UNKNOWN coalitions for every size 0..max_size inclusive (each set exactly once)", 4)
    pref = prog.func("gameplay.possible_action_sequences")
    pft = fterms(prog, pref)
    pp = pref.positional_params()
    rets = list(pft.of_kind("return"))
    if len(rets) != 1:
        raise AnalysisError("possible_action_sequences: expected a single return")
    rv = rets[0].value
    from .common import distinct
    comb = distinct(s for s in subterms(rv) if s[0] == "call" and s[1][0] == "global" and (s[1][1].startswith("itertools.") or "." not in s[1][1]) and
                    s[1][1].rsplit(".", 1)[-1] in ("combinations", "permutations", "product", "combinations_with_replacement"))
    if not comb:
        # no itertools enumeration in the returned expression at all (a generator function with loops of its own, a helper): not this idiom family
        raise AnalysisError(f"possible_action_sequences: the enumeration is not an itertools expression in the returned value ({short(rv, 60)}): not read through")
    col.check(len(comb) == 1 and comb[0][1][1] == "itertools.combinations", pref.where(), pref.short,
              f"subsets are generated by itertools.combinations ({[c[1][1] for c in comb]})", construct="enum-combinations",
              necessity="permutations / product / with_replacement enumerate a set several times or with repeats")
    if comb:
        c = comb[0]
        pool_t = c[2][0] if c[2] else ("unknown", "")
        src = pool_t
        while is_call_to(src, "list", "tuple", "sorted") and src[2]:
            src = src[2][0]
        ok_src = src == ("call", ("global", P + "gameplay.possible_next_actions"), (("param", pp[0]),), ())
        col.check(ok_src and is_call_to(pool_t, "list", "tuple", "sorted"), pref.where(), pref.short,
                  "the pool is the materialised list of possible_next_actions(game), unrestricted", construct="enum-pool",
                  necessity="every still-unknown coalition must be a candidate; a lazy pool would be exhausted by the first size")
        # the size loop
        gens = [s for s in subterms(rv) if s[0] == "comp" and any(has_subterm(s[2], c) for _ in [0])]
        okrange = False
        for g in gens:
            elem, it, conds = g[3][0]
            if is_call_to(it, "range") and not conds and len(c[2]) == 2 and c[2][1] == elem:
                args = it[2]
                hi = args[0] if len(args) == 1 else (args[1] if len(args) == 2 and args[0] == ("const", 0) else None)
                if hi is not None and hi[0] == "bin" and hi[1] == "+" and hi[3] == ("const", 1):
                    ms = hi[2]
                    # max_size = max_size if max_size is not None else len(possible_actions)
                    okrange = has_subterm(ms, ("param", pp[1]))
                    mp = ("param", pp[1])
                    if ms != mp:
                        none_test = ms[0] in ("ifexp", "phi") and (
                            (ms[1] in (("cmp", "is not", mp, ("const", None)), ("cmp", "!=", mp, ("const", None))) and ms[2] == mp) or
                            (ms[1] in (("cmp", "is", mp, ("const", None)), ("cmp", "==", mp, ("const", None))) and ms[3] == mp))
                        col.check(none_test, pref.where(), pref.short,
                                  "the size bound falls back to 'all' only when max_size IS None (0 is a valid bound: only the empty set)",
                                  construct="enum-none-test",
                                  necessity="`max_size or n` treats the limit 0 as unbounded: the search enumerates every subset instead of the empty set only")
        col.check(okrange, pref.where(), pref.short, "sizes range over range(0 .. max_size + 1)", construct="enum-range",
                  necessity="range(max_size) misses the largest sets, range(1, ..) misses the empty set (row 0 of best-states)")
    nref = prog.func("gameplay.possible_next_actions")
    nft = fterms(prog, nref)
    np_ = nref.positional_params()
    rv = list(nft.of_kind("return"))
    okn = False
    if len(rv) == 1 and rv[0].value[0] == "comp":
        cc = rv[0].value
        elem, it, conds = cc[3][0]
        okn = cc[2] == elem and is_call_to(it, P + "coalitions.all_coalitions") and len(conds) == 1 and \
            conds[0] == ("un", "not", ("call", ("attr", ("param", np_[0]), "is_value_known"), (elem,), ()))
    col.check(okn, nref.where(), nref.short, "possible_next_actions = all coalitions whose value is not known", construct="enum-unknown",
              necessity="exactly the still-unknown coalitions are candidates")
    # the pool sites hand (game, full_game, seq, known, gap) to the worker
    gref = prog.func("gameplay.get_exploitabilities_of_action_sequences")
    gft = fterms(prog, gref)
    kn = [e for e in gft.of_kind("assign") if is_call_to(e.value, "list") and e.value[2] and
          is_call_to(e.value[2][0], P + "coalitions.get_known_coalitions")]
    col.check(bool(kn), gref.where(), gref.short, "the starting knowledge is captured as a list before the pool starts", construct="known-captured",
              necessity="the starting knowledge must be the same for every task")
    sm = [e for e in gft.calls() if e.name in ("starmap", "map", "imap", "imap_unordered") and e.args and e.args[0] == ("global", P + "gameplay._get_act_sequence_exploitability")]
    okt = False
    if sm and len(sm[0].args) > 1 and sm[0].args[1][0] == "comp":
        tup = sm[0].args[1][2]
        elem, it, conds = sm[0].args[1][3][0]
        gp = gref.positional_params()
        okt = tup[0] == "tuple" and len(tup[1]) == 5 and tup[1][0] == ("param", gp[0]) and tup[1][1] == ("param", gp[1]) and tup[1][2] == elem \
            and kn and tup[1][3] == kn[0].value and tup[1][4] == ("param", gp[2]) and is_call_to(it, P + "gameplay.possible_action_sequences") and not conds
    col.check(okt, gref.where(), gref.short, "tasks are (game, full_game, seq, known, gap) for every enumerated seq, in the worker's parameter order",
              construct="task-tuple", necessity="a dropped or reordered task evaluates the wrong set")


def rule_c11_best_states(prog: Program, col: Collector) -> None:
    col.rule("P5", "best-states: column i of the sampled values is paired with sample_actions[i]; the smaller mean is kept; rows indexed by len(sequence)", 4)
    ref = prog.func("run.best_states.get_best_exploitability")
    ft = fterms(prog, ref)
    samp = [e for e in ft.calls() if is_global(e.func, P + "gameplay.sample_exploitabilities_of_action_sequences")]
    if len(samp) != 1:
        raise AnalysisError("get_best_exploitability: sampling call not found")
    S = samp[0].term
    actions_t, values_t = ("index", S, ("const", 0)), ("index", S, ("const", 1))
    # `for i, seq in enumerate(sample_actions)` is recorded as `for i in range(len(sample_actions))` with seq = sample_actions[i]
    # ... and `for seq, column in zip(sample_actions, sample_values.T)` as a loop over the common positions (one column per sequence)
    len_a = ("call", ("global", "len"), (actions_t,), ())
    len_c = ("call", ("global", "len"), (("attr", values_t, "T"),), ())
    loops = [e for e in ft.of_kind("loop") if e.iter in (("call", ("global", "range"), (len_a,), ()),
                                                         ("call", ("global", "range"), (("call", ("global", "min"), (len_a, len_c), ()),), ()))]
    if not loops:
        col.undecidable(ref.where(), ref.short, "selection loop is not `for i, seq in enumerate(sample_actions)`")
        return
    lp = loops[0]
    elem = ("elem", lp.iter, lp.uid)
    i_t, seq_t = elem, ("index", actions_t, elem)
    stores = [e for e in ft.of_kind("store") if any(f[0] == "for" and f[1] == lp.uid for f in e.ctx)]
    steps = ("call", ("global", "len"), (seq_t,), ())
    col_i = ("index", values_t, ("tuple", (("slice", None, None, None), i_t)))
    col_t = ("index", ("attr", values_t, "T"), i_t)        # the same column of the (samples x sequences) matrix through its transpose
    vstore = [e for e in stores if e.value in (col_i, col_t)]
    if vstore and vstore[0].value == col_t:
        col_i = col_t
    col.check(len(vstore) == 1 and vstore[0].index == steps, ref.where(vstore[0].node if vstore else None), ref.short,
              "best[len(seq)] = sample_values[:, i] with i the enumerate index of seq", construct="best-column",
              necessity="the gap column must belong to the action sequence it is reported with")
    astore = [e for e in stores if e is not (vstore[0] if vstore else None) and e.index == steps]
    oka = False
    for e in astore:
        v = e.value
        if v[0] == "comp" and v[3][0][1] == seq_t and v[2] == ("attr", v[3][0][0], "id"):
            oka = True
    col.check(oka, ref.where(astore[0].node if astore else None), ref.short, "best_actions[len(seq)] = ids of that same sequence", construct="best-actions",
              necessity="the set reported must attain the reported gaps")
    # guard: placeholder or current > candidate
    okg = False
    if vstore:
        for f in vstore[0].ctx:
            if f[0] == "if" and f[2] is True:
                t = f[1]
                disj = list(t[2]) if t[0] == "bool" and t[1] == "or" else [t]
                for d in disj:
                    if d[0] == "cmp" and d[1] in (">", "<"):
                        cur, cand = (d[2], d[3]) if d[1] == ">" else (d[3], d[2])
                        cur_ok = is_call_to(cur, "numpy.mean") and cur[2] and cur[2][0][0] == "index" and cur[2][0][2] == steps
                        cand_ok = is_call_to(cand, "numpy.mean") and cand[2] and cand[2][0] == col_i
                        if cur_ok and cand_ok:
                            okg = True
    col.check(okg, ref.where(vstore[0].node if vstore else None), ref.short, "replacement happens iff the current mean is LARGER than the candidate's mean (or the row is still the placeholder)",
              construct="best-compare", necessity="best-states reports for each size the MINIMUM mean gap over the sampled games")
    # "no set of this size seen yet" must not be encoded as a value a mean gap can take
    if vstore:
        for f in vstore[0].ctx:
            if f[0] == "if" and f[2] is True:
                t = f[1]
                disj = list(t[2]) if t[0] == "bool" and t[1] == "or" else [t]
                for d in disj:
                    if d[0] == "cmp" and d[1] == "==" and any(is_call_to(x, "numpy.mean") or (x[0] == "index" and x[2] == steps) for x in subterms(d)):
                        other = d[3] if (is_call_to(d[2], "numpy.mean") or d[2][0] == "index") else d[2]
                        if other[0] == "un" and other[1] in ("-", "+") and other[2][0] == "const":
                            other = other[2]          # -1 is a unary minus on a literal
                        finite = other[0] == "const" and isinstance(other[1], (int, float)) and not isinstance(other[1], bool) and other[1] == other[1]
                        col.check(not finite, ref.where(vstore[0].node), ref.short,
                                  f"the 'nothing seen yet' test does not compare the row's mean with a finite value ({short(other, 20)})", construct="best-value-sentinel",
                                  necessity="a set whose real mean gap equals the sentinel (-1 occurs for games outside the assumed class, which 'any game' includes) is treated as "
                                            "an empty slot and overwritten by a worse set; and sizes for which no set exists are reported with the sentinel as their 'minimum'")
    for e in vstore + astore[:1]:
        same_guard = [f[:3] for f in e.ctx] == [f[:3] for f in vstore[0].ctx]
        col.check(same_guard, ref.where(e.node), ref.short, "values and actions are replaced under the same condition", construct="best-same-guard",
                  necessity="a set reported with another set's gaps is not a set attaining them")
    from .common import bound_args
    kw = bound_args(prog, samp[0])
    pr = ref.positional_params()
    col.check(kw.get("max_size") == ("param", pr[1]) and kw.get("samples") == ("param", pr[2]), ref.where(samp[0].node), ref.short,
              "sampling uses max_size=max_steps and samples=repetitions", construct="best-sampling-args", necessity="the search must enumerate sets up to the requested size and sample the requested number of games")

    col.rule("P9", "MetaGame works on a copy; get_value = paired reset to (chosen coalitions + minimal information), recompute, divergence", 4)
    mm = prog.methods("meta_game.MetaGame")
    init, gv = mm.get("__init__"), mm.get("get_value")
    if init is None or gv is None:
        raise AnchorMissing("MetaGame.__init__/get_value not found")
    ift = fterms(prog, init)
    SELF = ("param", "self")
    st = [e for e in ift.of_kind("store") if e.attr == "_incomplete"]
    ip = init.positional_params()
    col.check(bool(st) and st[-1].value == ("call", ("attr", ("param", ip[2]), "copy"), (), ()), init.where(), init.short,
              "MetaGame keeps a COPY of the incomplete game it is given", construct="meta-copy",
              necessity="get_value resets the game's knowledge: working on the caller's object corrupts the caller")
    kz = [e for e in ift.of_kind("store") if e.attr == "k_zero"]
    okk = bool(kz) and is_call_to(kz[-1].value, "list") and kz[-1].value[2] and is_call_to(kz[-1].value[2][0], P + "coalitions.minimal_game_coalitions")
    col.check(okk, init.where(), init.short, "k_zero is the materialised minimal information", construct="meta-kzero", necessity="the meta-game's knowledge is the minimal information plus the chosen coalitions: k_zero must be exactly the minimal information (materialised: it is iterated repeatedly)")
    pl = [e for e in ift.of_kind("store") if e.attr == "players"]
    okp = False
    if pl and pl[-1].value[0] == "comp":
        v = pl[-1].value
        elem, it, conds = v[3][0]
        okp = v[2] == elem and is_call_to(it, P + "coalitions.all_coalitions") and len(conds) == 1 and conds[0][0] == "cmp" and conds[0][1] == "not in" and conds[0][2] == elem
    col.check(okp, init.where(), init.short, "meta players = all coalitions outside the minimal information", construct="meta-players", necessity="the meta-game's players are exactly the coalitions that can be revealed")
    gft = fterms(prog, gv)
    Rm = ("attr", SELF, "_incomplete")
    t1 = T1(prog)
    check_function(t1, col, gv, Rm, "P9")
    sk = [e for e in gft.calls("set_known_values") if e.recv == Rm]
    okset = False
    if sk and len(sk[0].args) == 2:
        inner = sk[0].args[1]
        okset = sk[0].args[0] == ("call", ("attr", ("attr", SELF, "game"), "get_values"), (inner,), ()) and \
            has_subterm(inner, ("attr", SELF, "k_zero")) and has_subterm(inner, ("attr", SELF, "players")) and inner[0] == "bin" and inner[1] == "+"
    col.check(okset, gv.where(), gv.short, "known set = chosen players' coalitions + k_zero, values from the full game for that same list", construct="meta-known",
              necessity="the meta-game must return the gap of exactly (minimal information + chosen coalitions)")
    rv = list(gft.of_kind("return"))
    col.check(len(rv) == 1 and rv[0].value == ("call", ("attr", SELF, "divergence"), (Rm,), ()), gv.where(), gv.short,
              "returns divergence(self._incomplete)", construct="meta-return", necessity="the value of a meta-coalition is the gap of the game with exactly that knowledge")


def rule_p6_sampled_search(prog: Program, col: Collector) -> None:
    """The sampled exhaustive search works from the STARTING knowledge of the game it is given, re-set for every sampled game."""
    col.rule("P6", "sample_exploitabilities_of_action_sequences: the starting knowledge is list(get_known_coalitions(game)), captured once before any reset, "
                   "and every sampled game re-sets exactly that knowledge with its own values", 3)
    ref = prog.func("gameplay.sample_exploitabilities_of_action_sequences")
    ft = fterms(prog, ref)
    pp = ref.positional_params()
    G, GEN = ("param", pp[0]), ("param", pp[1])
    want = ("call", ("global", "list"), (("call", ("global", P + "coalitions.get_known_coalitions"), (G,), ()),), ())
    resets = [e for e in ft.calls("set_known_values") if e.recv == G]
    if not resets:
        raise AnalysisError("sample_exploitabilities_of_action_sequences: no game.set_known_values(...) call found")
    NEC = ("the search reports the gap of (starting knowledge + set): starting from anything else - the minimal information, a filtered or re-computed list - "
           "forgets coalitions the caller's game already knows, enumerates sets that contain them and reports gaps of another knowledge state")
    for e in resets:
        ok = len(e.args) == 2 and e.args[1] == want and e.args[0][0] == "call" and e.args[0][1][0] == "attr" and e.args[0][1][2] == "get_values" and e.args[0][2] == (want,) \
            and e.args[0][1][1][0] == "call" and e.args[0][1][1][1] == GEN
        col.check(ok, ref.where(e.node), ref.short, "set_known_values(sampled_full_game.get_values(K), K) with K = list(get_known_coalitions(game))", construct="sample-start-knowledge",
                  necessity=NEC)
    # K is captured before the first reset (afterwards the game's knowledge is K anyway, but a capture inside the loop would also pick up leftovers)
    first_reset = min(e.seq for e in resets)
    caps = [e for e in ft.calls() if is_global(e.func, P + "coalitions.get_known_coalitions")]
    col.check(bool(caps) and all(e.seq < first_reset and not any(f[0] in ("for", "while") for f in e.ctx) for e in caps), ref.where(caps[0].node if caps else None), ref.short,
              "the starting knowledge is read once, before the first reset and outside the sampling loop", construct="sample-capture-order", necessity=NEC)
    # every sampled game is the one its evaluation is BOUND to: terms carry no identity (two draws are one term), so this is decided on events -
    # the evaluation of a draw is a call of the worker (or the creation of a functools.partial of it) that happens after that draw, in the same loop
    WORKER = P + "gameplay.get_exploitabilities_of_action_sequences"
    draws = [e for e in ft.calls() if e.func == GEN]
    bindings = []
    for e in ft.calls():
        if is_global(e.func, WORKER):
            bindings.append((e, e))
        elif e.func[0] == "call" and is_global(e.func[1], "functools.partial") and e.func[2] and is_global(e.func[2][0], WORKER):
            made = [p for p in ft.calls() if p.term == e.func]
            if made:
                bindings.append((e, min(made, key=lambda p: p.seq)))

    def loops_of(ev) -> tuple:
        return tuple(f[1] for f in ev.ctx if f[0] in ("for", "while"))
    if not draws or not bindings:
        col.undecidable(ref.where(), ref.short, "draws of the full game / calls of the search worker not found", rule="P6")
    for d in draws:
        okb = any(b.seq > d.seq and use.seq > d.seq and loops_of(b) == loops_of(d) and loops_of(use) == loops_of(d) for use, b in bindings)
        col.check(okb, ref.where(d.node), ref.short,
                  "each drawn game is evaluated by a worker call bound AFTER the draw, in the same iteration (no evaluation callable captured before the loop)",
                  construct="sample-stale-binding",
                  necessity="a functools.partial (or closure default) created before the loop keeps the FIRST game: every later row repeats sample 0 while the knowledge is re-set from the new game")
