"""T1: recompute-before-observe typestate (C09, C11), with interprocedural summaries.

Per receiver R of game type: knowledge mutators -> DIRTY; R.compute_bounds() -> CLEAN.
Observers: O1 a gap function applied to R (directly, or through a helper / property whose summary says so);
O2 raw bound getters on R, counted only where bounds are computed for R in the same function / class.
No observer may execute in state DIRTY on any path.
"""
from __future__ import annotations

import ast

from ..core import AnalysisError, FuncRef, Program, registry, unwrap_partial
from ..flow import Flow
from ..report import Collector
from ..terms import Term, is_global, show, subterms
from .common import fterms, has_subterm, resolve_callee, short

MUTATORS = {"set_known_values", "reveal_value", "unreveal_value", "set_value", "set_values", "unset_value", "_init_values"}
BOUND_GETTERS = {"get_upper_bounds", "get_lower_bounds", "get_upper_bound", "get_lower_bound", "get_interval", "get_intervals"}
CLEAN, DIRTY = "CLEAN", "DIRTY"


class T1:
    def __init__(self, prog: Program) -> None:
        self.prog = prog
        self.gap_targets: set[str] = set()
        try:
            for e in registry(prog, "run.model.GAP_FUNCTIONS"):
                callee, _, _, module, _ = unwrap_partial(prog, e.module, e.value, e.env)
                q = prog.resolve(module, callee)
                if q:
                    self.gap_targets.add(q)
                q0 = prog.resolve(e.module, e.value)
                if q0:
                    self.gap_targets.add(q0)
        except AnalysisError:
            pass
        self._summaries: dict = {}
        self._observes: dict = {}

    # ------------------------------------------------------------------ gap-typed callees
    def _annotation_is_gap(self, ann: ast.expr | None) -> bool:
        return ann is not None and "GapFunction" in ast.unparse(ann)

    def is_gap_callee(self, f: Term, ref: FuncRef) -> bool:
        if f[0] == "global" and f[1] in self.gap_targets:
            return True
        if f[0] == "param":
            a = ref.node.args
            for x in a.posonlyargs + a.args + a.kwonlyargs:
                if x.arg == f[1] and self._annotation_is_gap(x.annotation):
                    return True
        if f[0] == "attr" and f[2] == "gap_function_callable":
            return True
        if f[0] == "attr" and f[1] == ("param", "self") and ref.cls is not None:
            # self.a assigned from a GapFunction-annotated parameter in __init__
            for n in ref.cls.body:
                if isinstance(n, ast.FunctionDef) and n.name in ("__init__", "__post_init__"):
                    ann = {x.arg: x.annotation for x in n.args.posonlyargs + n.args.args + n.args.kwonlyargs}
                    for s in ast.walk(n):
                        if isinstance(s, ast.Assign) and len(s.targets) == 1 and isinstance(s.targets[0], ast.Attribute) \
                                and isinstance(s.targets[0].value, ast.Name) and s.targets[0].value.id == "self" \
                                and s.targets[0].attr == f[2] and isinstance(s.value, ast.Name) \
                                and self._annotation_is_gap(ann.get(s.value.id)):
                            return True
                if isinstance(n, ast.AnnAssign) and isinstance(n.target, ast.Name) and n.target.id == f[2] \
                        and self._annotation_is_gap(n.annotation):
                    return True
        return False

    # ------------------------------------------------------------------ class helpers
    def _class_members(self, ref: FuncRef) -> dict[str, FuncRef]:
        if ref.cls is None:
            return {}
        return {n.name: FuncRef(ref.module, n, ref.cls) for n in ref.cls.body if isinstance(n, ast.FunctionDef)}

    def computes_bounds_somewhere(self, ref: FuncRef, R: Term) -> bool:
        refs = [ref]
        if R[0] == "attr" and R[1] == ("param", "self"):
            refs = list(self._class_members(ref).values()) or [ref]
        for r in refs:
            ft = fterms(self.prog, r)
            if any(e.recv == R for e in ft.calls("compute_bounds")):
                return True
        return False

    # ------------------------------------------------------------------ the flow
    def run(self, ref: FuncRef, R: Term, init: set[str], depth: int = 0, o2: bool | None = None):
        """Returns (exit states, list of (node, description) observations made in DIRTY state)."""
        key = (ref.qual, R, frozenset(init), o2)
        if key in self._summaries:
            return self._summaries[key]
        self._summaries[key] = (set(init), [])       # recursion guard
        ft = fterms(self.prog, ref)
        by_node = {id(e.node): e for e in ft.calls()}
        members = self._class_members(ref)
        if o2 is None:
            o2 = self.computes_bounds_somewhere(ref, R)
        dirty_obs: list = []
        self_attr = R[0] == "attr" and R[1] == ("param", "self")

        def prop_effect(name: str, state: str):
            """Effect of loading / calling member ``name`` of self on R's state."""
            m = members.get(name)
            if m is None or depth >= 3 or m.qual == ref.qual:
                return {state}, []
            ex, obs = self.run(m, R, {state}, depth + 1, o2)
            return ex, obs

        def transfer(state, node, kind):
            if kind == "call":
                ev = by_node.get(id(node))
                if ev is None:
                    return [state]
                if ev.recv == R:
                    if ev.name in MUTATORS:
                        return [DIRTY]
                    if ev.name == "compute_bounds":
                        return [CLEAN]
                    if ev.name in BOUND_GETTERS and o2 and state == DIRTY:
                        dirty_obs.append((node, f"{short(R, 40)}.{ev.name}() read while bounds are stale"))
                    return [state]
                # self.method(...) of the same class
                if self_attr and ev.recv == ("param", "self") and ev.name in members:
                    ex, obs = prop_effect(ev.name, state)
                    if obs:
                        dirty_obs.append((node, f"self.{ev.name}() observes stale bounds: {obs[0][1]}"))
                    return list(ex)
                passed = [i for i, a in enumerate(ev.args) if a == R] + [k for k, a in ev.kwargs.items() if a == R]
                if passed:
                    if self.is_gap_callee(ev.func, ref):
                        if state == DIRTY:
                            dirty_obs.append((node, f"gap function {short(ev.func, 40)} applied to {short(R, 40)} while bounds are stale"))
                        return [state]
                    callee = resolve_callee(self.prog, ft, ev)
                    if callee is not None and depth < 3 and callee.qual != ref.qual:
                        cp = callee.positional_params()
                        if callee.cls is not None and cp and cp[0] == "self":
                            cp = cp[1:]
                        outs: set = set()
                        any_param = False
                        for p in passed:
                            pname = cp[p] if isinstance(p, int) and p < len(cp) else (p if isinstance(p, str) else None)
                            if pname is None:
                                continue
                            any_param = True
                            ex, obs = self.run(callee, ("param", pname), {state}, depth + 1, None)
                            outs |= ex
                            if obs:
                                dirty_obs.append((node, f"{callee.short}(...) observes stale bounds: {obs[0][1]}"))
                        if any_param:
                            return list(outs)
                return [state]
            if kind in ("stmt", "return", "test") and self_attr:
                # loads of self.<property> that observe R
                out = {state}
                expr_root = node
                for n in ast.walk(expr_root):
                    if isinstance(n, ast.Attribute) and isinstance(n.ctx, ast.Load) and isinstance(n.value, ast.Name) \
                            and n.value.id == "self" and n.attr in members and members[n.attr].is_property():
                        nxt: set = set()
                        for s in out:
                            ex, obs = prop_effect(n.attr, s)
                            nxt |= ex
                            if obs and s == DIRTY:
                                dirty_obs.append((n, f"self.{n.attr} observes stale bounds: {obs[0][1]}"))
                        out = nxt
                return list(out)
            return [state]

        exits = Flow(ref.node, transfer).run(init)
        # de-duplicate observations
        seen = set()
        uniq = []
        for n, d in dirty_obs:
            k = (getattr(n, "lineno", 0), d)
            if k not in seen:
                seen.add(k)
                uniq.append((n, d))
        self._summaries[key] = (exits, uniq)
        return exits, uniq

    def mutated_receivers(self, ref: FuncRef) -> list[Term]:
        ft = fterms(self.prog, ref)
        out: list[Term] = []
        for e in ft.calls():
            if e.recv is not None and e.name in MUTATORS and e.recv not in out and e.recv != ("param", "self"):
                out.append(e.recv)
        return out


NECESSITY = ("a gap / reward / bound read between a knowledge mutation and the next compute_bounds() sees the bounds of the "
             "previous knowledge state: the reward is not the negated gap of freshly recomputed bounds")


def check_function(t1: T1, col: Collector, ref: FuncRef, R: Term, rule: str = "T1", require_clean_exit: bool = False) -> None:
    exits, obs = t1.run(ref, R, {CLEAN})
    col.check(not obs, ref.where(obs[0][0] if obs else None), ref.short,
              f"no observer of {short(R, 40)} runs between a knowledge mutation and compute_bounds()"
              + (f": {obs[0][1]}" if obs else ""), construct=f"stale-observe:{short(R, 40)}", necessity=NECESSITY, rule=rule)
    if require_clean_exit:
        col.check(exits <= {CLEAN}, ref.where(), ref.short,
                  f"{ref.node.name} leaves {short(R, 40)} with freshly computed bounds on every path (exit states {sorted(exits)})",
                  construct=f"dirty-exit:{short(R, 40)}",
                  necessity="callers read env.reward / env.done after the transition: a transition that returns with stale bounds "
                            "hands them the gap of the previous knowledge state", rule=rule)
