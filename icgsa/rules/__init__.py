"""Property -> rules table."""
from __future__ import annotations

from . import save

_NOTE = ("Static analysis of /repo's current source (Python ast, own name resolution, provenance terms, "
         "path-sensitive walks). Decides the structural necessary conditions listed; does not observe numeric behaviour.")

PROPERTIES: dict[str, dict] = {
    "C19": {
        "title": "Saved results read back faithfully and are never overwritten",
        "rules": [save.rule_c19_saver, save.rule_c19_output_roundtrip, save.rule_c19_commands],
        "explanation": _NOTE + " C19: W1 skip-if-present dominates writes; W2 serialised mapping = loaded mapping + new key; "
                       "W3 Output.json/from_json key and column agreement; W4 commands store position 0/1 of what they computed; "
                       "W5 written content is installed; REG-V saver registry and dispatcher.",
        "rule": "one obligation per (rule, site); a site is non-trivial when the rule matched a real construct of the repository",
    },
    "C20": {
        "title": "Saving results is all-or-nothing under a crash",
        "rules": [save.rule_c20_atomic],
        "explanation": _NOTE + " C20: A1 destination never opened for writing in place; A2 temporary sibling; "
                       "A3 atomic replace after close on every writing path; A4 destination never removed.",
        "rule": "one obligation per (rule, write/replace/remove site) reachable from SAVERS['data.json']",
    },
}
