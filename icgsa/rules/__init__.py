"""Property -> rules table."""
from __future__ import annotations

from . import bounds, coalitions, evaluation, game, gameplay, generators, gym, hygiene, normalize, norms, regret, save, shapley, solvers, wiring

_NOTE = ("Static analysis of /repo's current source (Python ast, own name resolution, provenance terms, "
         "path-sensitive walks). Decides the structural necessary conditions listed; does not observe numeric behaviour.")

_SITE_RULE = "one obligation per (rule, site); a site is non-trivial when the rule matched a real construct of the repository"

PROPERTIES: dict[str, dict] = {
    "C01": {"title": "Superadditive bounds always contain the true game", "rules": [bounds.rule_bounds, coalitions.rule_e_enum, coalitions.rule_k3_operators, game.rule_c17_columns, game.rule_c17_compute_and_state, wiring.rule_known_coalitions, hygiene.rule_no_module_state, hygiene.rule_dtypes],
            "explanation": _NOTE + " C01: abstract interpretation of both superadditive computers in the coalition-class domain: "
            "B1 write discipline, B2 coverage, B3 size order, B4 fresh reads, B5 phase order, B6s/B7s soundness shape of the recurrences, B10 relation-table agreement; E-enum completeness of the sub/super enumerations; G1 column discipline of the getters/setters the computers use.",
            "rule": _SITE_RULE},
    "C02": {"title": "Superadditive bounds are tight", "rules": [bounds.rule_bounds, coalitions.rule_e_enum, coalitions.rule_k3_operators, game.rule_c17_columns, hygiene.rule_no_module_state, hygiene.rule_dtypes, game.rule_c17_compute_and_state],
            "explanation": _NOTE + " C02: B6 lower = MAX over exactly all proper non-empty sub-coalitions, B7 upper = MIN over exactly all known proper supersets, B3 order, E-enum completeness of the enumeration helpers in both representations.",
            "rule": _SITE_RULE},
    "C03": {"title": "Cached and reference computers interchangeable", "rules": [bounds.rule_bounds, coalitions.rule_e_enum, coalitions.rule_k3_operators, hygiene.rule_no_module_state, hygiene.rule_dtypes, game.rule_c17_compute_and_state],
            "explanation": _NOTE + " C03: B8 term-equality of the two normalised write schedules, B9 cache hygiene (pure, keyed by n, never mutated by callers), B10 relation-table agreement, REG-B registry/CLI selection.",
            "rule": _SITE_RULE},
    "C04": {"title": "Approximate SAM bounds", "rules": [bounds.rule_bounds, coalitions.rule_e_enum, coalitions.rule_k1_k2, hygiene.rule_no_module_state, hygiene.rule_dtypes, game.rule_c17_getters, game.rule_c17_compute_and_state, game.rule_c17_columns],
            "explanation": _NOTE + " C04: B1/B2/B5 on the SAM computer, B11a phase guard, B11b monotone closure, B11c upper recurrence, B12 registry bindings and repetition range.",
            "rule": _SITE_RULE},
    "C05": {"title": "Exploitability = summed best-case Shapley gain", "rules": [shapley.rule_c05_exploitability, shapley.rule_c06_shapley, coalitions.rule_k3_operators, coalitions.rule_e_enum, hygiene.rule_no_module_state, hygiene.rule_dtypes],
            "explanation": _NOTE + " C05: X1 bound selection of the max-gain game (vector/scalar sibling agreement, polarity), X2 player pairing and aggregation, X3 = the Shapley rules S1-S6.",
            "rule": _SITE_RULE},
    "C06": {"title": "Shapley value", "rules": [shapley.rule_c06_shapley, coalitions.rule_k3_operators, coalitions.rule_e_enum, hygiene.rule_no_module_state, hygiene.rule_dtypes],
            "explanation": _NOTE + " C06: S1 weights s!(n-s-1)! over range(n) as integer linear forms, S2 entry-point agreement, S3 coefficient index, S4 with/without pairing, S5 summand direction and n! divisor, S6 domain.",
            "rule": _SITE_RULE},
    "C07": {"title": "More information never hurts", "rules": [bounds.rule_bounds, norms.rule_n1_gap_registry, shapley.rule_c05_exploitability, shapley.rule_c06_shapley, hygiene.rule_no_module_state, hygiene.rule_dtypes, gym.rule_c09_reset, gym.rule_c09_step, gym.rule_c09_typestate, gym.rule_episode_state_reset, game.rule_c17_compute_and_state, game.rule_c17_columns],
            "explanation": _NOTE + " C07: B13 knowledge polarity of every candidate set in all registered computers; N1 gap-function registry (names, partials, ord) and lp_norm shape; N2 gap polarity of exploitability (upper bounds enter through coalitions with the player, lower bounds without, factorial weights) via X1/X2/S1-S6.",
            "rule": _SITE_RULE},
    "C08": {"title": "Bounds depend only on current knowledge", "rules": [bounds.rule_bounds, gym.rule_h3_undo, gym.rule_c09_typestate, game.rule_c17_copy_neg_init, game.rule_c17_columns, game.rule_c17_compute_and_state, solvers.rule_c13_pairing_readonly, hygiene.rule_no_module_state, hygiene.rule_dtypes, gym.rule_episode_state_reset],
            "explanation": _NOTE + " C08: B1-B5 for all six registered computers, H1 no hidden state.",
            "rule": _SITE_RULE},
    "C09": {"title": "The reveal-one-coalition environment", "rules": [gym.rule_c09_typestate, gym.rule_c09_step, gym.rule_c09_spaces, gym.rule_c09_reset, gym.rule_c09_done, gym.rule_h3_undo, gym.rule_episode_state_reset, wiring.rule_env_factory, wiring.rule_known_coalitions, normalize.rule_m1, normalize.rule_m2345, game.rule_c17_columns, game.rule_c17_getters, game.rule_c17_copy_neg_init, game.rule_c17_compute_and_state, hygiene.rule_no_module_state, hygiene.rule_dtypes, normalize.rule_m6_stale_views],
            "explanation": _NOTE + " C09: T1 recompute-before-observe typestate, Y1 reveal pairing, Y2 index-space agreement, Y3 reset order/aliasing, Y4 explorable set, Y5 reward sign, D1 done predicate, H3 undo pairing.",
            "rule": _SITE_RULE},
    "C10": {"title": "Every offered generator runs and yields a game of its class", "rules": [generators.rule_nsig, generators.rule_nint, generators.rule_nrng, generators.rule_next_nfac, generators.rule_nidx, generators.rule_nrange, wiring.rule_seed_integrity, wiring.rule_graph_game, coalitions.rule_k1_k2, coalitions.rule_k3_operators, hygiene.rule_no_module_state, hygiene.rule_dtypes],
            "explanation": _NOTE + " C10: N-sig registry exhaustiveness against the call convention, N-int NumPy-integer flow into int-dispatching operands (sinks derived from isinstance tests), N-rng RNG-source discipline of every reachable generator function.",
            "rule": _SITE_RULE},
    "C11": {"title": "Exhaustive search", "rules": [evaluation.rule_p1_pool_api, gameplay.rule_c11_worker, gameplay.rule_p4_paired, gameplay.rule_c11_best_states, gameplay.rule_p6_sampled_search, gameplay.rule_l1_lazy_reuse, wiring.rule_known_coalitions, hygiene.rule_no_module_state, hygiene.rule_dtypes],
            "explanation": _NOTE + " C11: P1 order-preserving pool API, P2 worker purity + T1 recompute-before-gap, P3 enumeration shape, P4 paired get_values/set_known_values arguments, P5 best-states selection, P9 meta-game, L1 single-use iterator reuse (path-sensitive, package-wide).",
            "rule": _SITE_RULE},
    "C12": {"title": "evaluate() records true trajectories; independent of parallelism", "rules": [evaluation.rule_c12_recording, evaluation.rule_p1_pool_api, evaluation.rule_c12_rng, wiring.rule_seed_integrity, wiring.rule_solve_wiring, wiring.rule_env_factory, gym.rule_c09_step, hygiene.rule_no_module_state, hygiene.rule_dtypes, gym.rule_episode_state_reset, gym.rule_c09_reset, generators.rule_nrng],
            "explanation": _NOTE + " C12: Q1 recording order/positions/keys in eval_one, Q2 task tuples and stacking in evaluate, P1 order-preserving pool API, Q3 RNG-ownership analysis across the task boundary (shared and process-global RNG state).",
            "rule": _SITE_RULE},
    "C13": {"title": "Built-in solvers", "rules": [solvers.rule_c13_pairing_readonly, solvers.rule_c13_validity, solvers.rule_c13_choice, solvers.rule_c13_expected_greedy, solvers.rule_c13_registry, gym.rule_h3_undo, gym.rule_c09_typestate, gameplay.rule_c11_worker, hygiene.rule_no_module_state, hygiene.rule_dtypes, gym.rule_episode_state_reset],
            "explanation": _NOTE + " C13: V1 step/unstep pairing on all paths, V2 read-only use of the env, V3 returned action drawn from the mask-filtered list, V4 choice rules (extremum polarity, first match), V5 expected greedy (argmin over games axis, append+remove, curve row), REG-S registry.",
            "rule": _SITE_RULE},
    "C14": {"title": "Regret minimiser", "rules": [regret.rule_r1_index_spaces, regret.rule_r1_coalition_args, regret.rule_r2_save_load, regret.rule_r345, regret.rule_r6_viability_filters, coalitions.rule_k3_operators, hygiene.rule_no_module_state, hygiene.rule_dtypes],
            "explanation": _NOTE + " C14: R1 index-space typing (allocation space must contain every index space used on the array; spaces COAL/PID/MID/RANK/RM derived from size expressions and provenance), R2 save/load agreement, R3 plus-clipping order, R4 fallback support, R5 ordering of coalition sets.",
            "rule": _SITE_RULE},
    "C15": {"title": "Normalisation", "rules": [normalize.rule_m1, normalize.rule_m2345, wiring.rule_graph_game, hygiene.rule_no_module_state, hygiene.rule_dtypes, normalize.rule_m6_stale_views],
            "explanation": _NOTE + " C15: M1 cancellation-guarded division (exact-zero vs tolerance guard on a cancellation-derived divisor), M2 norm-info before mutation, M3 inverse agreement and tuple order, M4 view contract of the getters, M5 dispatch exhaustiveness.",
            "rule": _SITE_RULE},
    "C16": {"title": "The size-aggregated environment", "rules": [gym.rule_c16, gym.rule_c09_step, gym.rule_c09_spaces, gym.rule_episode_state_reset, hygiene.rule_no_module_state, hygiene.rule_dtypes],
            "explanation": _NOTE + " C16: Z1 aggregation of every observation/mask, Z2 candidate set = size AND mask, Z3 pass-through, Z4 sizes aligned with the inner explorable list.",
            "rule": _SITE_RULE},
    "C17": {"title": "An incomplete game object is a faithful map", "rules": [game.rule_c17_columns, game.rule_c17_getters, game.rule_c17_copy_neg_init, game.rule_c17_writers, game.rule_c17_compute_and_state, gameplay.rule_l1_lazy_reuse, hygiene.rule_no_module_state, hygiene.rule_dtypes],
            "explanation": _NOTE + " C17: G1 column discipline, G2 guarded getters, G3 masked bulk setters, G4 copy/negation, G5 who-may-write _values, G6 view escape, G7 reset order, G8 reveal/unreveal preconditions.",
            "rule": _SITE_RULE},
    "C18": {"title": "Coalitions are finite sets; predicates match definitions", "rules": [coalitions.rule_k3_operators, coalitions.rule_e_enum, coalitions.rule_k1_k2, hygiene.rule_no_module_state, hygiene.rule_dtypes],
            "explanation": _NOTE + " C18: K3 bit-set algebra - the bitwise expression of every Coalition operator is normalised to its truth table and compared with the set-theoretic specification (decides the operator for all inputs); E-enum completeness-by-construction of the sub/super enumerations in both representations; K1/K2 predicate shape and orientation.",
            "rule": _SITE_RULE},
    "C19": {
        "title": "Saved results read back faithfully and are never overwritten",
        "rules": [save.rule_c19_saver, save.rule_c19_output_roundtrip, save.rule_c19_commands, save.rule_c19_readers, save.rule_c20_atomic, wiring.rule_seed_integrity, hygiene.rule_no_module_state, hygiene.rule_dtypes],
        "explanation": _NOTE + " C19: W1 skip-if-present dominates writes; W2 serialised mapping = loaded mapping + new key; "
                       "W3 Output.json/from_json key and column agreement; W4 commands store position 0/1 of what they computed; "
                       "W5 written content is installed; REG-V saver registry and dispatcher; A1-A5 (shared with C20): a save that fails or is interrupted must not damage the runs already stored.",
        "rule": "one obligation per (rule, site); a site is non-trivial when the rule matched a real construct of the repository",
    },
    "C20": {
        "title": "Saving results is all-or-nothing under a crash",
        "rules": [save.rule_c20_atomic, hygiene.rule_no_module_state],
        "explanation": _NOTE + " C20: A1 destination never opened for writing in place; A2 temporary sibling; "
                       "A3 atomic replace after close on every writing path; A4 destination never removed; A5 nothing outside the saver renames/removes files.",
        "rule": "one obligation per (rule, write/replace/remove site) reachable from SAVERS['data.json']",
    },
}

# package-wide API-misuse rules, reported under every property whose anchor files contain the offending function
for _pid, _p in PROPERTIES.items():
    for _r in (hygiene.rule_view_escape, hygiene.rule_observers_pure, hygiene.rule_reshape_order, hygiene.rule_truthiness_defaults, hygiene.rule_own_column_broadcast, hygiene.rule_observer_alias_mutation, hygiene.rule_getter_result_mutated):
        if _r is hygiene.rule_view_escape and game.rule_c17_writers in _p["rules"]:
            continue          # C17 runs G6 unscoped
        if _r not in _p["rules"]:
            _p["rules"].append(_r)

# every property stated per environment needs each environment to own its game object (a game shared between the
# environments of one ModelInstance is rewritten by the other environments' resets and steps)
for _pid in ("C07", "C08", "C13", "C16"):
    if wiring.rule_env_factory not in PROPERTIES[_pid]["rules"]:
        PROPERTIES[_pid]["rules"].append(wiring.rule_env_factory)

# the incomplete-game object is the substrate of almost every property: under a property that does not run the G rules itself they are evaluated
# on game.py and reported for the methods that property's code can reach (game.rule_game_substrate; no-op when nothing is reachable)
for _pid, _p in PROPERTIES.items():
    _p["rules"].append(game.rule_game_substrate)

for _pid in ("C07", "C08", "C09", "C12", "C13", "C16"):
    PROPERTIES[_pid]["rules"].insert(-1, gym.rule_env_observers_pure)

# single-use iterators consumed twice (L1), reported for the functions in the property's scope
for _pid, _p in PROPERTIES.items():
    if gameplay.rule_l1_lazy_reuse not in _p["rules"]:
        _p["rules"].insert(-1, gameplay.rule_l1_lazy_reuse)

for _pid, _p in PROPERTIES.items():
    for _r in (hygiene.rule_cached_results_immutable, hygiene.rule_decorators_transparent):
        _p["rules"].insert(-1, _r)

for _pid in ("C09", "C11", "C13"):
    if bounds.rule_bounds not in PROPERTIES[_pid]["rules"]:
        PROPERTIES[_pid]["rules"].insert(-1, bounds.rule_bounds)

for _pid in ("C07", "C08", "C09", "C12", "C13", "C16"):
    PROPERTIES[_pid]["rules"].insert(-1, gym.rule_env_holds_no_view)
# coalitions are the keys of everything: the operator algebra (K3) runs under every property whose code handles coalitions
for _pid, _p in PROPERTIES.items():
    if _pid not in ("C19", "C20") and coalitions.rule_k3_operators not in _p["rules"]:
        _p["rules"].insert(-1, coalitions.rule_k3_operators)

# what "a valid action" is (Y2: the mask marks exactly the still-unknown explorable coalitions) belongs to every property that speaks of valid actions
for _pid in ("C12", "C13"):
    if gym.rule_c09_spaces not in PROPERTIES[_pid]["rules"]:
        PROPERTIES[_pid]["rules"].insert(-1, gym.rule_c09_spaces)

if gym.rule_c09_step not in PROPERTIES["C13"]["rules"]:
    PROPERTIES["C13"]["rules"].insert(-1, gym.rule_c09_step)     # the solvers probe with step / unstep: the transitions are total (Y1)
