"""C15: normalisation (M1-M5)."""
from __future__ import annotations

import ast

from ..core import AnalysisError, AnchorMissing, FuncRef, Program
from ..report import Collector
from ..terms import Term, is_call_to, is_global, show, subterms
from .common import fterms, has_subterm, short

P = "incomplete_cooperative."
TOL_FUNCS = ("numpy.isclose", "math.isclose", "numpy.allclose")


def _cancellation_derived(ft, gamep: Term, D: Term) -> tuple[bool, str]:
    """D is (or is read back from a game into which the function stored) a float subtraction of game values."""
    def has_value_sub(t: Term) -> bool:
        for s in subterms(t):
            if s[0] == "bin" and s[1] == "-" and any(
                    x[0] == "call" and x[1][0] == "attr" and x[1][2] in ("get_value", "get_values") for x in subterms(s)):
                return True
        return False
    if has_value_sub(D):
        return True, "is a difference of game values"
    reads_game = any(s[0] == "call" and s[1][0] == "attr" and s[1][1] == gamep and s[1][2] in ("get_value", "get_values", "get_upper_bounds", "get_lower_bounds")
                     for s in subterms(D))
    if reads_game:
        for e in ft.calls():
            if e.recv == gamep and e.name in ("set_value", "set_values") and e.args and has_value_sub(e.args[0]):
                return True, "is read back from the game after differences of values were stored into it"
    return False, ""


def _classify_guard(test: Term, D: Term) -> str | None:
    """'exact' | 'tolerance' | None for a test about D."""
    t = test
    while t[0] == "un" and t[1] == "not":
        t = t[2]
    if t == D:
        return "exact"
    if t[0] == "cmp" and t[1] in ("==", "!=") and ((t[2] == D and t[3][0] == "const" and t[3][1] in (0, 0.0)) or
                                                  (t[3] == D and t[2][0] == "const" and t[2][1] in (0, 0.0))):
        return "exact"
    if t[0] == "call" and is_global(t[1], *TOL_FUNCS) and any(a == D or has_subterm(a, D) for a in t[2]):
        return "tolerance"
    if t[0] == "cmp" and t[1] in ("<", "<=", ">", ">="):
        for side in (t[2], t[3]):
            if is_call_to(side, "abs", "numpy.abs", "numpy.absolute", "math.fabs") and side[2] and (side[2][0] == D or has_subterm(side[2][0], D)):
                return "tolerance"
    if t[0] == "bool":
        kinds = [_classify_guard(x, D) for x in t[2]]
        if "tolerance" in kinds:
            return "tolerance"
        if "exact" in kinds:
            return "exact"
    return None


def _nonneg(t: Term, depth: int = 0) -> bool:
    """The term is non-negative by construction (absolute values, norms, positive literals and their products / sums / maxima)."""
    if depth > 8:
        return False
    if t[0] == "const":
        return isinstance(t[1], (int, float)) and not isinstance(t[1], bool) and t[1] >= 0
    if is_call_to(t, "abs", "numpy.abs", "numpy.absolute", "math.fabs", "numpy.linalg.norm", "numpy.square", "numpy.ptp"):
        return True
    if is_call_to(t, "numpy.max", "numpy.amax", "max", "numpy.sum", "sum", "numpy.mean", "numpy.min", "min", "float", "numpy.float64") and t[2]:
        return all(_nonneg(a, depth + 1) for a in t[2])
    if t[0] == "call" and t[1][0] == "attr" and t[1][2] in ("max", "sum", "mean", "min") and not t[2]:
        return _nonneg(t[1][1], depth + 1)
    if t[0] == "bin" and t[1] in ("*", "+", "/"):
        return _nonneg(t[2], depth + 1) and _nonneg(t[3], depth + 1)
    if t[0] == "bin" and t[1] == "**" and t[3][0] == "const" and isinstance(t[3][1], int) and t[3][1] % 2 == 0:
        return True
    if t[0] == "attr" and t[2] in ("eps", "epsilon", "resolution", "number_of_players", "tiny"):
        return True          # machine epsilon of a float type; a player count
    if is_call_to(t, "numpy.spacing", "math.ulp", "len"):
        return True
    return False


def _tolerance_bound(test: Term, D: Term) -> Term | None:
    """The bound B of a tolerance test ``abs(D) <= B`` / ``B >= abs(D)`` (None for isclose-style tests)."""
    t = test
    while t[0] == "un" and t[1] == "not":
        t = t[2]
    if t[0] == "cmp" and t[1] in ("<", "<=", ">", ">="):
        l, r = t[2], t[3]
        for side, other in ((l, r), (r, l)):
            if is_call_to(side, "abs", "numpy.abs", "numpy.absolute", "math.fabs") and side[2] and (side[2][0] == D or has_subterm(side[2][0], D)):
                return other
    return None


def rule_m1(prog: Program, col: Collector) -> None:
    col.rule("M1", "a division by a cancellation-derived value is guarded by a tolerance test, not by an exact-zero test", 2)
    NEC = ("for additive games with float values the surplus v(N) - sum v(i) is a rounding residue: an exact-zero guard does not fire and "
           "the division produces +-1 noise - the observation leaves its declared [0,1] box")
    for q in ("normalize._normalize_icg", "normalize._normalize_graph_game"):
        ref = prog.func(q)
        ft = fterms(prog, ref)
        gamep = ("param", ref.positional_params()[0])
        divs = [e for e in ft.of_kind("aug") if e.op == "/"]
        bin_divs = []
        for e in ft.events:
            for v in e.data.values():
                if isinstance(v, tuple):
                    for s in subterms(v):
                        if s[0] == "bin" and s[1] == "/" and not any(s is d for d in bin_divs):
                            bin_divs.append((e, s))
        sites = [(e, e.value) for e in divs] + [(e, s[3]) for e, s in bin_divs if not any(e is d for d in divs)]
        if not sites:
            raise AnalysisError(f"{q}: no division found (normalisation anchor vanished)")
        seen = set()
        for e, D in sites:
            if D in seen:
                continue
            seen.add(D)
            derived, why = _cancellation_derived(ft, gamep, D)
            guards = []
            for f in e.ctx:
                if f[0] == "if":
                    k = _classify_guard(f[1], D)
                    if k:
                        guards.append(k)
            # a tolerance must be relative to the scale of the game: an absolute constant treats small-unit games as zero
            for f in e.ctx:
                if f[0] == "if" and _classify_guard(f[1], D) == "tolerance":
                    b = _tolerance_bound(f[1], D)
                    absolute = None
                    if b is not None:
                        absolute = not any(s2[0] in ("call", "param", "attr", "index") for s2 in subterms(b))
                    else:
                        for s2 in subterms(f[1]):
                            if is_call_to(s2, *TOL_FUNCS):
                                kw = dict(s2[3])
                                tol = kw.get("atol", kw.get("abs_tol"))
                                other = [a for a in s2[2] if a != D and not has_subterm(a, D)]
                                to_zero = any(a[0] == "const" and a[1] in (0, 0.0) for a in other)
                                if to_zero:
                                    absolute = tol is None or not any(x[0] in ("call", "param", "attr", "index") for x in subterms(tol))
                    if absolute is not None:
                        col.check(not absolute, ref.where(e.node), ref.short, f"the zero-tolerance on {short(D, 40)} is relative to the scale of the game",
                                  construct="absolute-tolerance",
                                  necessity="np.isclose(x, 0) has an absolute tolerance of 1e-8: a game whose values are in a small unit is left un-normalised "
                                            "while its tabulated form (or the same game in another unit) normalises to 1")
            if not derived:
                col.check(bool(guards), ref.where(e.node), ref.short, f"division by {short(D, 50)} (a plain sum, no cancellation) is guarded against zero ({guards})",
                          construct="unguarded-division", necessity="an all-zero game must normalise to zeros, not to NaN")
                continue
            # how the surplus was formed: n successive rounded subtractions stored back into the game, or one exactly rounded sum
            if "read back" in why:
                exact_sum = any(is_call_to(x, "math.fsum") for ev2 in ft.events for v2 in ev2.data.values() if isinstance(v2, tuple) for x in subterms(v2))
                col.check(exact_sum, ref.where(e.node), ref.short,
                          f"the surplus {short(D, 40)} that everything is divided by is one exactly rounded sum (math.fsum), not the residue of successive rounded subtractions",
                          construct="sequential-subtraction-residue",
                          necessity="each singleton subtraction rounds; for a nearly additive game the accumulated residue is comparable with the true surplus, so just above the "
                                    "additive-game guard the quotients are dominated by rounding (values up to 3 % above 1, result no longer superadditive) and just below it an exact "
                                    "small surplus is flattened to the zero game: no threshold separates the two")
            if not guards:
                col.violation(ref.where(e.node), ref.short, "unguarded-division", f"division by {short(D, 50)}, which {why}, is not guarded at all", NEC)
            elif "tolerance" in guards:
                col.ok(ref.where(e.node), ref.short, f"division by {short(D, 50)} ({why}) is guarded by a tolerance test")
                for f in e.ctx:
                    if f[0] == "if" and _classify_guard(f[1], D) == "tolerance":
                        b = _tolerance_bound(f[1], D)
                        if b is not None:
                            t0 = f[1]
                            while t0[0] == "un" and t0[1] == "not":
                                t0 = t0[2]
                            strict = t0[0] == "cmp" and ((t0[1] == "<" and is_call_to(t0[2], "abs", "numpy.abs", "numpy.absolute", "math.fabs")) or
                                                          (t0[1] == ">" and is_call_to(t0[3], "abs", "numpy.abs", "numpy.absolute", "math.fabs")))
                            can_be_zero = any(s2[0] in ("call", "param", "attr", "index") for s2 in subterms(b))
                            col.check(not (strict and can_be_zero), ref.where(e.node), ref.short,
                                      "the tolerance test is non-strict (|x| <= tol): it also fires when the tolerance itself is 0", construct="tolerance-strict",
                                      necessity="for the all-zero game the scale, hence the tolerance, is 0: `|0| < 0` is false and the game is divided by 0")
                            eps_based = any((x[0] == "attr" and x[2] in ("eps", "epsilon", "resolution")) or is_call_to(x, "numpy.spacing", "math.ulp") for x in subterms(b))
                            small_literals = [x[1] for x in subterms(b) if x[0] == "const" and isinstance(x[1], float) and 0 < x[1] < 1e-3]
                            col.check(eps_based and not small_literals, ref.where(e.node), ref.short,
                                      f"the tolerance {short(b, 60)} is a small multiple of the rounding unit of the value type (finfo.eps / spacing), not an ad-hoc constant",
                                      construct="tolerance-coarse",
                                      necessity="the residue of the singleton subtractions is a few ulps of the largest value; a cut-off like 1e-9 * scale is seven orders of magnitude "
                                                "coarser, so exactly representable superadditive games with a small surplus (v(i) = 2**31, v(N) = 3 * 2**31 + 4) are flattened to the zero "
                                                "game and de-normalising cannot restore v(N)")
                            col.check(_nonneg(b), ref.where(e.node), ref.short,
                                      f"the tolerance {short(b, 60)} is non-negative by construction (built from absolute values / norms / positive literals)",
                                      construct="tolerance-sign",
                                      necessity="a tolerance scaled by a signed quantity (e.g. v(N), negative for the negated XOS/XS/OXS families) is negative: "
                                                "the guard never fires and additive games are divided by their rounding residue again")
                        else:
                            for s2 in subterms(f[1]):
                                if is_call_to(s2, *TOL_FUNCS):
                                    kw = dict(s2[3])
                                    for kname in ("atol", "abs_tol", "rtol", "rel_tol"):
                                        if kname in kw:
                                            col.check(_nonneg(kw[kname]), ref.where(e.node), ref.short, f"{kname}={short(kw[kname], 40)} is non-negative by construction",
                                                      construct="tolerance-sign", necessity="a negative tolerance never matches")
            else:
                col.violation(ref.where(e.node), ref.short, "exact-zero-guard",
                              f"division by {short(D, 50)}, which {why}, is guarded only by an exact-zero test", NEC)


def rule_m2345(prog: Program, col: Collector) -> None:
    col.rule("M2", "norm-info is captured before the game is mutated", 1)
    ref = prog.func("normalize.normalize_game")
    ft = fterms(prog, ref)
    gp = ("param", ref.positional_params()[0])
    info = [e for e in ft.calls() if is_global(e.func, P + "normalize._get_norminfo") and e.args == (gp,)]
    muts = [e for e in ft.calls() if e.func[0] == "global" and e.func[1].startswith(P + "normalize._normalize") and e.args and e.args[0] == gp]
    if not info or not muts:
        raise AnalysisError("normalize_game: _get_norminfo / _normalize_* calls not found")
    col.check(all(info[0].seq < m.seq for m in muts) and not info[0].guards(), ref.where(info[0].node), ref.short,
              "_get_norminfo(game) is evaluated before every _normalize_* call", construct="norminfo-order",
              necessity="norm-info read after normalisation is (1, zeros): de-normalising with it does not restore the original values")
    rets = list(ft.of_kind("return"))
    col.check(bool(rets) and all(r.value == info[0].term for r in rets), ref.where(), ref.short, "normalize_game returns that norm-info", construct="norminfo-return",
              necessity="the caller de-normalises with the returned info: it must be the info captured before the game was changed")
    def _explicit(r):
        return [f for f in r.ctx if f[0] == "if" and not (len(f) > 4 and f[4] == "implied")]

    def _after_dispatch(r):
        """The return follows a normaliser call under the same guards (a branch of the dispatch that returns by itself), or follows the
        whole dispatch outside every explicit guard."""
        if any(m.seq < r.seq and len(m.ctx) <= len(r.ctx) and r.ctx[:len(m.ctx)] == m.ctx and any(f[0] == "if" for f in m.ctx) for m in muts):
            return True
        return r.seq > max(m.seq for m in muts) and not _explicit(r)
    early = [r for r in rets if not _after_dispatch(r)]
    col.check(not early, ref.where(early[0].node if early else None), ref.short,
              "normalize_game returns only after the type dispatch, on every path (no shortcut that leaves the game as it is)", construct="normalise-shortcut",
              necessity="`already normalised` cannot be read off the surplus alone: a game with surplus exactly 1 and non-zero singletons (the registered K-budget family with "
                        "k = n - 1) would keep its singletons: values outside [0, 1], grand coalition not 1, the gym observation outside its declared box")

    # the norm-info is computed for every game the library accepts: additive float games have a surplus of about -1e-16
    nref = prog.func("normalize._get_norminfo")
    nft = fterms(prog, nref)
    raises = list(nft.of_kind("raise"))
    nrets = list(nft.of_kind("return"))
    col.check(not raises and len(nrets) == 1 and not [f for f in nrets[0].ctx if f[0] == "if"], nref.where(raises[0].node if raises else None), nref.short,
              "_get_norminfo always returns (no validation that rejects games)", construct="norminfo-rejects",
              necessity="for additive games with float values the surplus is a rounding residue of either sign: rejecting a negative one makes normalize_game raise for games "
                        "the library itself accepts as superadditive instead of returning the zero game (ICG_Gym.reset normalises every generated game)")
    # the divisor is the grand coalition's value as it stands in the game AFTER the singleton subtraction
    iref = prog.func("normalize._normalize_icg")
    ift = fterms(prog, iref)
    igp = ("param", iref.positional_params()[0])
    divs = [e for e in ift.of_kind("aug") if e.op == "/"]
    subs = [e for e in ift.calls("set_value") if e.recv == igp and any(f[0] == "for" for f in e.ctx)]
    want_div = ("call", ("attr", igp, "get_value"), (("call", ("global", P + "coalitions.grand_coalition"), (igp,), ()),), ())
    reread = [e for e in ift.calls("get_value") if e.term == want_div and subs and e.seq > max(x.seq for x in subs)]
    col.check(bool(divs) and all(d.value == want_div for d in divs) and bool(reread), iref.where(divs[0].node if divs else None), iref.short,
              "the values are divided by game.get_value(grand_coalition(game)) re-read after the subtraction loop", construct="divisor-not-reread",
              necessity="the grand coalition must normalise to exactly 1: its stored value after the subtractions carries the same rounding as every other entry, while a surplus "
                        "computed another way (v(N) - np.sum(singletons) from the norm-info) differs by a few ulps of the scale - divided by a tiny surplus that puts values above 1")

    col.rule("M5", "normalize_game / denormalize_game dispatch on both members of NormalizableGame", 2)
    kinds = set()
    for f in [f for e in muts for f in e.ctx if f[0] == "if"]:
        t = f[1]
        if is_call_to(t, "isinstance") and len(t[2]) == 2 and t[2][0] == gp and t[2][1][0] == "global":
            kinds.add(t[2][1][1].rsplit(".", 1)[-1])
    col.check({"GraphCooperativeGame", "IncompleteCooperativeGame"} <= kinds, ref.where(), ref.short, f"normalize_game handles graph and table games ({sorted(kinds)})",
              construct="dispatch-normalize", necessity="a graph game and its tabulated form must both normalise")
    dref = prog.func("normalize.denormalize_game")
    dft = fterms(prog, dref)
    dgp = ("param", dref.positional_params()[0])
    dinfo = ("param", dref.positional_params()[1])
    gcall = [e for e in dft.calls() if is_global(e.func, P + "normalize._denormalize_graph_game")]
    okd = bool(gcall) and gcall[0].args == (dgp, dinfo) and any(
        f[0] == "if" and f[2] is True and is_call_to(f[1], "isinstance") and f[1][2][0] == dgp for f in gcall[0].ctx)
    col.check(okd, dref.where(), dref.short, "denormalize_game routes graph games to _denormalize_graph_game(game, info)", construct="dispatch-denormalize",
              necessity="a graph game de-normalised by the table routine (or not at all) does not return to its original values")

    col.rule("M3", "de-normalisation is the inverse of normalisation: (- singleton per member, / G) vs (* G, + singleton per member); norm-info tuple order agrees", 6)
    iref = prog.func("normalize._get_norminfo")
    ift = fterms(prog, iref)
    igp = ("param", iref.positional_params()[0])
    r = list(ift.of_kind("return"))
    if len(r) != 1 or r[0].value[0] != "tuple" or len(r[0].value[1]) != 2:
        raise AnalysisError("_get_norminfo does not return a 2-tuple")
    g0, s1 = r[0].value[1]
    ok0 = g0[0] == "bin" and g0[1] == "-" and any(is_call_to(s, P + "coalitions.grand_coalition") for s in subterms(g0[2])) and \
        is_call_to(g0[3], "numpy.sum", "sum") and g0[3][2] and g0[3][2][0] == s1
    ok1 = s1[0] == "call" and s1[1] == ("attr", igp, "get_values") and any(is_call_to(s, P + "coalitions.player_to_coalition") for s in subterms(s1))
    col.check(ok0 and ok1, iref.where(), iref.short, "norm-info = (v(N) - sum of singleton values, singleton values) in this order", construct="norminfo-tuple",
              necessity="the de-normalisers unpack position 0 as the scale and position 1 as the singleton offsets")
    # players 0..n-1 in order
    okord = any(is_call_to(s, "range") and s[2] == (("attr", igp, "number_of_players"),) for s in subterms(s1))
    col.check(okord, iref.where(), iref.short, "singleton values are listed for players 0..n-1 in order", construct="norminfo-order-players",
              necessity="de-normalisation indexes them by player number")
    # normalise: subtraction loop then division
    nref = prog.func("normalize._normalize_icg")
    nft = fterms(prog, nref)
    ngp = ("param", nref.positional_params()[0])
    subs = [e for e in nft.calls("set_value") if e.recv == ngp and any(f[0] == "for" for f in e.ctx)]
    cond_subs = [e for e in subs if any(f[0] == "if" and not (len(f) > 4 and f[4] == "implied") for f in e.ctx)]
    col.check(not cond_subs, nref.where(cond_subs[0].node if cond_subs else None), nref.short,
              "the singleton values are subtracted for every game (no shortcut that skips the subtraction pass)", construct="subtraction-conditional",
              necessity="`the singleton values sum to zero` is not `they are all zero`: singletons of both signs that cancel (2, -2, 0) stay in the game - values outside [0, 1], "
                        "singletons not 0, and the de-normaliser adds them a second time")
    oks = False
    for e in subs:
        v, c = e.args
        loops = [f for f in e.ctx if f[0] == "for"]
        if v[0] == "bin" and v[1] == "-" and v[2] == ("call", ("attr", ngp, "get_value"), (c,), ()) and len(loops) == 2:
            sv = v[3]
            singleton = loops[0][2]
            inner_it = loops[1][3]
            # value subtracted = value of the singleton of the outer loop, read once before the inner loop
            ok_sv = sv == ("call", ("attr", ngp, "get_value"), (singleton,), ())
            # inner loop: coalitions containing the singleton
            ok_in = False
            if is_call_to(inner_it, "filter") and len(inner_it[2]) == 2 and inner_it[2][0][0] == "lambda":
                lam = inner_it[2][0]
                x = lam[1][0]
                ok_in = lam[2] in (("bin", "&", x, singleton), ("cmp", "in", singleton, x)) and is_call_to(inner_it[2][1], P + "coalitions.all_coalitions")
            elif inner_it[0] == "comp":
                el, it2, cd = inner_it[3][0]
                ok_in = len(cd) == 1 and cd[0] in (("bin", "&", el, singleton), ("cmp", "in", singleton, el)) and is_call_to(it2, P + "coalitions.all_coalitions")
            # the singleton's value must be read once per player, BEFORE the inner loop rewrites the singleton's own row
            reads = [x for x in nft.calls("get_value") if x.recv == ngp and x.args == (singleton,)]
            read_outside = bool(reads) and all(not any(f[0] == "for" and f[1] == loops[1][1] for f in x.ctx) for x in reads)
            oks = ok_sv and ok_in and c == loops[1][2] and read_outside
    col.check(oks, nref.where(subs[0].node if subs else None), nref.short,
              "for every player: v(c) -= v({player}) for every coalition c containing the player (the singleton's value read before its own row is rewritten)",
              construct="normalise-subtract", necessity="every singleton must become 0 and every coalition lose exactly its members' singleton values")
    divs = [e for e in nft.of_kind("aug") if e.op == "/"]
    after = bool(divs) and bool(subs) and all(d.seq > subs[-1].seq for d in divs)
    tgt = {d.target[1][2] if d.target[0] == "call" and d.target[1][0] == "attr" else None for d in divs}
    same_div = len({d.value for d in divs}) == 1
    col.check(after and {"get_upper_bounds", "get_lower_bounds"} <= tgt and same_div, nref.where(divs[0].node if divs else None), nref.short,
              "after the subtraction both bound columns are divided by the same remaining grand-coalition value", construct="normalise-divide",
              necessity="dividing one column only leaves lower != upper for known rows; dividing before subtracting is not inverted by (x G, + singletons)")
    # M4 view contract
    col.rule("M4", "the getters _normalize_icg divides through return live views of the table", 2)
    gmeth = prog.methods("game.IncompleteCooperativeGame")
    for g in ("get_upper_bounds", "get_lower_bounds"):
        if g not in tgt:
            col.ok(nref.where(), nref.short, f"normalisation does not rely on {g}() being a view")
            continue
        gr = gmeth.get(g)
        if gr is None:
            raise AnchorMissing(f"IncompleteCooperativeGame.{g} not found")
        rv = list(fterms(prog, gr).of_kind("return"))
        is_view = bool(rv) and all(not is_call_to(x.value, "numpy.copy", "numpy.array") and not (x.value[0] == "call" and x.value[1][0] == "attr" and x.value[1][2] == "copy")
                                   for x in rv)
        through = all(x.value[0] == "call" and x.value[1] == ("attr", ("param", "self"), "_filter_out_coalitions") for x in rv)
        if through:
            fr = gmeth.get("_filter_out_coalitions")
            frv = list(fterms(prog, fr).of_kind("return")) if fr else []
            fp = fr.positional_params() if fr else []
            if fp and fp[0] != "self":
                fp = ["self"] + fp          # a @staticmethod helper: (values, coalitions) without self
            ident = any(x.value == ("param", fp[1]) and any(f[0] == "if" and f[2] is True and f[1] == ("cmp", "is", ("param", fp[2]), ("const", None)) for f in x.ctx)
                        for x in frv) if fr else False
            # ... or the same as one folded formula (guard inverted, body moved into a helper that is read through): values if coalitions is None else ...
            fres = fterms(prog, fr).result() if fr else ("unknown", "")
            if not ident and fres[0] == "ifexp" and fres[1] == ("cmp", "is", ("param", fp[2]), ("const", None)) and fres[2] == ("param", fp[1]):
                ident = True
            is_view = is_view and ident
        col.check(is_view, gr.where(), gr.short, f"{g}(None) returns a view of the table column (the in-place division takes effect)", construct=f"view:{g}",
                  necessity="if the getter returns a copy the division silently has no effect: the game is not normalised")
    # de-normalise
    col.current_rule = "M3"
    ft2 = dft
    unp = [e for e in ft2.of_kind("assign")]
    scale = ("index", dinfo, ("const", 0))
    offs = ("index", dinfo, ("const", 1))
    sv = [e for e in ft2.calls("set_value") if e.recv == dgp]
    okden = False
    if sv:
        v = sv[0].args[0]
        c = sv[0].args[1]
        # value = ((get_value(c) * scale) + offs[i] ...) : a loopmod chain; check the events instead
        mul = [e for e in ft2.of_kind("aug") if e.op == "*" and e.value == scale]
        add = [e for e in ft2.of_kind("aug") if e.op == "+" and e.value[0] == "index" and e.value[1] == offs]
        base = [e for e in ft2.of_kind("assign") if e.value == ("call", ("attr", dgp, "get_value"), (c,), ())]
        okden = bool(mul) and bool(add) and bool(base) and base[0].seq < mul[0].seq < add[0].seq < sv[0].seq
        if okden:
            lp = [f for f in add[0].ctx if f[0] == "for"]
            okden = bool(lp) and lp[-1][3] == ("attr", c, "players") and add[0].value[2] == lp[-1][2]
    if sv and not okden:
        # the additions as one left fold: value = reduce(add | iadd, (offs[i] for i in c.players), <v(c) * scale>)
        from .common import comp_parts
        c = sv[0].args[1]
        mul = [e for e in ft2.of_kind("aug") if e.op == "*" and e.value == scale]
        folds = [e for e in ft2.calls() if is_global(e.func, "functools.reduce") and len(e.args) == 3 and e.args[0] in (("global", "operator.add"), ("global", "operator.iadd"))]
        for e in folds:
            parts = comp_parts(e.args[1])
            if parts is not None and not parts[3] and parts[2] == ("attr", c, "players") and parts[0] == ("index", offs, parts[1]) \
                    and mul and mul[0].seq < e.seq < sv[0].seq:
                okden = True
    if sv:
        extra_guards = [f for f in sv[0].ctx if f[0] == "if" and not (is_call_to(f[1], "isinstance") and f[1][2][0] == dgp)]
        col.check(not extra_guards, dref.where(sv[0].node), dref.short, "the restore runs for every table game (no early exit on the norm-info)",
                  construct="denormalise-conditional",
                  necessity="an additive game normalises to the zero game with scale 0: skipping the restore for scale 0 never re-adds the singleton values")
    col.check(okden, dref.where(), dref.short, "value = v(c) * scale, then + offset[i] for every member i of c, then stored back", construct="denormalise-order",
              necessity="adding before multiplying, or the wrong tuple position, does not restore the original values")
    gd = prog.func("normalize._denormalize_graph_game")
    gft = fterms(prog, gd)
    gi = ("param", gd.positional_params()[1])
    gmul = [e for e in gft.of_kind("aug") if e.op == "*" and e.value == ("index", gi, ("const", 0))]
    gn = prog.func("normalize._normalize_graph_game")
    gnft = fterms(prog, gn)
    gdiv = [e for e in gnft.of_kind("aug") if e.op == "/"]
    col.check(bool(gmul) and bool(gdiv) and gmul[0].target[2] == gdiv[0].target[2] == "_graph_matrix", gd.where(), gd.short,
              "graph games: weights /= G on normalise, *= position 0 of the norm-info on de-normalise", construct="graph-inverse",
              necessity="the graph representation must round-trip like the table representation")


def rule_m6_stale_views(prog: Program, col: Collector) -> None:
    """M6: a name bound to a live view of a game is not read again after that game was mutated."""
    col.rule("M6", "in the normalisers, an array obtained from a view getter before the game is modified is not read afterwards (views alias the table)", 1)
    gm = prog.methods("game.IncompleteCooperativeGame")
    views = set()
    for name in ("get_lower_bounds", "get_upper_bounds", "get_values", "get_interval", "get_intervals"):
        if name in gm:
            rv = list(fterms(prog, gm[name]).of_kind("return"))
            if rv and not all(is_call_to(x.value, "numpy.copy", "numpy.array") or (x.value[0] == "call" and x.value[1][0] == "attr" and x.value[1][2] == "copy") for x in rv):
                views.add(name)
    MUT = {"set_value", "set_values", "set_known_values", "unset_value", "reveal_value", "unreveal_value", "set_lower_bound", "set_upper_bound",
           "set_lower_bounds", "set_upper_bounds", "compute_bounds"}
    nfun = 0
    for q in ("normalize._normalize_icg", "normalize._normalize_graph_game", "normalize.denormalize_game", "normalize.normalize_game", "normalize._get_norminfo"):
        ref = prog.find_func(q)
        if ref is None:
            continue
        nfun += 1
        ft = fterms(prog, ref)
        found = False
        for a in ft.of_kind("assign"):
            v = a.value
            if not (v[0] == "call" and v[1][0] == "attr" and v[1][2] in views and (not v[2] or v[2] == (("const", None),))):
                continue
            recv = v[1][1]
            muts = [e for e in ft.calls() if e.recv == recv and e.name in MUT and e.seq > a.seq]
            if not muts:
                continue
            first = min(e.seq for e in muts)
            late = []
            for e in ft.events:
                if e.seq <= first or e.stmt is None or e.stmt is a.node:
                    continue
                if any(isinstance(n, ast.Name) and n.id == a.name and isinstance(n.ctx, ast.Load) for n in ast.walk(e.stmt)):
                    # in-place operations ON the view are its purpose (scaling the table); only reads used as data count
                    if e.kind == "aug" and e.data.get("name") == a.name:
                        continue
                    late.append(e)
            if late:
                found = True
                col.violation(ref.where(late[0].node), ref.short, f"stale-view:{a.name}",
                              f"`{a.name}` is a live view returned by {v[1][2]}() before the game is modified by {muts[0].name}(); it is read again afterwards",
                              "getters return views of the value table: after the subtraction loop the 'original values' are the already modified ones "
                              "(the scale of an additive game collapses to its rounding residue and the additive guard no longer fires)")
        if not found:
            col.ok(ref.where(), ref.short, "no view obtained before a mutation is read after it")
    if nfun == 0:
        raise AnalysisError("M6: normaliser functions not found")
