"""C09 (reveal-one-coalition environment), H3 of C08 (undo pairing), C16 (size-aggregated environment)."""
from __future__ import annotations

import ast

from ..core import AnalysisError, AnchorMissing, FuncRef, Program
from ..report import Collector
from ..terms import Term, is_call_to, is_global, show, subterms
from .common import const_of, fterms, has_subterm, short
from .typestate import T1, check_function

GYM = "icg_gym.ICG_Gym"
LIN = "icg_gym_linear.ICG_Gym_Linear"
SELF = ("param", "self")
R = ("attr", SELF, "incomplete_game")
P = "incomplete_cooperative."


def A(name: str) -> Term:
    return ("attr", SELF, name)


def _method(prog: Program, cls: str, name: str) -> FuncRef:
    m = prog.methods(cls)
    if name not in m:
        raise AnchorMissing(f"{cls}.{name} not found")
    return m[name]


_COL: list = []


def _single_return(ft, ref: FuncRef) -> Term:
    """The function's return term; every additional (earlier) return is reported: these functions are one closed formula."""
    rets = list(ft.of_kind("return"))
    if not rets:
        raise AnalysisError(f"{ref.short}: no return")
    rv = rets[-1].value
    if len(rets) > 1:
        # early returns under plain guards are one conditional formula (`if c: return A` ... `return B` is `A if c else B`)
        folded = ft.result()
        if folded[0] != "unknown":
            rv = folded
        elif _COL:
            for r in rets[:-1]:
                _COL[-1].check(False, ref.where(r.node), ref.short, f"{ref.node.name} is one formula for every state (extra return of {short(r.value, 40)})",
                               construct=f"extra-return:{ref.node.name}", necessity="a shortcut return changes what the environment reports in the states that take it")
        else:
            raise AnalysisError(f"{ref.short}: expected a single return, found {len(rets)}")
    # terms carry no time: a value that is patched in place after it was computed (`mask[:] = True`) still has the term of the formula
    if _COL and isinstance(rv, tuple):
        for e in list(ft.of_kind("store")) + list(ft.of_kind("aug")):
            base = e.obj if e.kind == "store" else e.target
            while isinstance(base, tuple) and base[0] == "index":
                base = base[1]
            if e.index is not None and any(base == r.value and e.seq < r.seq for r in rets):
                _COL[-1].check(False, ref.where(e.node), ref.short, f"{ref.node.name} returns its formula unmodified (in-place write into the value before it is returned)",
                               construct=f"patched-result:{ref.node.name}", necessity="an in-place patch changes what the environment reports in the states that take it")
    return rv


# --------------------------------------------------------------------------------------
# C09
# --------------------------------------------------------------------------------------

def rule_c09_typestate(prog: Program, col: Collector) -> None:
    _COL.append(col)
    col.rule("T1", "recompute-before-observe on ICG_Gym.reset/step/unstep: no gap/reward/bound read between a knowledge mutation and compute_bounds(); transitions exit with fresh bounds", 6)
    t1 = T1(prog)
    for name in ("reset", "step", "unstep"):
        ref = _method(prog, GYM, name)
        ft = fterms(prog, ref)
        muts = [e for e in ft.calls() if e.recv == R and e.name in ("set_known_values", "reveal_value", "unreveal_value", "set_value", "set_values", "unset_value")]
        if not muts:
            raise AnalysisError(f"{ref.short}: no knowledge mutation of self.incomplete_game found (anchor vanished)")
        check_function(t1, col, ref, R, "T1", require_clean_exit=True)


def _chosen(ft, ref: FuncRef, action_param: str) -> Term:
    return ("index", A("explorable_coalitions"), ("param", action_param))


def rule_c09_step(prog: Program, col: Collector) -> None:
    _COL.append(col)
    col.rule("Y1", "step reveals full_game's value of explorable_coalitions[action] for that same coalition; info reports its id; returns (state, reward, done, False, info)", 5)
    ref = _method(prog, GYM, "step")
    ft = fterms(prog, ref)
    act = ref.positional_params()[1]
    X = _chosen(ft, ref, act)
    rv = [e for e in ft.calls("reveal_value") if e.recv == R]
    if len(rv) != 1:
        raise AnalysisError(f"{ref.short}: expected exactly one reveal_value on self.incomplete_game")
    e = rv[0]
    val, coal = (e.args + (None, None))[:2]
    col.check(coal == X, ref.where(e.node), ref.short, "the coalition revealed is explorable_coalitions[action]", construct="reveal-coalition",
              necessity="the action index must select from the same list the mask and observation range over")
    okv = val == ("call", ("attr", A("full_game"), "get_value"), (X,), ())
    col.check(okv, ref.where(e.node), ref.short, "the value revealed is full_game.get_value(<that coalition>)",
              construct="reveal-value", necessity="known coalitions must carry the hidden game's true (un-normalised) value of the same coalition")
    ret = _single_return(ft, ref)
    if ret[0] != "tuple" or len(ret[1]) != 5:
        raise AnalysisError(f"{ref.short}: return is not a 5-tuple")
    st, rw, dn, tr, info = ret[1]
    col.check(st == A("state") and rw == A("reward") and dn == A("done") and tr == ("const", False), ref.where(), ref.short,
              "returns (self.state, self.reward, self.done, False, info)", construct="step-return",
              necessity="consumers (evaluate, solvers, PPO) read observation, reward and done from these positions")
    oki = info[0] == "dict" and any(k == ("const", "chosen_coalition") and v == ("attr", X, "id") for k, v in info[1])
    col.check(oki, ref.where(), ref.short, "info['chosen_coalition'] is the id of the coalition just revealed", construct="step-info",
              necessity="evaluate() records this id as the action actually taken")
    inc = [e for e in ft.of_kind("aug") if e.target == A("steps_taken")]
    col.check(len(inc) == 1 and inc[0].op == "+" and inc[0].value == ("const", 1), ref.where(), ref.short, "steps_taken += 1 exactly once",
              construct="step-count", necessity="the step budget of `done` counts reveals")
    # the transition is total: reveal, recompute and count happen for every valid action in every state
    for name in ("step", "unstep"):
        mref = _method(prog, GYM, name)
        mft = fterms(prog, mref)
        trans = [x for x in mft.calls() if x.recv == R and x.name in ("reveal_value", "unreveal_value", "compute_bounds")] + \
            [x for x in mft.of_kind("aug") if x.target == A("steps_taken")]
        guarded = [x for x in trans if any(f[0] in ("if", "for", "while", "try") for f in x.ctx)]
        col.check(not guarded, mref.where(guarded[0].node if guarded else None), mref.short,
                  f"{name} (un)reveals, recomputes and counts unconditionally (no guard or loop around the transition)", construct=f"transition-guarded:{name}",
                  necessity="a step that is skipped in some states (after `done`, for some actions) leaves the known set different from 'minimal information plus the chosen "
                            "coalitions' while info still reports the coalition as chosen, and the matching unstep then undoes a reveal that never happened")

    col.rule("Y5", "compute_reward returns the negated gap of the game it is given", 1)
    cref = prog.func("icg_gym.compute_reward")
    cft = fterms(prog, cref)
    cp = cref.positional_params()
    rv2 = _single_return(cft, cref)
    okr = rv2 == ("un", "-", ("call", ("param", cp[1]), (("param", cp[0]),), ()))
    col.check(okr, cref.where(), cref.short, "compute_reward(game, gap) == -gap(game)", construct="reward-sign",
              necessity="the reward is the NEGATED gap; evaluate() negates it back into a gap")
    pref = _method(prog, GYM, "reward")
    pv = _single_return(fterms(prog, pref), pref)
    col.check(pv == ("call", ("global", P + "icg_gym.compute_reward"), (R, A("gap_func")), ()), pref.where(), pref.short,
              "reward property = compute_reward(self.incomplete_game, self.gap_func)", construct="reward-prop",
              necessity="the reward must be about the agent's incomplete game and the configured gap function")


def rule_c09_spaces(prog: Program, col: Collector) -> None:
    _COL.append(col)
    col.rule("Y2", "mask, state, action lookup, observation and action space all range over the one list explorable_coalitions", 5)
    EX = A("explorable_coalitions")
    ref = _method(prog, GYM, "action_masks")
    v = _single_return(fterms(prog, ref), ref)
    known = ("call", ("attr", R, "are_values_known"), (EX,), ())
    okm = (is_call_to(v, "numpy.invert", "numpy.logical_not") and v[2] == (known,)) or v == ("un", "~", known)
    col.check(okm, ref.where(), ref.short, "action_masks = NOT are_values_known(explorable_coalitions) of the incomplete game",
              construct="mask", necessity="the mask must mark exactly the still-unknown explorable coalitions")
    ref = _method(prog, GYM, "state")
    v = _single_return(fterms(prog, ref), ref)
    nv = ("call", ("attr", A("normalized_game"), "get_values"), (EX,), ())
    oks = v[0] == "bin" and v[1] == "*" and {v[2], v[3]} == {nv, known}
    if not oks and is_call_to(v, "numpy.where") and len(v[2]) == 3:
        oks = v[2][0] == known and v[2][1] == nv and v[2][2] == ("const", 0)
    col.check(oks, ref.where(), ref.short, "state = normalized_game.get_values(explorable) * incomplete_game.are_values_known(explorable)",
              construct="state", necessity="the observation shows the normalised hidden value at known explorable positions and 0 elsewhere")
    init = _method(prog, GYM, "__init__")
    ift = fterms(prog, init)
    n_ex = lambda t: t[0] == "call" and is_global(t[1], "len") and len(t[2]) == 1   # noqa: E731
    obs = [e for e in ift.of_kind("store") if e.attr == "observation_space"]
    acs = [e for e in ift.of_kind("store") if e.attr == "action_space"]
    if not obs or not acs:
        raise AnalysisError("ICG_Gym.__init__ no longer sets observation_space/action_space")

    def sized_by_explorable(t: Term) -> bool:
        ex_store = [e.value for e in ift.of_kind("store") if e.attr == "explorable_coalitions"]
        for s in subterms(t):
            if is_call_to(s, "len") and len(s[2]) == 1 and (s[2][0] == EX or s[2][0] in ex_store):
                return True
        return False
    col.check(sized_by_explorable(obs[-1].value), init.where(obs[-1].node), init.short, "observation_space is sized by len(explorable_coalitions)",
              construct="obs-space", necessity="observation length must equal the number of explorable coalitions")
    ov = obs[-1].value
    kw = dict(ov[3]) if ov[0] == "call" else {}
    lo, hi = kw.get("low"), kw.get("high")
    okb = lo is not None and hi is not None and is_call_to(lo, "numpy.zeros") and is_call_to(hi, "numpy.ones")
    col.check(okb, init.where(obs[-1].node), init.short, "observation_space is the box [0, 1]", construct="obs-box",
              necessity="declared observation range (consumed by the PPO agent)")
    col.check(sized_by_explorable(acs[-1].value), init.where(acs[-1].node), init.short, "action_space is Discrete(len(explorable_coalitions))",
              construct="act-space", necessity="action indices must address explorable_coalitions")

    col.rule("Y4", "initially known = given coalitions + {empty, grand}; explorable = all coalitions not initially known, as a list", 3)
    ik = [e for e in ift.of_kind("store") if e.attr == "initially_known_coalitions"]
    ex = [e for e in ift.of_kind("store") if e.attr == "explorable_coalitions"]
    if not ik or not ex:
        raise AnalysisError("ICG_Gym.__init__ no longer sets initially_known_coalitions/explorable_coalitions")
    ikv = ik[-1].value
    ip = init.positional_params()
    has_given = has_subterm(ikv, ("param", "initially_known_coalitions")) or any(has_subterm(ikv, ("param", p)) for p in ip if "known" in p)
    has_empty = any(is_call_to(s, P + "coalitions.Coalition") and s[2] == (("const", 0),) for s in subterms(ikv))
    has_grand = any(is_call_to(s, P + "coalitions.grand_coalition") for s in subterms(ikv))
    col.check(has_given and has_empty and has_grand, init.where(ik[-1].node), init.short,
              "initially_known_coalitions = given ∪ {Coalition(0), grand coalition}", construct="initially-known",
              necessity="the empty and the grand coalition are always known (every computer asserts it)")
    col.check(is_call_to(ikv, "list", "sorted") or ikv[0] in ("list",) or (ikv[0] == "comp" and ikv[1] == "list"), init.where(ik[-1].node), init.short,
              "initially_known_coalitions is materialised as a list (it is traversed twice per reset)", construct="initially-known-list",
              necessity="a single-use iterator would be exhausted by get_values before set_known_values pairs it with the values")
    exv = ex[-1].value
    inner = exv
    while is_call_to(inner, "list", "tuple", "sorted") and inner[2]:
        inner = inner[2][0]
    okx = False
    from ..terms import _membership_container
    known_forms = (ikv, A("initially_known_coalitions"), _membership_container(ikv))        # membership in list(S) / frozenset(S) is membership in S
    if is_call_to(inner, "filter") and len(inner[2]) == 2 and inner[2][0][0] == "lambda":
        lam = inner[2][0]
        body = lam[2]
        x = lam[1][0]
        okx = body[0] == "cmp" and body[1] == "not in" and body[2] == x and body[3] in known_forms \
            and is_call_to(inner[2][1], P + "coalitions.all_coalitions")
    elif inner[0] == "comp" and len(inner[3]) == 1:
        elem, it, conds = inner[3][0]
        okx = inner[2] == elem and is_call_to(it, P + "coalitions.all_coalitions") and len(conds) == 1 and conds[0][0] == "cmp" \
            and conds[0][1] == "not in" and conds[0][2] == elem and conds[0][3] in known_forms
    col.check(okx, init.where(ex[-1].node), init.short, "explorable_coalitions = [c for c in all_coalitions(...) if c not in initially_known]",
              construct="explorable", necessity="explorable must be exactly the coalitions whose value is not known from the start")
    col.check(is_call_to(exv, "list", "sorted") or (exv[0] == "comp" and exv[1] == "list"), init.where(ex[-1].node), init.short,
              "explorable_coalitions is a list (indexed by action, traversed repeatedly)", construct="explorable-list",
              necessity="a lazy filter object cannot be indexed by the action and is exhausted after one traversal")


def rule_c09_reset(prog: Program, col: Collector) -> None:
    _COL.append(col)
    col.rule("Y3", "reset: new hidden game from the generator; normalised game is a normalised COPY of it; knowledge reset to the minimal information with paired values; step counter zeroed", 6)
    ref = _method(prog, GYM, "reset")
    ft = fterms(prog, ref)
    gen = ("call", A("generator"), (), ())
    fg = [e for e in ft.of_kind("store") if e.attr == "full_game" and e.obj == SELF]
    ng = [e for e in ft.of_kind("store") if e.attr == "normalized_game" and e.obj == SELF]
    if not fg and not ng:
        raise AnalysisError(f"{ref.short}: full_game / normalized_game are no longer assigned in reset")
    if not fg or not ng:
        col.violation(ref.where(), ref.short, "reset-new-game" if not fg else "reset-copy",
                      f"reset no longer assigns {'full_game' if not fg else 'normalized_game'}",
                      "reset draws a new hidden game and shows its normalised copy")
        return
    col.check(fg[-1].value == gen, ref.where(fg[-1].node), ref.short, "full_game = self.generator() (a NEW hidden game per reset)",
              construct="reset-new-game", necessity="reset draws a new hidden game")
    cp = ("call", ("attr", gen, "copy"), (), ())
    col.check(ng[-1].value == cp and ng[-1].seq > fg[-1].seq, ref.where(ng[-1].node), ref.short,
              "normalized_game = (the new) full_game.copy()", construct="reset-copy",
              necessity="normalising an alias of full_game corrupts the values later revealed; a copy of the OLD game shows stale observations")
    nz = [e for e in ft.calls() if is_global(e.func, P + "normalize.normalize_game")]
    col.check(len(nz) == 1 and nz[0].args == (cp,) and nz[0].seq > ng[-1].seq, ref.where(nz[0].node if nz else None), ref.short,
              "normalize_game is applied once, to the copy", construct="reset-normalize",
              necessity="the observation shows NORMALISED values; the hidden game itself must stay un-normalised")
    sk = [e for e in ft.calls("set_known_values") if e.recv == R]
    if len(sk) != 1:
        raise AnalysisError(f"{ref.short}: expected exactly one set_known_values on the incomplete game")
    e = sk[0]
    K0 = A("initially_known_coalitions")
    okk = len(e.args) == 2 and e.args[0] == ("call", ("attr", gen, "get_values"), (K0,), ()) and e.args[1] == K0
    col.check(okk, ref.where(e.node), ref.short, "set_known_values(full_game.get_values(K0), K0) with the same list K0 = initially_known_coalitions",
              construct="reset-known", necessity="values and coalitions must be paired element by element, from the NEW hidden game")
    col.check(e.seq > fg[-1].seq, ref.where(e.node), ref.short, "knowledge is reset after the new game is drawn", construct="reset-order", necessity="resetting the knowledge before the new game is drawn writes the OLD game's values as the minimal information")
    st = [x for x in ft.of_kind("store") if x.attr == "steps_taken" and x.obj == SELF]
    col.check(bool(st) and st[-1].value == ("const", 0), ref.where(), ref.short, "steps_taken = 0", construct="reset-steps",
              necessity="the step budget restarts with every episode")
    ret = _single_return(ft, ref)
    col.check(ret[0] == "tuple" and len(ret[1]) == 2 and ret[1][0] == A("state"), ref.where(), ref.short,
              "reset returns (self.state, info)", construct="reset-return", necessity="the observation returned by reset must be the state after the reset")


def _atoms_or(t: Term) -> list[Term]:
    if t[0] == "bool" and t[1] == "or":
        out = []
        for x in t[2]:
            out.extend(_atoms_or(x))
        return out
    if is_call_to(t, "bool", "numpy.bool_") and len(t[2]) == 1:
        return _atoms_or(t[2][0])
    # folded early returns: `if c: return c|True` ... is `c or rest`; `if not c: return True` ... is `(not c) or rest`
    if t[0] == "ifexp" and t[2] in (t[1], ("const", True)):
        return _atoms_or(t[1]) + _atoms_or(t[3])
    if t[0] == "ifexp" and t[3] == ("const", True):
        return [("un", "not", t[1])] + _atoms_or(t[2])
    if is_call_to(t, "any", "numpy.any") and len(t[2]) == 1 and t[2][0][0] in ("list", "tuple"):
        out = []
        for x in t[2][0][1]:
            out.extend(_atoms_or(x))
        return out
    return [t]


def rule_c09_done(prog: Program, col: Collector) -> None:
    _COL.append(col)
    col.rule("D1", "done = (budget used up) or (nothing left to reveal) or (all intervals degenerate): exactly these three disjuncts", 3)
    ref = _method(prog, GYM, "done")
    ft = fterms(prog, ref)
    ret = _single_return(ft, ref)
    atoms = _atoms_or(ret)
    dan, steps = A("done_after_n_actions"), A("steps_taken")
    UB = ("call", ("attr", R, "get_upper_bounds"), (), ())
    LB = ("call", ("attr", R, "get_lower_bounds"), (), ())
    masks = ("call", A("action_masks"), (), ())
    kinds: dict[str, list] = {"budget": [], "nothing-left": [], "degenerate": [], "unknown": []}

    def strip_bool(t: Term) -> Term:
        while is_call_to(t, "bool", "numpy.bool_") and len(t[2]) == 1:
            t = t[2][0]
        return t

    for a in atoms:
        a = strip_bool(a)
        if has_subterm(a, dan) or has_subterm(a, steps):
            kinds["budget"].append(a)
        elif has_subterm(a, masks) or any(s[0] == "call" and s[1] == ("attr", R, "are_values_known") for s in subterms(a)):
            kinds["nothing-left"].append(a)
        elif has_subterm(a, UB) or has_subterm(a, LB):
            kinds["degenerate"].append(a)
        else:
            kinds["unknown"].append(a)
    for a in kinds["unknown"]:
        col.undecidable(ref.where(), ref.short, f"unclassifiable disjunct of done: {short(a, 80)}")
    for k in ("budget", "nothing-left", "degenerate"):
        col.check(len(kinds[k]) == 1, ref.where(), ref.short, f"exactly one '{k}' disjunct (found {len(kinds[k])})", construct=f"done-{k}-count",
                  necessity="done is true iff the step budget is used up, nothing is left to reveal, or all intervals are degenerate")
    # budget: dan is not None and steps >= dan
    for a in kinds["budget"]:
        conj = list(a[2]) if a[0] == "bool" and a[1] == "and" else [a]
        guard = any(c == ("cmp", "is not", dan, ("const", None)) or c == ("cmp", "!=", dan, ("const", None)) for c in conj)
        ge = any(c == ("cmp", ">=", steps, dan) or c == ("cmp", "<=", dan, steps) for c in conj)
        col.check(guard, ref.where(), ref.short, "budget disjunct is guarded by `done_after_n_actions is not None`", construct="done-budget-guard",
                  necessity="with no budget (None) the comparison raises TypeError / must not end the episode")
        col.check(ge and len(conj) == 2, ref.where(), ref.short, "budget disjunct is `steps_taken >= done_after_n_actions`", construct="done-budget-cmp",
                  necessity="`>` ends the episode one step late; `==` misses overshoot: the budget must be 'used up'")
    for a in kinds["nothing-left"]:
        ok = a == ("un", "not", ("call", ("global", "numpy.any"), (masks,), ())) or a == ("un", "not", ("call", ("global", "any"), (masks,), ())) \
            or a == ("un", "not", ("call", ("attr", masks, "any"), (), ()))
        col.check(ok, ref.where(), ref.short, "nothing-left disjunct is `not any(action_masks())`", construct="done-nothing-left",
                  necessity="the episode ends when no explorable coalition is unknown")
    for a in kinds["degenerate"]:
        inner = a
        ok = False
        if is_call_to(inner, "numpy.all", "all") and len(inner[2]) == 1:
            c = inner[2][0]
            if c[0] == "cmp" and c[1] == "==":
                l, r = c[2], c[3]
                ok = (l == ("bin", "-", UB, LB) and r == ("const", 0)) or (l == UB and r == LB) or (l == LB and r == UB)
        if inner[0] == "un" and inner[1] == "not" and is_call_to(inner[2], "numpy.any", "any") and inner[2][2] == (("bin", "-", UB, LB),):
            ok = True
        col.check(ok, ref.where(), ref.short, "degenerate disjunct is `all(upper - lower == 0)` over the whole incomplete game", construct="done-degenerate",
                  necessity="the episode ends when every interval is a point")


def rule_h3_undo(prog: Program, col: Collector) -> None:
    _COL.append(col)
    col.rule("H3", "unstep is the statement-wise inverse of step: unreveal the same explorable_coalitions[action], recompute, steps_taken -= 1", 4)
    sref, uref = _method(prog, GYM, "step"), _method(prog, GYM, "unstep")
    sft, uft = fterms(prog, sref), fterms(prog, uref)
    act = uref.positional_params()[1]
    X = ("index", A("explorable_coalitions"), ("param", act))
    un = [e for e in uft.calls("unreveal_value") if e.recv == R]
    col.check(len(un) == 1 and un[0].args == (X,), uref.where(un[0].node if un else None), uref.short,
              "unstep un-reveals explorable_coalitions[action] (the coalition step(action) revealed)", construct="unstep-coalition",
              necessity="undoing another coalition leaves the revealed one known: reveal-then-unreveal must restore the knowledge exactly")
    other = [e for e in uft.calls() if e.recv == R and e.name in ("reveal_value", "set_value", "set_values", "set_known_values", "unset_value")]
    col.check(not other, uref.where(other[0].node if other else None), uref.short, "unstep performs no other knowledge mutation", construct="unstep-extra",
              necessity="any further knowledge mutation in unstep makes reveal-then-undo differ from the state before the reveal")
    cb = [e for e in uft.calls("compute_bounds") if e.recv == R]
    col.check(bool(cb) and bool(un) and cb[0].seq > un[0].seq, uref.where(), uref.short, "unstep recomputes the bounds after the un-reveal",
              construct="unstep-recompute", necessity="without recomputation the bounds of the larger knowledge state survive the undo")
    dec = [e for e in uft.of_kind("aug") if e.target == A("steps_taken")]
    inc = [e for e in sft.of_kind("aug") if e.target == A("steps_taken")]
    def signed(e):
        """(sign, magnitude) of an augmented assignment: `x += -1` is `x -= 1`."""
        v, sgn = e.value, (1 if e.op == "+" else -1 if e.op == "-" else 0)
        if v[0] == "un" and v[1] == "-":
            v, sgn = v[2], -sgn
        elif v[0] == "const" and isinstance(v[1], (int, float)) and v[1] < 0:
            v, sgn = ("const", -v[1]), -sgn
        return sgn, v
    col.check(len(dec) == 1 and len(inc) == 1 and signed(dec[0])[0] == -1 and signed(inc[0])[0] == 1 and signed(dec[0])[1] == signed(inc[0])[1], uref.where(), uref.short,
              "steps_taken is decremented by what step adds", construct="unstep-count",
              necessity="an undo that does not restore the counter makes done (step budget) history dependent")
    ret = _single_return(uft, uref)
    oki = ret[0] == "tuple" and len(ret[1]) == 5 and ret[1][0] == A("state") and ret[1][1] == A("reward") and ret[1][2] == A("done")
    col.check(oki, uref.where(), uref.short, "unstep returns (self.state, self.reward, self.done, ...)", construct="unstep-return", necessity="solvers read position 1 of the result as the reward of the restored state")


# --------------------------------------------------------------------------------------
# C16
# --------------------------------------------------------------------------------------

def rule_c16(prog: Program, col: Collector) -> None:
    _COL.append(col)
    IN = A("icg_gym")

    def agg(x: Term) -> Term:
        return ("call", A("_sum_values_of_the_same_size"), (x,), ())

    col.rule("Z4", "subset_sizes = size of each explorable coalition of the inner env, in order; aggregation = bincount by size with the vector as weights", 2)
    init = _method(prog, LIN, "__init__")
    ift = fterms(prog, init)
    ip = init.positional_params()[1]
    ss = [e for e in ift.of_kind("store") if e.attr == "subset_sizes"]
    if not ss:
        raise AnalysisError("ICG_Gym_Linear.__init__ no longer sets subset_sizes")
    v = ss[-1].value
    inner = v
    while is_call_to(inner, "numpy.array", "numpy.asarray", "numpy.fromiter", "list") and inner[2]:
        inner = inner[2][0]
    ok = False
    if inner[0] == "comp" and len(inner[3]) == 1:
        elem, it, conds = inner[3][0]
        ok = not conds and inner[2] == ("call", ("global", "len"), (elem,), ()) and it == ("attr", ("param", ip), "explorable_coalitions")
    if is_call_to(inner, "map") and len(inner[2]) == 2:
        ok = is_global(inner[2][0], "len") and inner[2][1] == ("attr", ("param", ip), "explorable_coalitions")
    col.check(ok, init.where(ss[-1].node), init.short, "subset_sizes[i] = len(inner.explorable_coalitions[i])", construct="sizes",
              necessity="sizes must be aligned with the inner env's explorable index space")
    st = [e for e in ift.of_kind("store") if e.attr == "icg_gym"]
    col.check(bool(st) and st[-1].value == ("param", ip), init.where(), init.short, "the wrapper keeps the inner env it was given", construct="inner", necessity="every pass-through and every aggregation reads the inner env: a wrapper that keeps another object reports another episode")
    sref = _method(prog, LIN, "_sum_values_of_the_same_size")
    sft = fterms(prog, sref)
    xp = ("param", sref.positional_params()[1])
    rv = _single_return(sft, sref)
    okb = is_call_to(rv, "numpy.bincount") and rv[2] and rv[2][0] == A("subset_sizes") and dict(rv[3]).get("weights") == xp
    col.check(okb, sref.where(), sref.short, "aggregation = np.bincount(subset_sizes, weights=x)", construct="bincount",
              necessity="the observation is the per-size SUM of the underlying observation")
    if okb:
        ml = dict(rv[3]).get("minlength")
        col.check(ml == A("number_of_players"), sref.where(), sref.short, "the aggregated vector always has n entries (minlength=self.number_of_players)", construct="bincount-minlength",
                  necessity="np.bincount returns max(size)+1 entries: when the inner env has no explorable coalition of size n-1 (they are initially known) the observation and the "
                            "mask are shorter than the declared Box(n) / Discrete(n) spaces")

    col.rule("Z1", "every observation leaving the linear env is the size-aggregation of the inner observation; the mask is the aggregated inner mask cast to bool", 3)
    ref = _method(prog, LIN, "action_masks")
    rv = _single_return(fterms(prog, ref), ref)
    inner_mask = ("call", ("attr", IN, "action_masks"), (), ())
    okm = rv == ("call", ("attr", agg(inner_mask), "astype"), (("global", "bool"),), ()) or rv == ("cmp", ">", agg(inner_mask), ("const", 0)) \
        or rv == ("cmp", "!=", agg(inner_mask), ("const", 0))
    col.check(okm, ref.where(), ref.short, "mask[k] = (number of unknown explorable coalitions of size k) > 0", construct="lin-mask",
              necessity="the mask allows size k iff some explorable coalition of size k is still unknown")
    ref = _method(prog, LIN, "state")
    rv = _single_return(fterms(prog, ref), ref)
    col.check(rv == agg(("attr", IN, "state")), ref.where(), ref.short, "state = aggregate(inner.state)", construct="lin-state", necessity="the observation of the linear env is the per-size aggregate of the inner observation")
    ref = _method(prog, LIN, "reset")
    rft = fterms(prog, ref)
    rv = _single_return(rft, ref)
    rcall = [e for e in rft.calls("reset") if e.recv == IN]
    okr = bool(rcall) and rv[0] == "tuple" and len(rv[1]) == 2 and rv[1][0] == agg(("index", rcall[0].term, ("const", 0))) \
        and rv[1][1] == ("index", rcall[0].term, ("const", 1))
    col.check(okr, ref.where(), ref.short, "reset returns (aggregate(inner observation), inner info)", construct="lin-reset", necessity="reset must report the aggregate of the inner reset observation and the inner info")

    col.rule("Z2", "the inner action is drawn FROM the candidates = positions where (size == requested) AND inner mask", 3)
    ref = _method(prog, LIN, "step")
    ft = fterms(prog, ref)
    kp = ("param", ref.positional_params()[1])
    steps = [e for e in ft.calls("step") if e.recv == IN]
    if len(steps) != 1:
        raise AnalysisError(f"{ref.short}: expected exactly one inner step call")
    se = steps[0]
    action = se.args[0] if se.args else None
    okc = False
    cand = None
    if action is not None and action[0] == "call" and action[1][0] in ("attr", "global") and len(action[2]) >= 1:
        fname = action[1][2] if action[1][0] == "attr" else action[1][1].rsplit(".", 1)[-1]
        if fname == "choice":
            cand = action[2][0]
            okc = True
    col.check(okc, ref.where(se.node), ref.short, "the action handed to the inner env is `<rng>.choice(candidates)`", construct="lin-choice",
              necessity="a step with size k must reveal exactly one previously unknown coalition of that size")
    if cand is not None:
        c = cand
        if c[0] == "index" and c[2] == ("const", 0):
            c = c[1]
        if is_call_to(c, "numpy.where", "numpy.nonzero", "numpy.flatnonzero") and len(c[2]) == 1:
            cond = c[2][0]
            parts = []
            if cond[0] == "bin" and cond[1] in ("*", "&"):
                parts = [cond[2], cond[3]]
            elif is_call_to(cond, "numpy.logical_and") and len(cond[2]) == 2:
                parts = list(cond[2])
            size_eq = ("cmp", "==", A("subset_sizes"), kp)
            size_eq2 = ("cmp", "==", kp, A("subset_sizes"))
            has_size = any(p in (size_eq, size_eq2) for p in parts)
            has_mask = any(p == inner_mask for p in parts)
            col.check(has_size, ref.where(se.node), ref.short, "candidates are restricted to coalitions of the requested size", construct="lin-size-conjunct",
                      necessity="otherwise a coalition of another size is revealed")
            col.check(has_mask, ref.where(se.node), ref.short, "candidates are restricted to still-unknown coalitions (inner mask)", construct="lin-mask-conjunct",
                      necessity="otherwise an already known coalition can be chosen: reveal_value asserts / the step reveals nothing new")
        else:
            col.undecidable(ref.where(se.node), ref.short, f"candidate set not of the form np.where(a * b)[0]: {short(cand, 80)}")

    col.rule("Z3", "reward, done, truncated and info of the inner step are passed through unchanged; done/reward delegate", 3)
    rv = _single_return(ft, ref)
    okp = rv[0] == "tuple" and len(rv[1]) == 2 and rv[1][0] == agg(("index", se.term, ("const", 0))) \
        and rv[1][1] == ("star", ("index", se.term, ("slice", ("const", 1), None, None)))
    if not okp and rv[0] == "tuple" and len(rv[1]) == 5:
        okp = rv[1][0] == agg(("index", se.term, ("const", 0))) and all(rv[1][i] == ("index", se.term, ("const", i)) for i in range(1, 5))
    col.check(okp, ref.where(), ref.short, "step returns (aggregate(inner obs), *inner[1:])", construct="lin-step-return",
              necessity="the linear env must report the underlying environment's reward, done flag and revealed coalition")
    for nm in ("done", "reward"):
        ref2 = _method(prog, LIN, nm)
        rv2 = _single_return(fterms(prog, ref2), ref2)
        col.check(rv2 == ("attr", IN, nm), ref2.where(), ref2.short, f"{nm} delegates to the inner env", construct=f"lin-{nm}", necessity="the linear env must report the underlying environment's reward and done flag")


def rule_episode_state_reset(prog: Program, col: Collector) -> None:
    """EP: every attribute an env writes outside its constructor is re-initialised by reset() (no state survives an episode)."""
    _COL.append(col)
    col.rule("EP", "every attribute written outside __init__ (per-episode state, caches) is assigned again in reset()", 2)
    for cq in (GYM, LIN):
        meths = prog.methods(cq)
        reset = meths.get("reset")
        if reset is None:
            raise AnchorMissing(f"{cq}.reset not found")
        written: dict[str, list] = {}
        for name, m in meths.items():
            if name == "__init__":
                continue
            ft = fterms(prog, m)
            for e in list(ft.of_kind("store")) + list(ft.of_kind("aug")):
                if e.obj == SELF and e.attr is not None:
                    written.setdefault(e.attr, []).append((m, e))
                elif e.index is not None and isinstance(e.obj, tuple) and e.obj[0] == "attr" and e.obj[1] == SELF:
                    written.setdefault(e.obj[2], []).append((m, e))        # self.cache[key] = ...
            for e in ft.calls():
                if e.recv is not None and e.recv[0] == "attr" and e.recv[1] == SELF and e.name in (
                        "append", "add", "update", "setdefault", "pop", "clear", "extend", "insert", "remove", "discard", "popitem"):
                    written.setdefault(e.recv[2], []).append((m, e))       # self.cache.update(...)
        in_reset = {e.attr for e in fterms(prog, reset).of_kind("store") if e.obj == SELF and e.attr is not None and not e.guards()}
        # reset of the wrapper may delegate: attributes of the inner env are reset by the inner reset()
        if not written:
            col.ok(reset.where(), reset.short, "the class writes no attribute outside its constructor")
        for attr, sites in sorted(written.items()):
            m, e = sites[0]
            col.check(attr in in_reset, m.where(e.node), m.short if attr in in_reset else reset.short,
                      f"self.{attr} (written in {', '.join(sorted({x[0].node.name for x in sites}))}) is unconditionally re-assigned in reset()",
                      construct=f"not-reset:{attr}",
                      necessity="reset forgets everything but the minimal information: a counter, cache or saved array that survives reset leaks the previous episode "
                                "(or the constructor-time game) into the observations, masks or rewards of the next one")


def rule_env_observers_pure(prog: Program, col: Collector) -> None:
    """OBS-E: what an environment reports (its properties, the action mask) is a function of its state - reading it changes nothing."""
    col.rule("OBS-E", "properties and mask accessors of the environments store nothing into the environment (no latch, no cache)", 4)
    for cq in (GYM, LIN):
        for name, m in prog.methods(cq).items():
            if not (m.is_property() or name in ("action_masks", "valid_action_mask", "compute_reward")):
                continue
            ft = fterms(prog, m)
            hits = []
            for e in list(ft.of_kind("store")) + list(ft.of_kind("aug")):
                if e.obj == SELF and e.attr is not None:
                    hits.append((e, f"self.{e.attr}"))
                elif e.index is not None and isinstance(e.obj, tuple) and e.obj[0] == "attr" and e.obj[1] == SELF:
                    hits.append((e, f"self.{e.obj[2]}[...]"))
            for e in ft.calls():
                if e.recv is not None and e.recv[0] == "attr" and e.recv[1] == SELF and e.name in (
                        "append", "add", "update", "setdefault", "pop", "clear", "extend", "insert", "remove", "discard", "popitem"):
                    hits.append((e, f"self.{e.recv[2]}.{e.name}()"))
            col.check(not hits, m.where(hits[0][0].node if hits else None), m.short,
                      f"{name} stores nothing into the environment" + (f" (found: {hits[0][1]})" if hits else ""), construct=f"observer-stores:{name}",
                      necessity="a flag or cache set while reading (`done` latched once true, a remembered mask) is not undone by unstep(): after a solver's probe "
                                "step()/unstep() the table is restored but the environment still reports the probed state - done stays true with actions left")


_VIEW_GETTERS = ("get_intervals", "get_upper_bounds", "get_lower_bounds", "get_values", "get_known_values", "are_values_known")


def rule_env_holds_no_view(prog: Program, col: Collector) -> None:
    """An environment does not keep an array obtained from a getter of its game: it asks the game when it needs the numbers."""
    col.rule("OBS-V", "no attribute of an environment is bound to an array returned by a getter of a game (a view today, a frozen copy after pickling)", 0)
    n = 0
    for cq in (GYM, LIN):
        for name, m in prog.methods(cq).items():
            for e in fterms(prog, m).of_kind("store"):
                if e.obj == SELF and e.attr is not None:
                    v = e.value
                    while isinstance(v, tuple) and v and v[0] in ("index", "attr") and not (v[0] == "attr" and v[2] in _VIEW_GETTERS):
                        v = v[1]
                    if isinstance(v, tuple) and len(v) == 4 and v[0] == "call" and v[1][0] == "attr" and v[1][2] in _VIEW_GETTERS and not v[2] and not v[3]:
                        n += 1
                        col.violation(m.where(e.node), m.short, f"env-holds-view:{e.attr}", f"self.{e.attr} keeps the array returned by {v[1][2]}() of a game",
                                      "the no-argument getters hand out views of the game's table: the attribute tracks the game only as long as both live in one process - "
                                      "pickled into a pool worker (or copied) it becomes a frozen snapshot, so `done` / the observation read there differ from the sequential run; "
                                      "it also goes stale as soon as the game object is replaced")
    if n == 0:
        col.ok("-", "environments", "no attribute holds a getter's array")
