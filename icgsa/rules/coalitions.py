"""C18: coalition operators (K3, bit-set algebra), enumeration helpers (E-enum), predicates (K1, K2)."""
from __future__ import annotations

import ast

from ..bitalg import BitAlg, SetEval, Unknown
from ..core import AnalysisError, AnchorMissing, FuncRef, Program
from ..report import Collector
from ..terms import Term, is_call_to, is_global, show, subterms
from .common import fterms, has_subterm, short

P = "incomplete_cooperative."
COAL = P + "coalitions.Coalition"
SELF = ("param", "self")


def _inline_simple(prog: Program, t: Term, depth: int = 0) -> Term:
    """Inline calls to single-return package helpers (player_to_coalition, grand_coalition ...)."""
    if depth > 3 or not isinstance(t, tuple):
        return t
    if t and t[0] == "call" and t[1][0] == "global" and t[1][1].startswith(P):
        ref = prog.find_func(t[1][1])
        if ref is not None and ref.cls is None:
            ft = fterms(prog, ref)
            rets = list(ft.of_kind("return"))
            params = ref.positional_params()
            if len(rets) == 1 and len(params) == len(t[2]) and not t[3] and not any(e.kind in ("loop", "yield") for e in ft.events):
                body = rets[0].value
                mapping = {("param", p): _inline_simple(prog, a, depth + 1) for p, a in zip(params, t[2])}
                return _inline_simple(prog, _subst(body, mapping), depth + 1)
    return tuple(_inline_simple(prog, x, depth) if isinstance(x, tuple) else x for x in t)


def _subst(t, mapping):
    if not isinstance(t, tuple):
        return t
    if t in mapping:
        return mapping[t]
    return tuple(_subst(x, mapping) for x in t)


def _player_count_of(x: Term, p: Term, conds: list) -> bool:
    """x is the player count of the argument p (a game or a number) on the alternative chosen under `conds`: p itself where p is not a game,
    p.number_of_players where it is one."""
    game_tests = [taken for t, taken in conds if is_call_to(t, "isinstance") and len(t[2]) == 2 and t[2][0] == p and show(t[2][1]).endswith(("Game", "Game)"))]
    int_tests = [taken for t, taken in conds if is_call_to(t, "isinstance") and len(t[2]) == 2 and t[2][0] == p and show(t[2][1]).endswith("int")]
    if x == p:
        return True not in game_tests and False not in int_tests
    if x == ("attr", p, "number_of_players"):
        return False not in game_tests and True not in int_tests and bool(game_tests or int_tests)
    return False


def _alternatives(t: Term) -> list[tuple[list, Term]]:
    """Split phi/ifexp nodes: [(conditions taken, phi-free term)]."""
    if not isinstance(t, tuple):
        return [([], t)]
    if t and t[0] in ("phi", "ifexp"):
        out = []
        for c, v in _alternatives(t[2]):
            out.append(([(t[1], True)] + c, v))
        for c, v in _alternatives(t[3]):
            out.append(([(t[1], False)] + c, v))
        return out
    parts = [[([], x)] if not isinstance(x, tuple) else _alternatives(x) for x in t]
    res = [([], ())]
    for alts in parts:
        nxt = []
        for c0, acc in res:
            for c1, v in alts:
                ok = True
                d = dict((repr(a), b) for a, b in c0)
                for a, b in c1:
                    if d.get(repr(a), b) != b:
                        ok = False
                if ok:
                    nxt.append((c0 + [x for x in c1 if x not in c0], acc + (v,)))
        res = nxt
        if len(res) > 64:
            break
    return res


def rule_k3_operators(prog: Program, col: Collector) -> None:
    col.rule("K3", "Coalition operators agree with finite-set semantics for every input: truth-table normal form of the bitwise expression == the set-theoretic specification", 8)
    mm = prog.methods("coalitions.Coalition")
    NEC = "union / intersection / difference / membership must agree with finite-set semantics for every coalition and player count"
    # spec per operator: function of masks (alg, A, X) -> expected, where X is B (coalition operand) or S (singleton of a player operand)
    specs = {
        "__and__": ("set", lambda a, A, X: A & X),
        "__or__": ("set", lambda a, A, X: A | X),
        "__sub__": ("set", lambda a, A, X: A & a.NOT(X)),
        "__add__": ("set", lambda a, A, X: A | X),
        "__contains__": ("pred", lambda a, A, X: a.subset(X, A)),
    }
    # a coalition is a value: hashed and compared by its id, shared between containers, caches and aliases - the id is written once
    writers = []
    for mname, mref in mm.items():
        if mname in ("__init__", "__new__", "__post_init__"):
            continue
        for e in list(fterms(prog, mref).of_kind("store")) + list(fterms(prog, mref).of_kind("aug")):
            if e.data.get("attr") == "id" and e.data.get("obj") is not None and e.data["obj"][0] == "param":
                writers.append((mref, e))
    col.check(not writers, writers[0][0].where(writers[0][1].node) if writers else mm["__init__"].where() if "__init__" in mm else "coalitions.Coalition",
              writers[0][0].short if writers else "coalitions.Coalition",
              "no method of Coalition changes an id after construction (found: " + ", ".join(sorted({w[0].node.name for w in writers})) + ")" if writers
              else "no method of Coalition changes an id after construction",
              construct="coalition-mutated-in-place",
              necessity="coalitions hash and compare by id and are shared (dict keys, sets, cached singletons, aliases such as `c = T`): an operator that updates the id in place "
                        "changes every alias, loses the object in the sets that hold it, and corrupts a shared singleton for the rest of the process")
    for name, (kind, spec) in specs.items():
        ref = mm.get(name)
        if ref is None:
            raise AnchorMissing(f"Coalition.{name} not found")
        ft = fterms(prog, ref)
        op = ("param", ref.positional_params()[1])
        rets = [r for r in ft.of_kind("return")]
        if not rets:
            raise AnalysisError(f"Coalition.{name}: no return")
        nchecked = 0
        for r in rets:
            v = _inline_simple(prog, r.value)
            for conds, alt in _alternatives(v):
                # which kind of operand does this alternative handle?  guards: isinstance(other, int|Player|Coalition)
                operand = None
                for t, taken in list(conds) + [(f[1], f[2]) for f in r.ctx if f[0] == "if"]:
                    if is_call_to(t, "isinstance") and len(t[2]) == 2 and t[2][0] == op:
                        ty = show(t[2][1])
                        if ty.endswith("Coalition"):
                            operand = "coalition" if taken else (operand or "player")
                        elif ty in ("int", "protocols.Player", "Player") or ty.endswith("Player"):
                            operand = "player" if taken else (operand or "coalition")
                if operand is None:
                    operand = "coalition"
                alg = BitAlg(["A", "X"])
                atoms = {("attr", SELF, "id"): "A"}
                singles = {}
                if operand == "coalition":
                    atoms[("attr", op, "id")] = "X"
                else:
                    singles[op] = "X"
                ev = SetEval(alg, atoms, [], COAL, singles)
                body = alt
                try:
                    if kind == "set":
                        if not (is_call_to(body, COAL) and len(body[2]) == 1):
                            raise Unknown("does not return Coalition(expr): " + show(body)[:60])
                        got = ev.set(body[2][0])
                        want = spec(alg, alg.atom("A"), alg.atom("X"))
                        ok = got == want
                        detail = f"{alg.describe(got)} vs spec {alg.describe(want)}"
                    else:
                        got = ev.pred(body)
                        want = spec(alg, alg.atom("A"), alg.atom("X"))
                        ok = got == want
                        detail = f"{got[0]} {alg.describe(got[1])} vs spec {want[0]} {alg.describe(want[1])}"
                except Unknown as u:
                    # the int branch of an operator that only supports coalitions raises: fine
                    col.undecidable(ref.where(r.node), ref.short, f"{name} [{operand} operand]: expression outside the bit-set algebra: {u}")
                    continue
                nchecked += 1
                col.check(ok, ref.where(r.node), ref.short, f"{name} with a {operand} operand equals its set-theoretic specification ({detail})",
                          construct=f"set-semantics:{name}:{operand}", necessity=NEC)
        if nchecked == 0:
            col.undecidable(ref.where(), ref.short, f"{name}: no alternative could be evaluated")
    # __eq__ between coalitions: ids equal
    ref = mm.get("__eq__")
    if ref is not None:
        ft = fterms(prog, ref)
        op = ("param", ref.positional_params()[1])
        ok = False
        for r in ft.of_kind("return"):
            if r.value == ("cmp", "==", ("attr", SELF, "id"), ("attr", op, "id")) and any(
                    f[0] == "if" and f[2] is True and is_call_to(f[1], "isinstance") and show(f[1][2][1]).endswith("Coalition") for f in r.ctx):
                ok = True
        col.check(ok, ref.where(), ref.short, "two coalitions are equal iff their ids are equal", construct="eq", necessity=NEC)
    h = mm.get("__hash__")
    if h is not None:
        rv = list(fterms(prog, h).of_kind("return"))
        col.check(len(rv) == 1 and rv[0].value == ("call", ("global", "hash"), (("attr", SELF, "id"),), ()), h.where(), h.short,
                  "hash is the hash of the id (consistent with equality: coalitions are used in sets and dict keys)", construct="hash", necessity=NEC)
    # helpers
    alg = BitAlg(["A", "B"])
    for fname, spec_desc, check in (
        ("coalitions.disjoint_coalitions", "disjoint iff intersection empty", "disjoint"),
    ):
        ref = prog.func(fname)
        ft = fterms(prog, ref)
        p = ref.positional_params()
        rv = list(ft.of_kind("return"))
        ok = False
        if len(rv) == 1:
            v = rv[0].value
            a, b = ("param", p[0]), ("param", p[1])
            inter = [("bin", "&", a, b), ("bin", "&", b, a)]
            ok = (v[0] == "cmp" and v[1] == "==" and v[2] in inter and is_call_to(v[3], COAL) and v[3][2] == (("const", 0),)) or \
                (v[0] == "cmp" and v[1] == "==" and v[2][0] == "attr" and v[2][2] == "id" and v[2][1] in inter and v[3] == ("const", 0))
        col.check(ok, ref.where(), ref.short, "disjoint_coalitions(a, b) == ((a & b) is empty)", construct="disjoint", necessity=NEC)
    for fname, want in (("coalitions.player_to_coalition", "singleton"), ("coalitions.grand_coalition", "grand")):
        ref = prog.func(fname)
        ft = fterms(prog, ref)
        p = ("param", ref.positional_params()[0])
        rv = list(ft.of_kind("return"))
        ok = False
        if want == "grand":
            alts = _alternatives(ft.result())
            ok = bool(alts)
            for conds, alt in alts:
                x = alt[2][0] if is_call_to(alt, COAL) and len(alt[2]) == 1 else ("unknown",)
                ok = ok and x[0] == "bin" and x[1] == "-" and x[3] == ("const", 1) and x[2][0] == "bin" and \
                    ((x[2][1] == "**" and x[2][2] == ("const", 2)) or (x[2][1] == "<<" and x[2][2] == ("const", 1))) and _player_count_of(x[2][3], p, conds)
        elif len(rv) == 1 and is_call_to(rv[0].value, COAL) and len(rv[0].value[2]) == 1:
            x = rv[0].value[2][0]
            if want == "singleton":
                ok = x in (("bin", "**", ("const", 2), p), ("bin", "<<", ("const", 1), p))
            else:
                # players may be re-bound from a Game: 2**players - 1
                ok = x[0] == "bin" and x[1] == "-" and x[3] == ("const", 1) and x[2][0] == "bin" and \
                    ((x[2][1] == "**" and x[2][2] == ("const", 2)) or (x[2][1] == "<<" and x[2][2] == ("const", 1))) and \
                    (x[2][3] == p or (x[2][3][0] in ("phi", "ifexp") and has_subterm(x[2][3], ("attr", p, "number_of_players"))))
        col.check(ok, ref.where(), ref.short, {"singleton": "player_to_coalition(p) = Coalition(2**p)", "grand": "grand_coalition(n) = Coalition(2**n - 1)"}[want],
                  construct=want, necessity=NEC)
    # from_players: union of distinct singletons
    ref = mm.get("from_players")
    if ref is not None:
        ft = fterms(prog, ref)
        aug = [e for e in ft.of_kind("aug") if e.op in ("+", "|")]
        ok = False
        for e in aug:
            lp = [f for f in e.ctx if f[0] == "for"]
            if not lp:
                continue
            it = lp[-1][3]
            x = lp[-1][2]
            single = e.value in (("bin", "**", ("const", 2), x), ("bin", "<<", ("const", 1), x))
            dedup = is_call_to(it, "set", "frozenset") or e.op == "|"
            ok = ok or (single and dedup)
        # the same fold written as an expression: sum(2**p for p in set(players)) / reduce(lambda id, p: id + 2**p, set(players), 0) / reduce(or_, ...)
        from .common import comp_parts
        for r in ft.of_kind("return"):
            for t in subterms(r.value):
                fold = None
                if is_call_to(t, "sum") and len(t[2]) == 1:
                    fold = ("+", t[2][0])
                elif is_call_to(t, "functools.reduce") and len(t[2]) == 3 and t[2][2] == ("const", 0) and t[2][0][0] == "lambda" and len(t[2][0][1]) == 2:
                    acc, x = t[2][0][1]
                    body = t[2][0][2]
                    if body[0] == "bin" and body[1] in ("+", "|") and body[2] == acc and body[3] in (("bin", "**", ("const", 2), x), ("bin", "<<", ("const", 1), x)):
                        ok = ok or body[1] == "|" or is_call_to(t[2][1], "set", "frozenset")
                elif is_call_to(t, "functools.reduce") and len(t[2]) == 3 and t[2][2] == ("const", 0) and t[2][0] == ("global", "operator.or_"):
                    fold = ("|", t[2][1])
                if fold is not None:
                    cp = comp_parts(fold[1])
                    if cp is not None and not cp[3] and cp[0] in (("bin", "**", ("const", 2), cp[1]), ("bin", "<<", ("const", 1), cp[1])):
                        ok = ok or fold[0] == "|" or is_call_to(cp[2], "set", "frozenset")
        col.check(ok, ref.where(), ref.short, "from_players: id = union of 2**p over the DISTINCT players (set(...) or |=)", construct="from_players",
                  necessity="adding 2**p twice for a repeated player carries into another player's bit")
    # players / __len__: digit scan over the whole (unbounded) id
    for name in ("players", "__len__"):
        ref = mm.get(name)
        if ref is None:
            continue
        _decide_bit_scan(prog, col, ref, name, mm, NEC)


# --------------------------------------------------------------------------------------
# size / player listing: a scan that reads EVERY bit of an id of unbounded width
# --------------------------------------------------------------------------------------

ID = ("attr", SELF, "id")


def _const_int(t: Term) -> int | None:
    """Constant folding of small integer expressions (2**8, 1 << 8, 0xFF, 2**8 - 1)."""
    if not isinstance(t, tuple):
        return None
    if t[0] == "const" and isinstance(t[1], int) and not isinstance(t[1], bool):
        return t[1]
    if t[0] == "bin":
        a, b = _const_int(t[2]), _const_int(t[3])
        if a is None or b is None:
            return None
        try:
            return {"+": a + b, "-": a - b, "*": a * b, "**": a ** b if 0 <= b < 64 else None, "<<": a << b if 0 <= b < 64 else None,
                    ">>": a >> b if b >= 0 else None, "&": a & b, "|": a | b}.get(t[1])
        except Exception:
            return None
    return None


def _is_popcount_of(t: Term, x: Term) -> bool:
    """bin(x).count('1') / format(x, 'b').count('1') / x.bit_count() / int.bit_count(x)."""
    if not isinstance(t, tuple) or t[0] != "call":
        return False
    f = t[1]
    if f[0] == "attr" and f[2] == "bit_count" and f[1] == x and not t[2]:
        return True
    if f == ("global", "int.bit_count") and t[2] == (x,):
        return True
    if f[0] == "attr" and f[2] == "count" and t[2] == (("const", "1"),):
        r = f[1]
        if is_call_to(r, "bin") and r[2] == (x,):
            return True
        if is_call_to(r, "format") and r[2] == (x, ("const", "b")):
            return True
    return False


def _popcount_table_size(prog: Program, ref: FuncRef, t: Term) -> int | None:
    """Number of entries of a table that is provably ``[popcount(i) for i in range(N)]`` (list/tuple/bytes of a comprehension)."""
    node = None
    if t[0] == "global":
        gv = prog.global_value(t[1])
        node = gv[1] if gv else None
    elif t[0] == "attr" and t[1] == SELF and ref.cls is not None:
        for n in ref.cls.body:
            if isinstance(n, ast.Assign) and any(isinstance(x, ast.Name) and x.id == t[2] for x in n.targets):
                node = n.value
    if node is None:
        return None
    if isinstance(node, ast.Call) and isinstance(node.func, ast.Name) and node.func.id in ("list", "tuple", "bytes", "bytearray") and len(node.args) == 1:
        node = node.args[0]
    if not isinstance(node, (ast.ListComp, ast.GeneratorExp)) or len(node.generators) != 1:
        return None
    g = node.generators[0]
    if g.ifs or not isinstance(g.target, ast.Name) or not (isinstance(g.iter, ast.Call) and isinstance(g.iter.func, ast.Name) and g.iter.func.id == "range" and len(g.iter.args) == 1):
        return None
    var = g.target.id
    elt = ast.unparse(node.elt).replace('"', "'")
    if elt not in (f"bin({var}).count('1')", f"{var}.bit_count()", f"int.bit_count({var})", f"format({var}, 'b').count('1')"):
        return None
    try:
        n = eval(compile(ast.Expression(g.iter.args[0]), "<const>", "eval"), {"__builtins__": {}}) if all(  # constant arithmetic only
            isinstance(x, (ast.Constant, ast.BinOp, ast.operator, ast.Expression)) for x in ast.walk(g.iter.args[0])) else None
    except Exception:
        n = None
    return n if isinstance(n, int) else None


def _bit_support(t: Term, x: Term) -> int | None:
    """If every occurrence of ``x`` in the loop-free term ``t`` sits under ``(x >> c) & m`` / ``x & m`` with constants: the number of low bits
    of x the value can depend on.  None = some occurrence is unmasked (unbounded support) or of unknown shape."""
    hi = 0

    def walk(u) -> bool:
        nonlocal hi
        if not isinstance(u, tuple):
            return True
        if u == x:
            return False                      # bare occurrence
        if u and u[0] == "bin" and u[1] == "&":
            for a, b in ((u[2], u[3]), (u[3], u[2])):
                m = _const_int(b)
                if m is not None and m >= 0:
                    sh = 0
                    if a[0] == "bin" and a[1] == ">>" and a[2] == x and _const_int(a[3]) is not None:
                        sh = _const_int(a[3])
                        a = x
                    if a == x:
                        hi = max(hi, sh + m.bit_length())
                        return True
        return all(walk(c) for c in u)

    return hi if walk(t) and hi > 0 else None


def _decide_bit_scan(prog: Program, col: Collector, ref: FuncRef, name: str, mm: dict, NEC: str) -> None:
    """``__len__`` must count, and ``players`` must list, every set bit of an id whose width is unbounded (any number of players).

    Recognised families (anything else is UNDECIDED):
      * direct population count of ``self.id`` (``bin(id).count('1')``, ``id.bit_count()``), or a count of ``self.players``;
      * digit scan ``x = self.id; while x: acc += D(x & (2**k - 1)); x >>= k`` with D the identity (k = 1), a guarded ``+= 1``, or a
        lookup in a table that is provably ``[popcount(i) for i in range(2**k)]``;
      * position scan ``for p in range(self.id.bit_length())`` testing ``(self.id >> p) & 1`` / ``self.id & (1 << p)``.
    A loop-free expression that reads ``self.id`` only through constant masks depends on finitely many bits: VIOLATION.
    """
    ft = fterms(prog, ref)
    where = ref.where()
    cons = f"bitscan:{name}"
    rets = list(ft.of_kind("return"))
    yields = list(ft.of_kind("yield"))
    loops = list(ft.of_kind("loop"))
    wl = [e for e in loops if e.iter is None]
    fl = [e for e in loops if e.iter is not None]

    def bad(msg: str) -> None:
        col.violation(where, ref.short, cons, f"{name}: {msg}", NEC)

    def good(msg: str) -> None:
        col.ok(where, ref.short, f"{name}: {msg}")

    def unknown(msg: str) -> None:
        col.undecidable(where, ref.short, f"{name}: {msg}")

    # ---------------------------------------------------------------- loop-free forms (size only)
    if not loops and name == "__len__":
        if len(rets) != 1:
            return unknown("several returns in a loop-free size function")
        v = rets[0].value
        if _is_popcount_of(v, ID):
            return good("population count of the whole id")
        players = ("attr", SELF, "players")
        if v in (("call", ("global", "len"), (("call", ("global", "list"), (players,), ()),), ()),
                 ("call", ("global", "len"), (("call", ("global", "tuple"), (players,), ()),), ())) or \
                (is_call_to(v, "sum") and v[2] and v[2][0][0] == "comp" and v[2][0][2] == ("const", 1) and len(v[2][0][3]) == 1
                 and v[2][0][3][0][1] == players and not v[2][0][3][0][2]):
            return good("number of elements of self.players (decided separately)")
        for s in subterms(v):
            if s[0] == "call" and any(_is_popcount_of(s, y) for y in subterms(s) if y != s) and not _is_popcount_of(s, ID):
                sup = next((_bit_support(y, ID) for y in subterms(s) if y != s and _is_popcount_of(s, y)), None)
                if sup:
                    return bad(f"population count of a masked id: only the {sup} lowest bits are counted, ids are unbounded")
        sup = _bit_support(v, ID)
        if sup:
            return bad(f"loop-free expression that reads only the {sup} lowest bits of the id (constant masks/shifts): "
                       f"coalitions with a player >= {sup} get the wrong size; ids are unbounded")
        return unknown("neither a digit scan nor a population-count idiom")
    if not loops:
        return unknown("no scan loop")

    # ---------------------------------------------------------------- position scan: for p in range(self.id.bit_length())
    if fl and not wl:
        if len(fl) != 1:
            return unknown("several loops")
        lp = fl[0]
        it, pv = lp.iter, lp.data["frame"][2]
        full = is_call_to(it, "range") and it[2] == (("call", ("attr", ID, "bit_length"), (), ()),)
        if is_call_to(it, "range") and len(it[2]) == 1 and _const_int(it[2][0]) is not None:
            return bad(f"scans bit positions 0..{_const_int(it[2][0]) - 1} only; ids are unbounded")
        if not full:
            return unknown(f"for-loop over {short(it, 60)}")
        tests = (("bin", "&", ("bin", ">>", ID, pv), ("const", 1)), ("bin", "&", ID, ("bin", "<<", ("const", 1), pv)), ("bin", "&", ID, ("bin", "**", ("const", 2), pv)))
        tests = tests + tuple(("bin", "&", t[3], t[2]) for t in tests)
        uid = lp.data["uid"]
        inside = [e for e in ft.events if any(f[0] == "for" and f[1] == uid for f in e.ctx)]
        if name == "__len__":
            adds = [e for e in inside if e.kind == "aug" and e.op == "+"]
            if len(adds) != 1:
                return unknown("expected exactly one accumulation per position")
            a = adds[0]
            guards = [f for f in a.ctx if f[0] == "if"]
            direct = not guards and a.value in (tests[0], tests[3])
            guarded = len(guards) == 1 and guards[0][2] is True and guards[0][1] in tests and a.value == ("const", 1)
            if direct or guarded:
                return good("position scan over range(id.bit_length()) adding each bit once")
            return bad(f"position scan adds {short(a.value, 50)} under {[short(g[1], 40) for g in guards]}: not one per set bit")
        ys = [e for e in inside if e.kind == "yield"]
        if len(ys) == 1:
            guards = [f for f in ys[0].ctx if f[0] == "if"]
            if len(guards) == 1 and guards[0][2] is True and guards[0][1] in tests and ys[0].value == pv:
                return good("position scan over range(id.bit_length()) yielding each set position")
            return bad(f"position scan yields {short(ys[0].value, 40)} under {[short(g[1], 40) for g in guards]}")
        return unknown("position scan of unknown shape")

    # ---------------------------------------------------------------- digit scan: while x: ...; x >>= k
    if len(wl) != 1 or fl:
        return unknown("several loops")
    lp = wl[0]
    uid = lp.data["uid"]
    frame = lp.data["frame"]
    test = frame[2]
    inside = [e for e in ft.events if any(f[0] == "while" and f[1] == uid for f in e.ctx)]
    shifts = [e for e in inside if e.kind == "aug" and e.op == ">>" and e.data.get("name")]
    if len(shifts) != 1:
        return unknown("expected exactly one `x >>= k` in the scan loop") if shifts else bad("the scan loop never shifts its cursor")
    sh = shifts[0]
    xname = sh.data["name"]
    xh = ("loopmod", xname, uid)
    k = _const_int(sh.value)
    if sh.data["target"] != xh:
        return bad("the cursor is shifted twice in one iteration")
    if any(f[0] in ("if", "for", "try") for f in sh.ctx):
        return bad("the cursor is shifted only conditionally: the scan does not advance on every iteration")
    if k is None or k < 1:
        return unknown(f"shift by {short(sh.value, 30)}")
    if test not in (xh, ("cmp", "!=", xh, ("const", 0)), ("cmp", "!=", ("const", 0), xh), ("cmp", "<", ("const", 0), xh)):
        return bad(f"the scan stops on `{short(test, 50)}` instead of when the cursor is exhausted: higher bits may be skipped")
    init = [e for e in ft.of_kind("assign") if e.data.get("name") == xname and e.seq < lp.seq]
    if not init or init[-1].value != ID:
        return bad(f"the cursor starts at {short(init[-1].value, 50) if init else 'nothing'} instead of self.id")
    if any(e.kind in ("assign",) and e.data.get("name") == xname for e in inside):
        return unknown("the cursor is re-assigned inside the loop")
    mask = ("const", (1 << k) - 1)
    digit = [("bin", "&", xh, mask), ("bin", "&", mask, xh)] + ([("bin", "%", xh, ("const", 2))] if k == 1 else [])
    digit_like = lambda t: t in digit or (t[0] == "bin" and t[1] == "&" and ((t[2] == xh and _const_int(t[3]) == (1 << k) - 1) or (t[3] == xh and _const_int(t[2]) == (1 << k) - 1)))
    if name == "__len__":
        adds = [e for e in inside if e.kind == "aug" and e.op == "+"]
        if len(adds) != 1:
            return unknown("expected exactly one accumulation per iteration") if adds else bad("nothing is accumulated in the scan loop")
        a = adds[0]
        acc = a.data.get("name")
        guards = [f for f in a.ctx if f[0] == "if"]
        v = a.value
        okv = False
        if not guards and k == 1 and digit_like(v):
            okv = True
        elif not guards and v[0] == "ifexp" and k == 1 and digit_like(v[1]) and v[2] == ("const", 1) and v[3] == ("const", 0):
            okv = True
        elif len(guards) == 1 and guards[0][2] is True and k == 1 and digit_like(guards[0][1]) and v == ("const", 1):
            okv = True
        elif not guards and v[0] == "index" and digit_like(v[2]):
            n = _popcount_table_size(prog, ref, v[1])
            if n is None:
                return unknown(f"digit table {short(v[1], 40)} is not provably [popcount(i) for i in range(2**{k})]")
            if n < (1 << k):
                return bad(f"digit table has {n} entries for {k}-bit digits")
            okv = True
        elif not guards and any(_is_popcount_of(v, d) for d in digit):
            okv = True
        elif not guards and _is_popcount_of(v, xh):
            return bad("adds the population count of the whole remaining cursor in every iteration (bits counted repeatedly)")
        if not okv:
            return bad(f"per iteration the scan adds {short(v, 60)}{' under ' + short(guards[0][1], 40) if guards else ''}: not the number of set bits of the "
                       f"current {k}-bit digit `x & {(1 << k) - 1}` (a value read after the shift, a wider/narrower mask or shift, or a constant)")
        i0 = [e for e in ft.of_kind("assign") if e.data.get("name") == acc and e.seq < lp.seq]
        if not i0 or i0[-1].value != ("const", 0):
            return bad("the accumulator does not start at 0")
        by_name = len(rets) == 1 and isinstance(rets[0].node.value, ast.Name) and rets[0].node.value.id == acc
        # ... or through a helper that is read through: the returned TERM is the value the accumulator (start 0) has when the scan loop exits
        by_term = len(rets) == 1 and rets[0].value[0] == "phi" and rets[0].value[1] == ("loopexit", uid) and rets[0].value[3] == ("const", 0)
        if not (by_name or by_term) or any(f[0] in ("while", "for", "if") for f in rets[0].ctx):
            return bad("the function does not return the accumulator after the scan")
        return good(f"digit scan with {k}-bit digits: every bit of the id is counted exactly once")
    # players
    if k != 1:
        return unknown("player listing with multi-bit digits")
    if len(yields) != 1:
        return unknown("expected exactly one yield")
    y = yields[0]
    guards = [f for f in y.ctx if f[0] == "if"]
    incs = [e for e in inside if e.kind == "aug" and e.op == "+" and e.data.get("name")]
    if len(incs) != 1:
        return unknown("expected exactly one position counter")
    inc = incs[0]
    ih = ("loopmod", inc.data["name"], uid)
    if inc.value != ("const", 1) or inc.data["target"] != ih or any(f[0] in ("if", "for", "try") for f in inc.ctx):
        return bad("the position counter does not advance by exactly one on every iteration")
    i0 = [e for e in ft.of_kind("assign") if e.data.get("name") == inc.data["name"] and e.seq < lp.seq]
    if not i0 or i0[-1].value != ("const", 0):
        return bad("the position counter does not start at 0")
    if not (len(guards) == 1 and guards[0][2] is True and digit_like(guards[0][1])):
        return bad(f"a position is yielded under {[short(g[1], 40) for g in guards]} instead of `x & 1` of the current cursor")
    if y.value != ih:
        return bad(f"yields {short(y.value, 40)} instead of the position of the tested bit (counter advanced before the yield, or another value)")
    return good("bit scan: yields the position of every set bit once, in increasing order")


def rule_e_enum(prog: Program, col: Collector) -> None:
    col.rule("E-enum", "sub-/super-coalition enumerations are complete by construction, in both representations", 6)
    NEC = "the bound recurrences take MAX/MIN over these enumerations: a missing sub- or super-coalition loosens or breaks the bounds"
    # powerset
    ref = prog.func("functoolz.powerset")
    ft = fterms(prog, ref)
    p = ("param", ref.positional_params()[0])
    rv = list(ft.of_kind("return"))
    ok = False
    if len(rv) == 1:
        v = rv[0].value
        if is_call_to(v, "itertools.chain.from_iterable") and v[2] and v[2][0][0] == "comp":
            c = v[2][0]
            el, it, cd = c[3][0]
            ok = c[2] == ("call", ("global", "itertools.combinations"), (p, el), ()) and not cd and is_call_to(it, "range") and \
                it[2] in ((("bin", "+", ("call", ("global", "len"), (p,), ()), ("const", 1)),),
                          (("const", 0), ("bin", "+", ("call", ("global", "len"), (p,), ()), ("const", 1))))
    col.check(ok, ref.where(), ref.short, "powerset = chain(combinations(xs, r) for r in range(len(xs) + 1)): every size 0..len inclusive", construct="powerset",
              necessity=NEC)
    # object sub / super
    ref = prog.func("coalitions.get_sub_coalitions")
    rv = list(fterms(prog, ref).of_kind("return"))
    cp = ("param", ref.positional_params()[0])
    want = ("call", ("global", "map"), (("global", COAL + ".from_players"),
                                        ("call", ("global", P + "functoolz.powerset"), (("call", ("global", "list"), (("attr", cp, "players"),), ()),), ())), ())
    ok = len(rv) == 1 and rv[0].value == want
    if not ok and len(rv) == 1 and rv[0].value[0] == "comp":
        c = rv[0].value
        el, it, cd = c[3][0]
        ok = not cd and is_call_to(it, P + "functoolz.powerset") and c[2] == ("call", ("global", COAL + ".from_players"), (el,), ())
    col.check(ok, ref.where(), ref.short, "get_sub_coalitions(c) = Coalition.from_players over the whole powerset of c's players", construct="sub-obj", necessity=NEC)
    ref = prog.func("coalitions.get_super_coalitions")
    rv = list(fterms(prog, ref).of_kind("return"))
    pp = ref.positional_params()
    cp, tp = ("param", pp[0]), ("param", pp[1])
    ok = False
    if len(rv) == 1 and rv[0].value[0] == "comp":
        c = rv[0].value
        el, it, cd = c[3][0]
        opp = ("bin", "-", ("call", ("global", P + "coalitions.grand_coalition"), (tp,), ()), cp)
        ok = not cd and c[2] in (("bin", "|", cp, el), ("bin", "|", el, cp)) and it == ("call", ("global", P + "coalitions.get_sub_coalitions"), (opp,), ())
    col.check(ok, ref.where(), ref.short, "get_super_coalitions(c, n) = { c | s : s subset of (grand(n) - c) }, unfiltered", construct="super-obj", necessity=NEC)
    # id representation
    ref = prog.func("coalition_ids.sub_coalitions")
    ft = fterms(prog, ref)
    pp = ref.positional_params()
    cp, npar = ("param", pp[0]), ("param", pp[1])
    rv = list(ft.of_kind("return"))
    ok_pred = ok_range = False
    if len(rv) == 1 and rv[0].value[0] == "index":
        base, mask = rv[0].value[1], rv[0].value[2]
        if is_call_to(base, P + "coalition_ids.get_all_coalitions") and len(base[2]) == 1:
            m = base[2][0]
            # x | c == c   or   x & c == x   or  x & ~c == 0
            alg = BitAlg(["X", "C"])
            ev = SetEval(alg, {base: "X", cp: "C"}, [], COAL)
            try:
                pr = ev.pred(mask)
                ok_pred = pr == alg.subset(alg.atom("X"), alg.atom("C"))
            except Unknown:
                ok_pred = False
            # range: 2**m covers every subset: m = max player + 1, or the total number of players
            if m == npar:
                ok_range = True
            elif m[0] == "bin" and m[1] == "+" and m[3] == ("const", 1) and is_call_to(m[2], "numpy.max", "max") and m[2][2] and \
                    is_call_to(m[2][2][0], P + "coalition_ids.players") and m[2][2][0][2][0] == cp:
                ok_range = dict(m[2][3]).get("initial") is not None or True
    col.check(ok_pred, ref.where(), ref.short, "sub_coalitions selects exactly the ids x with x subset of c (truth-table form of the mask)", construct="sub-id-pred",
              necessity=NEC)
    col.check(ok_range, ref.where(), ref.short, "candidate ids range over 2**(highest player + 1) (or 2**n): no subset is out of range", construct="sub-id-range",
              necessity="without the +1 every subset containing the highest player is missed")
    ref = prog.func("coalition_ids.super_coalitions")
    ft = fterms(prog, ref)
    pp = ref.positional_params()
    cp, npar = ("param", pp[0]), ("param", pp[1])
    rv = list(ft.of_kind("return"))
    ok = False
    if len(rv) == 1 and rv[0].value[0] == "bin" and rv[0].value[1] == "|":
        a, b = rv[0].value[2], rv[0].value[3]
        sub = a if b == cp else (b if a == cp else None)
        if sub is not None and is_call_to(sub, P + "coalition_ids.sub_coalitions") and len(sub[2]) == 2 and sub[2][1] == npar:
            opp = sub[2][0]
            full = ("bin", "-", ("bin", "**", ("const", 2), npar), ("const", 1))
            alg = BitAlg(["C"])
            ev = SetEval(alg, {cp: "C"}, [full, ("bin", "-", ("bin", "<<", ("const", 1), npar), ("const", 1))], COAL)
            try:
                ok = ev.set(opp) == alg.NOT(alg.atom("C"))
            except Unknown:
                ok = False
    col.check(ok, ref.where(), ref.short, "super_coalitions(c, n) = sub_coalitions(complement of c within n players) | c", construct="super-id", necessity=NEC)
    ref = prog.func("coalition_ids.get_all_coalitions")
    rv = list(fterms(prog, ref).of_kind("return"))
    npar = ("param", ref.positional_params()[0])
    ok = len(rv) == 1 and is_call_to(rv[0].value, "numpy.arange") and rv[0].value[2] and \
        rv[0].value[2][0] in (("bin", "**", ("const", 2), npar), ("bin", "<<", ("const", 1), npar))
    col.check(ok, ref.where(), ref.short, "get_all_coalitions(n) = arange(2**n) (ids in ascending order)", construct="all-ids", necessity=NEC)
    ref = prog.func("coalitions.all_coalitions")
    from .common import comp_parts
    apar = ("param", ref.positional_params()[0])
    res = fterms(prog, ref).result()          # one formula: a branch per kind of argument (game / player count) is an alternative of it
    alts = _alternatives(res)
    ok = bool(alts)
    for conds, alt in alts:
        cp0 = comp_parts(alt)
        ok = ok and cp0 is not None and cp0[0] == ("call", ("global", COAL), (cp0[1],), ()) and not cp0[3] and is_call_to(cp0[2], "range") and len(cp0[2][2]) == 1 and \
            cp0[2][2][0][0] == "bin" and cp0[2][2][0][1] == "**" and cp0[2][2][0][2] == ("const", 2) and _player_count_of(cp0[2][2][0][3], apar, conds)
    col.check(ok, ref.where(), ref.short, "all_coalitions = Coalition(i) for i in range(2**n) (id order = table row order)", construct="all-obj", necessity=NEC)
    # size / players in id representation
    for fname in ("coalition_ids.get_size", "coalition_ids.players"):
        ref = prog.func(fname)
        rv = list(fterms(prog, ref).of_kind("return"))
        pp = ref.positional_params()
        cp, npar = ("param", pp[0]), ("param", pp[1])
        bits = ("bin", "**", ("const", 2), ("call", ("global", "numpy.arange"), (npar,), ()))
        member = ("cmp", "!=", ("bin", "&", bits, cp), ("const", 0))
        ok = len(rv) == 1 and has_subterm(rv[0].value, member)
        if fname.endswith("get_size"):
            ok = ok and rv[0].value == ("call", ("global", "numpy.sum"), (member,), ())        # x.sum() and np.sum(x) are one term
        col.check(ok, ref.where(), ref.short, f"{fname.rsplit('.', 1)[1]}: membership mask (2**arange(n) & c) != 0", construct=fname.rsplit(".", 1)[1], necessity=NEC)


def rule_k1_k2(prog: Program, col: Collector) -> None:
    col.rule("K1", "is_superadditive / is_monotone_decreasing iterate all coalitions and all sub-coalitions, fail only on the failed comparison, succeed at the end; is_sam is the conjunction", 8)
    SUB = P + "coalition_ids.sub_coalitions"
    ALL = P + "coalition_ids.get_all_coalitions"
    for fname, kind in (("game_properties.is_superadditive", "sa"), ("game_properties.is_monotone_decreasing", "mono")):
        ref = prog.func(fname)
        ft = fterms(prog, ref)
        gp = ("param", ref.positional_params()[0])
        npl = ("attr", gp, "number_of_players")
        loops = [e for e in ft.of_kind("loop") if e.iter is not None and is_call_to(e.iter, ALL) and e.iter[2] == (npl,)]
        if not loops:
            # a loop over a generator FUNCTION of the package is a stream this rule does not read through: not understood, not wrong
            gens = [e for e in ft.of_kind("loop") if e.iter is not None and e.iter[0] == "call" and e.iter[1][0] == "global" and e.iter[1][1].startswith(P)
                    and (lambda r: r is not None and any(isinstance(n, (ast.Yield, ast.YieldFrom)) for n in ast.walk(r.node)))(prog.find_func(e.iter[1][1]))]
            if gens:
                col.undecidable(ref.where(gens[0].node), ref.short, f"{fname.rsplit('.', 1)[1]} iterates over the generator function {short(gens[0].iter[1], 60)}: "
                                "the coalitions it yields are not read through", rule="K1")
                continue
        col.check(len(loops) == 1, ref.where(), ref.short, "the outer loop ranges over ALL coalitions of the game", construct=f"{kind}-outer",
                  necessity="a predicate that skips coalitions accepts games outside the class")
        if not loops:
            continue
        U = ("elem", loops[0].iter, loops[0].uid)
        values = ("call", ("attr", gp, "get_values"), (), ())
        Ss = ("call", ("global", SUB), (U, npl), ())
        rets = list(ft.of_kind("return"))
        false_rets = [r for r in rets if r.value == ("const", False)]
        true_rets = [r for r in rets if r.value == ("const", True)]
        col.check(len(true_rets) == 1 and not any(f[0] in ("for", "while", "if") for f in true_rets[0].ctx) and len(rets) == len(true_rets) + len(false_rets),
                  ref.where(), ref.short, "True is returned only after the whole loop", construct=f"{kind}-true-at-end",
                  necessity="returning True inside the loop accepts after the first coalition")
        okf = False
        for r in false_rets:
            g = [f for f in r.ctx if f[0] == "if"]
            if len(g) != 1 or not any(f[0] == "for" and f[1] == loops[0].uid for f in r.ctx):
                continue
            t, pol = g[0][1], g[0][2]
            neg = False
            while t[0] == "un" and t[1] == "not":
                t, neg = t[2], not neg
            # the branch that returns False is the one where the condition does NOT hold
            if (pol and not neg) or (not pol and neg):
                continue
            if not (is_call_to(t, "numpy.all", "all") and t[2]):
                continue
            c = t[2][0]
            vU = ("index", values, U)
            vS = ("index", values, Ss)
            if kind == "mono":
                okf = c in (("cmp", ">=", vS, vU), ("cmp", "<=", vU, vS))
            else:
                Ts = ("bin", "-", U, Ss)
                Ts2 = ("bin", "^", U, Ss)
                lhs_opts = [("bin", "+", vS, ("index", values, x)) for x in (Ts, Ts2)] + [("bin", "+", ("index", values, x), vS) for x in (Ts, Ts2)]
                def disjuncts(x):
                    if x[0] == "bin" and x[1] == "|":            # np.logical_or(a, b) is recorded as a | b
                        return disjuncts(x[2]) + disjuncts(x[3])
                    return [x]
                parts = disjuncts(c)
                exact = [p for p in parts if p[0] == "cmp"]
                close = [p for p in parts if is_call_to(p, "numpy.isclose")]
                ok_exact = any((p[1] == "<=" and p[2] in lhs_opts and p[3] == vU) or (p[1] == ">=" and p[3] in lhs_opts and p[2] == vU) for p in exact)
                ok_close = all(p[2][0] in lhs_opts and p[2][1] == vU and dict(p[3]).get("rtol") == ("param", "rtol") and dict(p[3]).get("atol") == ("param", "atol")
                               for p in close)
                okf = ok_exact and ok_close and len(exact) == 1 and len(parts) == len(exact) + len(close)
        col.check(okf, ref.where(), ref.short,
                  {"sa": "False iff some split violates v[S] + v[U-S] <= v[U] (beyond the documented rtol/atol closeness), over all sub-coalitions S of U",
                   "mono": "False iff some sub-coalition S of U has v[S] < v[U], over all sub-coalitions"}[kind],
                  construct=f"{kind}-comparison", necessity="the predicate must decide exactly the textbook definition: a flipped or weakened comparison accepts non-members of the class")
        if kind == "sa":
            d = ft.param_defaults
            okd = isinstance(d.get("rtol"), ast.Constant) and d["rtol"].value == 1e-9 and isinstance(d.get("atol"), ast.Constant) and d["atol"].value == 0
            col.check(okd, ref.where(), ref.short, "documented tolerance defaults rtol=1e-9, atol=0", construct="sa-tolerance",
                      necessity="a larger default tolerance accepts games that are not superadditive")
    ref = prog.func("game_properties.is_sam")
    rv = list(fterms(prog, ref).of_kind("return"))
    gp = ("param", ref.positional_params()[0])
    a = ("call", ("global", P + "game_properties.is_superadditive"), (gp,), ())
    b = ("call", ("global", P + "game_properties.is_monotone_decreasing"), (gp,), ())
    col.check(len(rv) == 1 and rv[0].value in (("bool", "and", (a, b)), ("bool", "and", (b, a))), ref.where(), ref.short,
              "is_sam = is_superadditive AND is_monotone_decreasing", construct="is_sam", necessity="`or` accepts games that are only one of the two")

    col.rule("K2", "check_supermodularity: witness returned iff lhs > rhs + tolerance over all T, i not in T, S proper subset of T; None at the end", 3)
    ref = prog.func("supermodularity_check.check_supermodularity")
    ft = fterms(prog, ref)
    gp = ("param", ref.positional_params()[0])
    rets = list(ft.of_kind("return"))
    none_r = [r for r in rets if r.value == ("const", None)]
    wit = [r for r in rets if r.value[0] == "tuple"]
    col.check(len(none_r) == 1 and not any(f[0] in ("for", "if") for f in none_r[0].ctx), ref.where(), ref.short, "None only after all loops", construct="smod-none",
              necessity="returning None before every pair (T, S, i) was examined accepts games that are not supermodular")
    okw = False
    for r in wit:
        g = [f for f in r.ctx if f[0] == "if"]
        if g and g[-1][2] is True and g[-1][1][0] == "cmp" and g[-1][1][1] == "<":      # canonical orientation: rhs + tol < lhs
            l, rr = g[-1][1][3], g[-1][1][2]
            okw = rr[0] == "bin" and rr[1] == "+" and rr[3] == ("param", "tolerance") and l[0] == "bin" and l[1] == "-" and rr[2][0] == "bin" and rr[2][1] == "-"
    col.check(okw, ref.where(), ref.short, "witness returned iff (v(S+i) - v(S)) > (v(T+i) - v(T)) + tolerance", construct="smod-compare", necessity="supermodularity is v(S+i) - v(S) <= v(T+i) - v(T) for S within T: the witness must be returned exactly when this fails by more than the tolerance")
    loops = [e for e in ft.of_kind("loop") if e.iter is not None]
    okl = any(is_call_to(e.iter, P + "coalitions.all_coalitions") for e in loops) and \
        any(e.iter[0] == "comp" and len(e.iter[3]) == 1 and e.iter[3][0][2] and any(is_call_to(s, P + "coalitions.get_sub_coalitions") for s in subterms(e.iter[3][0][1])) for e in loops)
    col.check(okl, ref.where(), ref.short, "T over all coalitions, S over the sub-coalitions of T except T itself", construct="smod-loops", necessity="the definition quantifies over all T and all proper sub-coalitions S of T")
