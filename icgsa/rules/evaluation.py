"""C12: evaluate() records true trajectories (Q1, Q2) and is independent of parallelism (P1, Q3 RNG ownership)."""
from __future__ import annotations

import ast

from ..core import AnalysisError, AnchorMissing, FuncRef, Program, registry, unwrap_partial
from ..report import Collector
from ..terms import Term, is_call_to, is_global, show, subterms
from .common import fterms, has_subterm, resolve_callee, short

P = "incomplete_cooperative."
RNG_CTORS = ("numpy.random.default_rng", "numpy.random.Generator", "numpy.random.RandomState", "random.Random",
             "random.SystemRandom", "numpy.random.SeedSequence")
RNG_CTOR_NONDRAW = {"default_rng", "Generator", "RandomState", "SeedSequence", "PCG64", "MT19937", "Philox", "SFC64", "BitGenerator",
                    "get_state", "set_state", "seed", "Random", "SystemRandom", "getstate", "setstate"}
ORDERED_POOL_API = {"map", "starmap", "imap"}
UNORDERED_POOL_API = {"imap_unordered", "apply_async", "map_async", "starmap_async", "apply"}


# --------------------------------------------------------------------------------------
# pool sites (shared with C11)
# --------------------------------------------------------------------------------------

class PoolSite:
    def __init__(self, ref: FuncRef, ev, api: str, worker: Term, tasks: Term) -> None:
        self.ref, self.ev, self.api, self.worker, self.tasks = ref, ev, api, worker, tasks


def pool_sites(prog: Program) -> list[PoolSite]:
    out = []
    for ref in prog.all_functions():
        ft = fterms(prog, ref)
        for e in ft.calls():
            r = e.recv
            if r is None:
                continue
            # receiver is ``with Pool(...) as p`` or a direct Pool(...) value
            base = r[1] if r[0] == "with" else r
            if is_call_to(base, "multiprocessing.Pool", "multiprocessing.pool.Pool", "multiprocessing.pool.ThreadPool",
                          "concurrent.futures.ProcessPoolExecutor", "multiprocessing.get_context"):
                if e.name in ORDERED_POOL_API | UNORDERED_POOL_API | {"submit"}:
                    worker = e.args[0] if e.args else ("unknown", "")
                    tasks = e.args[1] if len(e.args) > 1 else ("unknown", "")
                    out.append(PoolSite(ref, e, e.name, worker, tasks))
    return out


def rule_p1_pool_api(prog: Program, col: Collector) -> None:
    col.rule("P1", "every multiprocessing.Pool site uses an order-preserving API (map/starmap/imap)", 3 if col.property_id == "C11" else 1)
    sites = pool_sites(prog)
    want = {"C12": ("evaluation.",), "C11": ("gameplay.",)}.get(col.property_id, ("",))
    sites = [s for s in sites if any(s.ref.short.startswith(w) for w in want)]
    if not sites:
        raise AnalysisError("no multiprocessing.Pool site found (anchor vanished)")
    for s in sites:
        col.check(s.api in ORDERED_POOL_API, s.ref.where(s.ev.node), s.ref.short, f"Pool.{s.api} preserves the order of the task list",
                  construct=f"pool-api:{s.api}",
                  necessity="results are matched to repetitions / action sequences by position: an unordered API makes them depend on worker scheduling")
        # results must not be collected into a set
        st = s.ev.stmt
        bad = False
        if st is not None:
            for n in ast.walk(st):
                if isinstance(n, ast.Call) and isinstance(n.func, ast.Name) and n.func.id in ("set", "frozenset"):
                    for sub in ast.walk(n):
                        if sub is s.ev.node:
                            bad = True
        col.check(not bad, s.ref.where(s.ev.node), s.ref.short, "pool results are kept in order (not collected into a set)", construct="pool-set",
                  necessity="a set forgets the order of the pool results: values are then paired with the wrong action sequences")


# --------------------------------------------------------------------------------------
# Q1 / Q2
# --------------------------------------------------------------------------------------

def rule_c12_recording(prog: Program, col: Collector) -> None:
    col.rule("Q1", "eval_one: reset precedes every read; row 0 <- -env.reward; per step the action comes from the solver BEFORE the step, row t+1 <- -reward (position 1), actions[t] <- info['chosen_coalition'] (position 4) of that step", 8)
    ref = prog.func("evaluation.eval_one")
    ft = fterms(prog, ref)
    params = ref.positional_params()
    if len(params) < 4:
        raise AnalysisError("eval_one signature changed")
    envp = None
    for a in ref.node.args.args:
        ann = ast.unparse(a.annotation) if a.annotation is not None else ""
        if envp is None and (ann.strip("'\"") in ("Gym", "ICG_Gym", "gym.Env") or a.arg == "env"):
            envp = ("param", a.arg)
    if envp is None:
        raise AnalysisError("eval_one: env parameter not found")
    getp = ("param", params[0])
    resets = [e for e in ft.calls("reset") if e.recv == envp]
    steps = [e for e in ft.calls("step") if e.recv == envp]
    if len(steps) != 1:
        raise AnalysisError("eval_one: expected exactly one env.step() site")
    if not resets:
        col.violation(ref.where(), ref.short, "reset-first", "eval_one never resets the environment",
                      "row 0 must be the gap at minimal information of THIS repetition's hidden game")
        return
    step = steps[0]
    first_read = min([e.seq for e in ft.events if e.kind in ("store", "call") and e is not resets[0] and
                      any(isinstance(v, tuple) and has_subterm(v, ("attr", envp, "reward")) for v in e.data.values())] or [10 ** 9])
    col.check(resets[0].seq < first_read and not any(f[0] in ("for", "while", "if") for f in resets[0].ctx), ref.where(resets[0].node), ref.short,
              "env.reset() runs unconditionally before the first read of env.reward", construct="reset-first",
              necessity="row 0 must be the gap at minimal information of THIS repetition's hidden game")
    # after_reset hook
    ar = [e for e in ft.calls() if e.func[0] == "param" and e.func[1] in params and e.func != getp and e.args == (envp,)]
    col.check(bool(ar) and ar[0].seq > resets[0].seq and ar[0].seq < step.seq and not any(f[0] == "for" for f in ar[0].ctx), ref.where(), ref.short,
              "after_reset(env) is called once, after the reset and before the first step", construct="after-reset",
              necessity="solvers are promised the state right after reset")
    stores = list(ft.of_kind("store"))
    loops = [f for f in step.ctx if f[0] == "for"]
    if not loops:
        raise AnalysisError("eval_one: env.step is not inside the episode loop")
    loop = loops[-1]
    ep = loop[2]
    limit = ("param", params[2])
    col.check(loop[3] == ("call", ("global", "range"), (limit,), ()), ref.where(loop[4]), ref.short, "the episode loop is range(run_steps_limit)",
              construct="episode-range", necessity="exactly run_steps_limit coalitions are chosen")
    # arrays
    gaps = acts = None
    for e in ft.of_kind("assign"):
        if is_call_to(e.value, "numpy.zeros", "numpy.full", "numpy.empty") and e.value[2]:
            if e.value[2][0] == ("bin", "+", limit, ("const", 1)):
                gaps = e.value
            elif e.value[2][0] == limit:
                acts = e.value
    if gaps is None or acts is None:
        raise AnalysisError("eval_one: result arrays of length run_steps_limit+1 / run_steps_limit not found")
    # an episode may end before the step limit (everything revealed): entries of the action vector that are never written must not
    # look like coalition ids
    early = [e for e in ft.events if e.kind in ("break", "return") and any(f[0] == "for" and f[1] == loop[1] for f in e.ctx)]
    if early:
        nan_fill = is_call_to(acts, "numpy.full") and len(acts[2]) >= 2 and (is_global(acts[2][1], "numpy.nan", "math.nan", "numpy.NaN", "numpy.NAN") or
                                                                                   acts[2][1] == ("call", ("global", "float"), (("const", "nan"),), ()))
        col.check(nan_fill, ref.where(early[0].node), ref.short,
                  "the episode loop can end early, so the action vector starts as NaN (np.full(limit, np.nan)), not as zeros", construct="zero-padded-actions",
                  necessity="0 is the id of the empty coalition: a column that ends in zeros claims that the empty coalition - not explorable, never revealed - was chosen "
                            "repeatedly; the sibling best-states search pads with NaN")
    if early:
        # the gap does not change after the episode has ended: the rows that are never reached carry the last gap, not the initial 0
        tail = [e for e in stores if e.obj == gaps and e.index is not None and e.index[0] == "slice" and e.seq < early[0].seq and
                [f[:3] for f in e.ctx] == [f[:3] for f in early[0].ctx]]
        last_gap = ("un", "-", ("index", step.term, ("const", 1)))
        ok_tail = any(e.value == last_gap and e.index[1] == ("bin", "+", ep, ("const", 2)) and e.index[2] in (None, ("const", None)) for e in tail)
        col.check(ok_tail, ref.where(early[0].node), ref.short,
                  "before leaving the loop early the remaining gap rows are filled with the gap of the final state (gaps[episode + 2:] = -reward)", construct="zero-padded-gaps",
                  necessity="an episode also ends when the environment's own step budget is used up: the gap is then not 0, and rows left at their initial 0.0 claim a gap the game never had")
    row0 = [e for e in stores if e.obj == gaps and e.index == ("const", 0)]
    col.check(len(row0) == 1 and row0[0].value == ("un", "-", ("attr", envp, "reward")) and row0[0].seq > resets[0].seq and row0[0].seq < step.seq,
              ref.where(row0[0].node if row0 else None), ref.short, "gaps[0] = -env.reward right after the reset", construct="row0",
              necessity="row 0 of the gap matrix is the gap at minimal information")
    # action obtained before the step from the same env
    act = step.args[0] if step.args else None
    okact = act == ("call", getp, (envp,), ())
    get_calls = [e for e in ft.calls() if e.func == getp]
    col.check(okact and len(get_calls) == 1 and get_calls[0].seq < step.seq and any(f[0] == "for" and f[1] == loop[1] for f in get_calls[0].ctx),
              ref.where(step.node), ref.short, "action = get_next_step(env) is computed in the same iteration, before env.step(action)",
              construct="action-before-step", necessity="the action must be chosen at the state it is applied to")
    rowt = [e for e in stores if e.obj == gaps and e.index != ("const", 0) and e.index[0] != "slice"]
    col.check(len(rowt) == 1 and rowt[0].index == ("bin", "+", ep, ("const", 1)) and rowt[0].value == ("un", "-", ("index", step.term, ("const", 1)))
              and rowt[0].seq > step.seq, ref.where(rowt[0].node if rowt else None), ref.short,
              "gaps[episode + 1] = -(position 1 of this iteration's step result)", construct="row-t",
              necessity="row t+1 is the gap after the t-th chosen coalition; position 1 of the step result is the reward")
    arow = [e for e in stores if e.obj == acts]
    want = ("index", ("index", step.term, ("const", 4)), ("const", "chosen_coalition"))
    col.check(len(arow) == 1 and arow[0].index == ep and arow[0].value == want, ref.where(arow[0].node if arow else None), ref.short,
              "actions[episode] = info['chosen_coalition'] with info = position 4 of this iteration's step result", construct="action-row",
              necessity="the action matrix holds the ids actually revealed")
    # key agreement with the writers
    keys = set()
    for nm in ("step",):
        g = prog.methods("icg_gym.ICG_Gym").get(nm)
        if g is not None:
            for r in fterms(prog, g).of_kind("return"):
                for s in subterms(r.value):
                    if s[0] == "dict":
                        keys |= {k[1] for k, _ in s[1] if k[0] == "const"}
    col.check("chosen_coalition" in keys, ref.where(), ref.short, f"the key read is one the env writes ({sorted(keys)})", construct="info-key",
              necessity="writer and reader of info must agree on the key")
    ret = [e for e in ft.of_kind("return")]
    col.check(len(ret) == 1 and ret[0].value == ("tuple", (gaps, acts)), ref.where(), ref.short, "returns (gaps, actions) in this order", construct="eval-one-return",
              necessity="evaluate() stacks position 0 as gaps and position 1 as actions")

    col.rule("Q2", "evaluate: one fresh env per repetition, task tuple in eval_one's parameter order, rows stacked per repetition and transposed", 4)
    eref = prog.func("evaluation.evaluate")
    eft = fterms(prog, eref)
    eparams = eref.positional_params()
    tasks = None
    for e in eft.of_kind("assign"):
        if e.value[0] == "comp" and e.value[2][0] == "tuple":
            tasks = e.value
    if tasks is None:
        raise AnalysisError("evaluate: task comprehension not found")
    tup = tasks[2][1]
    elem, it, conds = tasks[3][0]
    col.check(is_call_to(it, "range") and it[2] == (("param", "repetitions"),) and not conds, eref.where(), eref.short,
              "one task per repetition (range(repetitions))", construct="tasks-range", necessity="the result matrices have one column per repetition: fewer or more tasks than repetitions break the shape and the pairing of columns with repetitions")
    one_params = ref.positional_params()
    ok_order = len(tup) == len(one_params)
    fresh = False
    for i, t in enumerate(tup):
        if i >= len(one_params):
            break
        if t[0] == "param":
            if t[1] in one_params and one_params.index(t[1]) != i:
                ok_order = False
        elif t[0] == "call" and t[1][0] == "param" and not t[2]:
            fresh = one_params[i] == envp[1]
        else:
            ok_order = False
    col.check(ok_order, eref.where(), eref.short, "task tuples follow eval_one's parameter order", construct="task-order",
              necessity="a swapped tuple evaluates the wrong callable / limit")
    gen_calls = [e for e in eft.calls() if e.func[0] == "param" and not e.args and e.func[1] in eparams]
    fresh = fresh and bool(gen_calls) and all(any(f[0] == "comp" for f in e.ctx) for e in gen_calls)
    col.check(fresh, eref.where(), eref.short, "the env of each task is created by a fresh env_generator() call inside the comprehension",
              construct="fresh-env", necessity="distinct repetitions must not share an environment object")
    # both branches use eval_one
    used = [e for e in eft.calls() if e.name in ("starmap", "map", "imap") and e.args and e.args[0] == ("global", P + "evaluation.eval_one")]
    # one site that serves both cases (a pool object chosen beforehand) or one site per branch: every site maps eval_one over the task list
    branchy = any(f[0] == "if" for e in used for f in e.ctx)
    col.check(len(used) >= (2 if branchy else 1) and all(e.args[1] == tasks for e in used if len(e.args) > 1), eref.where(), eref.short,
              "the sequential and the pooled branch both map eval_one over the same task list", construct="both-branches",
              necessity="the result must not depend on which branch runs")
    rv = [e for e in eft.of_kind("return")]
    okT = False
    if len(rv) == 1 and rv[0].value[0] == "tuple" and len(rv[0].value[1]) == 2:
        g, a = rv[0].value[1]

        def stacked(t: Term, pos: int) -> bool:
            if not (t[0] == "attr" and t[2] == "T"):
                return False
            v = t[1]
            if not is_call_to(v, "numpy.vstack", "numpy.stack", "numpy.array") or not v[2]:
                return False
            c = v[2][0]
            return c[0] == "comp" and c[2][0] == "index" and c[2][2] == ("const", pos) and c[2][1] == c[3][0][0] and not c[3][0][2]
        okT = stacked(g, 0) and stacked(a, 1)
    col.check(okT, eref.where(), eref.short, "gaps = vstack(position 0 of each result).T, actions = vstack(position 1).T, returned in this order",
              construct="stack-transpose", necessity="column j must be repetition j's trajectory; rows are steps")


# --------------------------------------------------------------------------------------
# Q3: RNG ownership across the task boundary
# --------------------------------------------------------------------------------------

def _is_rng_ctor(t: Term) -> bool:
    if is_call_to(t, *RNG_CTORS):
        return True
    # Generator.spawn(n)[i] -> a child stream
    if t[0] == "index" and t[1][0] == "call" and t[1][1][0] == "attr" and t[1][1][2] == "spawn":
        return True
    if t[0] == "call" and t[1][0] == "attr" and t[1][2] == "spawn":
        return True          # a list of child generators
    if t[0] in ("list", "tuple") and t[1] and all(_is_rng_ctor(x) for x in t[1]):
        return True
    if t[0] == "comp" and _is_rng_ctor(t[2]):
        return True
    if t[0] in ("phi", "ifexp"):
        return _is_rng_ctor(t[2]) or _is_rng_ctor(t[3])
    return False


def rng_attributes(prog: Program) -> dict[tuple[str, str], tuple[FuncRef, object]]:
    """(class qual, attr) -> (method, store event) for attributes initialised with an RNG object."""
    out = {}
    for ref in prog.all_functions():
        if ref.cls is None:
            continue
        ft = fterms(prog, ref)
        for e in ft.of_kind("store"):
            if e.obj == ("param", "self") and e.attr is not None and _is_rng_ctor(e.value):
                out[(f"{ref.module.name}.{ref.cls.name}", e.attr)] = (ref, e)
    return out


def _draws_on_self_attr(prog: Program, cls_qual: str, attr: str) -> dict[str, list]:
    """method name -> events in which self.<attr> is drawn from (receiver of a call, or passed to a call)."""
    m, c = prog.cls(cls_qual)
    res: dict[str, list] = {}
    A = ("attr", ("param", "self"), attr)
    for n in c.body:
        if not isinstance(n, ast.FunctionDef) or n.name in ("__init__", "__post_init__"):
            continue
        ref = FuncRef(m, n, c)
        ft = fterms(prog, ref)
        hits = []
        for e in ft.calls():
            if e.recv == A and e.name not in ("spawn", "bit_generator", "getstate", "setstate", "seed"):
                hits.append((e, f"self.{attr}.{e.name}(...)"))
            elif e.recv != A and (A in e.args or A in e.kwargs.values()):
                hits.append((e, f"self.{attr} passed to {short(e.func, 50)}"))
        if hits:
            res[n.name] = hits
    return res


def _self_closure(prog: Program, cls_qual: str, start: str) -> set[str]:
    """Methods of the class reachable from ``start`` through self.m(...) calls and self.m loads."""
    m, c = prog.cls(cls_qual)
    members = {n.name: n for n in c.body if isinstance(n, ast.FunctionDef)}
    seen, todo = set(), [start]
    while todo:
        x = todo.pop()
        if x in seen or x not in members:
            continue
        seen.add(x)
        for n in ast.walk(members[x]):
            if isinstance(n, ast.Attribute) and isinstance(n.value, ast.Name) and n.value.id == "self" and n.attr in members:
                todo.append(n.attr)
    return seen


def _class_of_annotation(prog: Program, ref: FuncRef, pname: str) -> str | None:
    for a in ref.node.args.posonlyargs + ref.node.args.args + ref.node.args.kwonlyargs:
        if a.arg == pname and a.annotation is not None:
            txt = ast.unparse(a.annotation).strip("'\"").split("|")[0].strip()
            q = prog.resolve(ref.module, ast.parse(txt, mode="eval").body) if txt.replace(".", "").replace("_", "").isalnum() else None
            if q:
                try:
                    mm, cc = prog.cls(q)
                    return f"{mm.name}.{cc.name}"
                except AnchorMissing:
                    return None
    return None


ENV_STREAM = "np_random"      # gymnasium's per-environment generator; Env.reset(seed=None) keeps it


def _env_stream_terms(gymp: Term) -> tuple[Term, ...]:
    return (("attr", gymp, ENV_STREAM), ("call", ("attr", gymp, "get_wrapper_attr"), (("const", ENV_STREAM),), ()))


def _rederived_per_task(prog: Program, cq: str, attr: str, hook: str | None, factory: tuple[str, str] | None) -> tuple[str, str]:
    """Is ``self.<attr>`` of class ``cq`` replaced, in every task and before it is drawn from, by state of that task's own env?

    Returns ("yes" | "no" | "unknown", reason).  The conditions (all structural):
      H1  the caller wires ``after_reset`` to a method ``hook`` of the same object as ``get_next_step``;
      H2  the worker calls ``after_reset(env)`` unconditionally, after ``env.reset()`` (called without a seed, so the env keeps its
          stream) and before the first ``get_next_step(env)``;
      H3  ``hook`` stores ``self.<attr>`` unconditionally, as its only store to it, with a value derived from the env's own stream
          (``gym.np_random`` / ``gym.get_wrapper_attr("np_random")``) and from nothing owned by the shared object;
      H4  the env factory stores a per-env child stream (``spawn``) into ``np_random`` of exactly the object it returns, unconditionally.
    """
    if hook is None:
        return "no", "no after_reset hook of the same object is wired"
    methods = prog.methods(cq)
    if hook not in methods:
        return "no", f"{cq.rsplit('.', 1)[-1]} has no method {hook}"
    # ---- H2: the worker
    wref = prog.func("evaluation.eval_one")
    wft = fterms(prog, wref)
    wparams = wref.positional_params()
    hookp = ("param", "after_reset") if "after_reset" in [a.arg for a in wref.node.args.args + wref.node.args.kwonlyargs] else None
    getp = ("param", wparams[0])
    if hookp is None:
        return "no", "eval_one has no after_reset parameter"
    hcalls = [e for e in wft.calls() if e.func == hookp]
    gcalls = [e for e in wft.calls() if e.func == getp]
    if len(hcalls) != 1 or not gcalls:
        return "no", "eval_one does not call after_reset exactly once / never calls get_next_step"
    h = hcalls[0]
    if any(f[0] in ("if", "for", "while", "try", "comp") for f in h.ctx):
        return "no", "eval_one calls after_reset only conditionally"
    if not all(h.seq < g.seq for g in gcalls) or len(h.args) != 1:
        return "no", "eval_one calls get_next_step before after_reset(env)"
    envp = h.args[0]
    if any(g.args[:1] != (envp,) for g in gcalls):
        return "no", "get_next_step and after_reset are given different environments"
    resets = [e for e in wft.calls("reset") if e.recv == envp]
    if any(e.args or e.kwargs for e in resets):
        return "no", "eval_one passes a seed/options to env.reset(): a constant seed restarts every env's stream identically"
    # ---- H3: the hook
    href = methods[hook]
    hft = fterms(prog, href)
    hp = href.positional_params()
    if len(hp) < 2:
        return "no", f"{hook} takes no environment"
    gymp = ("param", hp[1])
    SELFP = ("param", "self")
    stores = [e for e in hft.of_kind("store") if e.obj == SELFP and e.attr == attr]
    if not stores:
        return "no", f"{hook}() does not replace self.{attr}"
    if len(stores) != 1 or any(f[0] in ("if", "for", "while", "try", "comp", "with") for f in stores[0].ctx):
        return "no", f"{hook}() replaces self.{attr} only on some paths"
    if any(r.seq < stores[0].seq for r in hft.of_kind("return", "raise")):
        return "no", f"{hook}() can return before it replaces self.{attr}"
    val = stores[0].value
    streams = _env_stream_terms(gymp)
    subs = list(subterms(val))
    from_stream = val in streams or any(
        t[0] == "call" and t[1][0] == "attr" and t[1][1] in streams and t[1][2] in ("integers", "bytes", "random", "spawn", "bit_generator") for t in subs)
    owned = [t for t in subs if t[0] == "attr" and t[1] == SELFP]
    if owned:
        return "no", f"{hook}() derives the new self.{attr} from the shared object's own state (self.{owned[0][2]})"
    if not from_stream:
        if any(t == gymp for t in subs):
            return "unknown", f"{hook}() derives self.{attr} from the environment, but not from its {ENV_STREAM} stream: {short(val, 90)}"
        return "no", f"{hook}() re-creates self.{attr} from nothing that differs between tasks: {short(val, 90)}"
    if not (val in streams or _is_rng_ctor(val)):
        return "unknown", f"{hook}() stores a value of unrecognised kind into self.{attr}: {short(val, 90)}"
    # ---- H4: the factory seeds that stream per env
    if factory is None:
        return "unknown", "the env factory is not a method whose body can be resolved"
    fq, fmeth = factory
    fmethods = prog.methods(fq)
    if fmeth not in fmethods:
        return "no", f"env factory {fmeth} not found"
    fref = fmethods[fmeth]
    fft = fterms(prog, fref)
    rets = [r for r in fft.of_kind("return")]
    sets = [e for e in fft.of_kind("store") if e.attr == ENV_STREAM]
    if not sets:
        return "no", f"{fmeth}() never seeds {ENV_STREAM} of the env: gymnasium then seeds it from OS entropy and the result is not a function of the seed"
    if len(sets) != 1 or any(f[0] in ("if", "for", "while", "try", "comp", "with") for f in sets[0].ctx):
        return "no", f"{fmeth}() seeds {ENV_STREAM} only on some paths"
    st = sets[0]
    if not rets or any(r.value != st.obj or r.seq < st.seq for r in rets):
        return "no", f"{fmeth}() seeds {ENV_STREAM} of an object other than the env it returns (a wrapper env has its own stream)"
    own = {a for (c, a) in rng_attributes(prog) if c == fq}
    v = st.value
    child = v[0] == "index" and v[1][0] == "call" and v[1][1][0] == "attr" and v[1][1][2] == "spawn" and v[1][1][1][0] == "attr" and \
        v[1][1][1][1] == SELFP and v[1][1][1][2] in own
    seeded = is_call_to(v, *RNG_CTORS) and any(t[0] == "call" and t[1][0] == "attr" and t[1][1][0] == "attr" and t[1][1][1] == SELFP and t[1][1][2] in own
                                               and t[1][2] in ("integers", "bytes", "random") for t in subterms(v))
    if not (child or seeded):
        return "no", f"{fmeth}() does not give the env a child stream of its own: {ENV_STREAM} = {short(v, 90)}"
    return "yes", (f"eval_one calls after_reset(env) before the first get_next_step(env); {hook}() replaces self.{attr} from env.{ENV_STREAM}; "
                   f"{fmeth}() seeds that stream per env with a spawn child; env.reset() is called without a seed")


def rule_c12_rng(prog: Program, col: Collector) -> None:
    col.rule("Q3", "no RNG state shared between pool tasks, and no process-global RNG, is drawn from in code reachable from the evaluate() worker", 3)
    NEC_SHARED = ("each pool chunk pickles its own copy of shared random state, so chunks replay each other and the sequential path "
                  "(one state advancing) differs from every pooled path: the result depends on the number of worker processes and "
                  "repetitions are replays of one another")
    NEC_GLOBAL = "a process-global RNG is never seeded from --seed: the result is not a function of the seed for any process count"
    rng_attrs = rng_attributes(prog)
    col.note("RNG-holding attributes: " + ", ".join(f"{c.rsplit('.', 1)[-1]}.{a}" for (c, a) in sorted(rng_attrs)))
    eref = prog.func("evaluation.evaluate")
    eparams = eref.positional_params()
    # ---- callers of evaluate: what flows into get_next_step / env_generator / after_reset / processes
    callers = []
    for ref in prog.all_functions():
        ft = fterms(prog, ref)
        for e in ft.calls():
            if is_global(e.func, P + "evaluation.evaluate"):
                bound = {}
                for i, a in enumerate(e.args):
                    if i < len(eparams):
                        bound[eparams[i]] = a
                for k, a in e.kwargs.items():
                    if k:
                        bound[k] = a
                callers.append((ref, ft, e, bound))
    if not callers:
        raise AnalysisError("no caller of evaluate() found in the package")

    def solver_classes_of(t: Term, ref: FuncRef) -> list[str]:
        """Classes a value may be an instance of: SOLVERS[...](instance) -> every registered solver class."""
        if t[0] == "call" and t[1][0] == "index" and is_global(t[1][1], P + "solvers.SOLVERS"):
            from .solvers import solver_classes
            return sorted({f"{m.name}.{c.name}" for _, m, c, _ in solver_classes(prog)})
        if t[0] == "param":
            c = _class_of_annotation(prog, ref, t[1])
            return [c] if c else []
        if t[0] == "call" and t[1][0] == "global":
            try:
                mm, cc = prog.cls(t[1][1])
                return [f"{mm.name}.{cc.name}"]
            except AnchorMissing:
                return []
        return []

    def owners_of(t: Term, meth: str, ref: FuncRef) -> list[str]:
        """Classes of the receiver of a bound method: by construction / annotation, else the unique class of the package defining ``meth``."""
        got = solver_classes_of(t, ref)
        if got:
            return got
        cands = sorted({f"{r.module.name}.{r.cls.name}" for r in prog.all_functions() if r.cls is not None and r.node.name == meth})
        return cands if len(cands) == 1 else []

    nsites = 0
    for ref, ft, e, bound in callers:
        procs = bound.get("processes")
        pooled = not (procs is not None and procs[0] == "const" and isinstance(procs[1], int) and procs[1] <= 1)
        if procs is None:
            pooled = False      # default processes=1
        col.note(f"{ref.short}: evaluate(processes={short(procs, 40) if procs else 'default 1'}) -> pool branch {'reachable' if pooled else 'excluded by constant propagation'}")
        if not pooled:
            continue
        # (a) bound methods of shared objects passed as callables
        for pname in ("get_next_step", "after_reset"):
            v = bound.get(pname)
            if v is None or v[0] != "attr":
                continue
            obj, meth = v[1], v[2]
            for cq in solver_classes_of(obj, ref):
                for (c2, attr), (iref, iev) in rng_attrs.items():
                    if c2 != cq:
                        continue
                    reach = _self_closure(prog, cq, meth)
                    draws = _draws_on_self_attr(prog, cq, attr)
                    hit = sorted(reach & set(draws))
                    if not hit:
                        continue
                    # the state may be replaced per task by the after_reset hook of the same object
                    other = bound.get("after_reset")
                    hook = other[2] if pname == "get_next_step" and other is not None and other[0] == "attr" and other[1] == obj else None
                    if hook is not None and obj[0] == "call" and sum(1 for c in ft.calls() if c.term == obj) != 1:
                        hook = None          # two constructions of equal shape are two objects: terms carry no identity, call events do
                    fac = bound.get("env_generator")
                    fcls = owners_of(fac[1], fac[2], ref) if fac is not None and fac[0] == "attr" else []
                    status, why = _rederived_per_task(prog, cq, attr, hook, (fcls[0], fac[2]) if len(fcls) == 1 else None)
                    for mname in hit:
                        for dev, what in draws[mname]:
                            nsites += 1
                            mref = prog.methods(cq)[mname]
                            if status == "yes":
                                col.ok(mref.where(dev.node), mref.short, f"{what}: per-task state - {why}", rule="Q3")
                            elif status == "unknown":
                                col.undecidable(mref.where(dev.node), mref.short, f"{what}: {why}", rule="Q3")
                            else:
                                col.violation(mref.where(dev.node), mref.short, f"shared-rng:{cq.rsplit('.', 1)[-1]}.{attr}",
                                              f"{what}: RNG state owned by the one {cq.rsplit('.', 1)[-1]} object that {ref.short} hands to every pool task via {pname} "
                                              f"(not replaced per task: {why})",
                                              NEC_SHARED, rule="Q3")
                if not any(c2 == cq for (c2, _a) in rng_attrs):
                    nsites += 1
                    col.ok(ref.where(e.node), ref.short, f"{pname} <- bound method of {cq.rsplit('.', 1)[-1]}: the class holds no RNG state", rule="Q3")
        # (b) the env factory: what does it put into the per-task env that belongs to the shared factory owner?
        v = bound.get("env_generator")
        if v is not None and v[0] == "attr":
            obj, meth = v[1], v[2]
            owners = owners_of(obj, meth, ref)
            if not owners:
                col.undecidable(ref.where(e.node), ref.short, f"the class of the env factory {short(v, 50)} cannot be resolved", rule="Q3")
            for cq in owners:
                nsites += _check_env_factory(prog, col, cq, meth, rng_attrs, NEC_SHARED, ref)
    # ---- custom pickling of objects that travel to the workers
    hooks = ("__reduce__", "__reduce_ex__", "__getstate__", "__setstate__", "__getnewargs__", "__getnewargs_ex__", "__copy__", "__deepcopy__")
    shipped = ["icg_gym.ICG_Gym", "icg_gym_linear.ICG_Gym_Linear", "game.IncompleteCooperativeGame", "graph_game.GraphCooperativeGame"]
    from .solvers import solver_classes
    shipped += [f"{m.name}.{c.name}" for _, m, c, _ in solver_classes(prog)]
    for cq in dict.fromkeys(shipped):
        try:
            meths = prog.methods(cq)
        except AnchorMissing:
            continue
        bad = [h for h in hooks if h in meths]
        col.check(not bad, meths[bad[0]].where() if bad else "-", cq.replace(P, ""),
                  f"{cq.rsplit('.', 1)[-1]} is pickled with its own state (no custom {'/'.join(bad) if bad else 'pickling hook'})", construct=f"pickle-hook:{cq.rsplit('.', 1)[-1]}",
                  necessity="an object that is re-constructed instead of copied when it is sent to a worker (e.g. __reduce__ returning the constructor arguments) "
                            "re-runs its constructor there - the env draws new hidden games - so the pooled path differs from the in-process path", rule="Q3")
    # ---- global RNG draws anywhere outside generators.py (C10 owns those)
    gl = 0
    for ref in prog.all_functions():
        if ref.module.name.endswith(".generators"):
            continue
        ft = fterms(prog, ref)
        for e in ft.calls():
            f = e.func
            if f[0] == "global" and (f[1].startswith("numpy.random.") or f[1].startswith("random.")):
                last = f[1].rsplit(".", 1)[-1]
                if last in RNG_CTOR_NONDRAW:
                    continue
                gl += 1
                col.violation(ref.where(e.node), ref.short, f"global-rng:{f[1]}", f"draw from the process-global RNG {f[1]}(...)", NEC_GLOBAL, rule="Q3")
    if gl == 0:
        col.ok("-", "package", "no process-global RNG draw outside generators.py (scan of every function)", rule="Q3")
    # ---- hidden games: registry entries whose generator draws from MODULE-LEVEL state instead of the per-env stream it is given.
    # A pool worker gets its own copy of that state (fork) or re-creates it (pickled bound methods of the module RNG), so all tasks
    # start from the same point and replay each other; the sequential path advances one state.  C10 exempts these families from
    # seed-determinism, C12 exempts nothing.
    from .generators import _module_level_rngs, generator_targets
    mod_rngs = _module_level_rngs(prog)
    by_target: dict[str, list[str]] = {}
    refs = {}
    for key, tref, kwargs, entry, *_rest in generator_targets(prog):
        if tref is None:
            continue
        refs[tref.short] = tref
        uses = False
        tft = fterms(prog, tref)
        if list(tft.of_kind("global")):
            uses = True
        for d in tft.param_defaults.values():
            if any(isinstance(n, ast.Name) and f"{tref.module.name}.{n.id}" in mod_rngs for n in ast.walk(d)):
                uses = True
        for v in (kwargs or {}).values():
            if isinstance(v, ast.AST) and any(isinstance(n, ast.Name) and f"{entry.module.name}.{n.id}" in mod_rngs for n in ast.walk(v)):
                uses = True
        for ev in tft.events:
            for val in ev.data.values():
                if isinstance(val, tuple) and any(x[0] == "global" and x[1] in mod_rngs for x in subterms(val)):
                    uses = True
        if uses:
            by_target.setdefault(tref.short, []).append(key)
    for short_name, keys in sorted(by_target.items()):
        tref = refs[short_name]
        col.violation(tref.where(), tref.short, "module-state-generator",
                      f"{len(keys)} registry entries ({', '.join(sorted(keys)[:4])}{', ...' if len(keys) > 4 else ''}) draw hidden games from module-level state "
                      f"(a module RNG or a `global` counter) instead of the per-environment stream",
                      "every pool worker starts from its own copy of that state: with processes >= 2 the repetitions of a chunk replay those of the other chunks, and the "
                      "result differs from the sequential run - for a fixed seed the result depends on the number of worker processes", rule="Q3")
    # ---- a registered generator that re-seeds itself from a LITERAL draws the same game for every repetition
    const_seeded: dict[str, list[str]] = {}
    for key, tref, kwargs, entry, *_rest in generator_targets(prog):
        if tref is None:
            continue
        tft = fterms(prog, tref)
        for ev in tft.calls():
            if is_global(ev.func, "numpy.random.default_rng", "numpy.random.Generator", "numpy.random.RandomState", "random.Random", "numpy.random.seed", "random.seed") \
                    and ev.args and ev.args[0][0] == "const" and type(ev.args[0][1]) is int and not any(f[0] in ("if",) for f in ev.ctx):
                const_seeded.setdefault(tref.short, []).append(key)
                refs[tref.short] = tref
                break
    for short_name, keys in sorted(const_seeded.items()):
        tref = refs[short_name]
        col.violation(tref.where(), tref.short, "constant-seed-generator",
                      f"registry entr{'ies' if len(keys) > 1 else 'y'} {', '.join(sorted(set(keys)))}: the generator replaces the stream it is given by one seeded with a literal",
                      "every call returns the same game: all repetitions of an evaluation are played on one hidden game - replays of one another, for every seed and process count",
                      rule="Q3")
    if not by_target:
        col.ok("-", "generators", "no registered generator draws from module-level state", rule="Q3")
    if nsites == 0:
        raise AnalysisError("Q3 found no carrier of state into the pool worker (callers of evaluate changed shape)")


def _check_env_factory(prog: Program, col: Collector, cq: str, meth: str, rng_attrs, nec: str, caller: FuncRef) -> int:
    """The factory is a bound method of a shared object: report shared RNG state that it plants into per-task envs."""
    n = 0
    methods = prog.methods(cq)
    if meth not in methods:
        return 0
    fref = methods[meth]
    ft = fterms(prog, fref)
    SELF = ("param", "self")
    own_rng = {a for (c, a) in rng_attrs if c == cq}
    for e in ft.calls():
        # constructor / partial calls whose arguments carry self-owned state
        for a in list(e.args) + list(e.kwargs.values()):
            if not isinstance(a, tuple):
                continue
            # self.<rng attr> handed over directly (also inside partial(...))
            for s in subterms(a):
                if s[0] == "attr" and s[1] == SELF and s[2] in own_rng:
                    # a child stream derived per call is fine: self.rng.spawn(k)[i]
                    parent_ok = any(p[0] == "index" and p[1][0] == "call" and p[1][1] == ("attr", s, "spawn") for p in subterms(a)) or \
                        any(p[0] == "call" and p[1][0] == "attr" and p[1][1] == s and p[1][2] in ("integers", "bytes", "random") for p in subterms(a))
                    n += 1
                    if parent_ok:
                        col.ok(fref.where(e.node), fref.short, f"per-env child stream derived from self.{s[2]} at construction time (parent process, once per task)", rule="Q3")
                    else:
                        col.violation(fref.where(e.node), fref.short, f"shared-rng:{cq.rsplit('.', 1)[-1]}.{s[2]}",
                                      f"self.{s[2]} itself is handed to every env created by {meth}()", nec, rule="Q3")
            # bound method of self that draws from self-owned RNG
            if a[0] == "attr" and a[1] == SELF and a[2] in methods:
                reach = _self_closure(prog, cq, a[2])
                for attr in own_rng:
                    draws = _draws_on_self_attr(prog, cq, attr)
                    for mname in sorted(reach & set(draws)):
                        for dev, what in draws[mname]:
                            n += 1
                            mref = methods[mname]
                            col.violation(mref.where(dev.node), mref.short, f"shared-rng:{cq.rsplit('.', 1)[-1]}.{attr}",
                                          f"{what}: every env created by {meth}() calls back into the one shared {cq.rsplit('.', 1)[-1]} "
                                          f"(bound method self.{a[2]} stored in the env) and draws from its RNG",
                                          nec, rule="Q3")
    # locally created RNG objects are per-task by construction
    for e in ft.of_kind("assign"):
        if _is_rng_ctor(e.value):
            n += 1
            col.ok(fref.where(e.node), fref.short, f"RNG `{e.name}` is created inside {meth}() once per env (per-task state)", rule="Q3")
    if n == 0:
        n = 1
        col.ok(fref.where(), fref.short, f"{meth}() plants no RNG state of the shared {cq.rsplit('.', 1)[-1]} into the envs", rule="Q3")
    return n
