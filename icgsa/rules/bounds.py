"""Rules B1-B13, H1, REG-B over the registered bound computers (C01-C04, C07, C08)."""
from __future__ import annotations

import ast
from dataclasses import dataclass, replace

from ..bounds_domain import (ALL_CLASSES, EMPTY, OTHER, PSUB, PSUPER, Q_STRUCT, SELF, Coll, Compl, Interp, PhiC, Single,
                             StructInfo, compl_valid, derive_struct, normalise_num, show_coll, show_num, split_phi)
from ..core import AnalysisError, AnchorMissing, FuncRef, Program, registry, src, unwrap_partial
from ..report import Collector
from ..terms import Term, is_call_to, is_global, show, subterms
from .common import const_of, fterms, has_subterm, short

BOUND_SETTERS = {"set_lower_bound": "LB", "set_upper_bound": "UB"}
OTHER_MUTATORS = {"set_value", "set_values", "set_known_values", "reveal_value", "unreveal_value", "unset_value",
                  "set_lower_bounds", "set_upper_bounds", "_init_values", "compute_bounds"}
INPLACE_METHODS = {"sort", "fill", "put", "resize", "itemset", "partition", "setfield", "byteswap"}
INPLACE_FUNCS = ("numpy.place", "numpy.copyto", "numpy.put", "numpy.putmask", "numpy.put_along_axis")


@dataclass
class Write:
    col: str                 # LB | UB
    ev: object
    loop_uid: int
    loop_ev: object          # the 'loop' event of the coalition loop
    loop_coll: object
    c: Term
    value: object            # numeric abstract value (raw)
    nvalue: object           # normalised
    outer: list              # outer loop frames (phases)
    cond_frames: list        # 'if' frames between the loop and the write
    unrec: list
    value_term: object = None


@dataclass
class Computer:
    key: str
    ref: FuncRef
    bound_kwargs: dict
    game: Term
    writes: list
    other_mutations: list
    interp: Interp
    ft: object


def _norm_coll(cc, target_unknown: bool = True):
    """Normalise a candidate collection: c is unknown => SELF is not in a known-filtered set; the empty coalition
    is always known (asserted by every computer) => it is not in an unknown-filtered set."""
    if isinstance(cc, Coll):
        cls = cc.classes
        if cc.known is True and target_unknown:
            cls = cls - {SELF}
        if cc.known is False:
            cls = cls - {EMPTY}
        return replace(cc, classes=cls, why_restricted="", order=None)
    if isinstance(cc, Compl):
        return Compl(_norm_coll(cc.base, target_unknown), "compl")
    if isinstance(cc, PhiC):
        return PhiC(cc.test, _norm_coll(cc.a, target_unknown), _norm_coll(cc.b, target_unknown))
    return cc


def _norm_value(n):
    if not isinstance(n, tuple):
        return n
    k = n[0]
    if k in ("LB", "UB", "VAL", "KV", "KNV"):
        return (k, _norm_coll(n[1]))
    if k in ("ADD", "SUB", "MIN2"):
        a, b = _norm_value(n[1]), _norm_value(n[2])
        if k in ("ADD", "MIN2") and repr(b) < repr(a):
            a, b = b, a
        return (k, a, b)
    if k in ("MAX", "MIN"):
        return (k, _norm_value(n[1]))
    if k == "PHI":
        return ("PHI", n[1], _norm_value(n[2]), _norm_value(n[3]))
    return n


def registered_computers(prog: Program) -> list[tuple[str, FuncRef, dict, object]]:
    out = []
    for e in registry(prog, "bounds.BOUNDS"):
        callee, args, kwargs, module, env = unwrap_partial(prog, e.module, e.value, e.env)
        q = prog.resolve(module, callee)
        ref = prog.find_func(q) if q else None
        if ref is None:
            raise AnalysisError(f"BOUNDS[{e.key!r}] does not resolve to a function of the package: {src(e.value)}")
        kv = {}
        for k, v in kwargs.items():
            if isinstance(v, ast.Name) and v.id in env and not isinstance(env[v.id], ast.AST):
                kv[k] = env[v.id]
            else:
                try:
                    kv[k] = ast.literal_eval(v)
                except Exception:
                    kv[k] = ("expr", src(v))
        out.append((e.key, ref, kv, e))
    return out


_COMP_CACHE: dict = {}


def analyse_computer(prog: Program, key: str, ref: FuncRef, kv: dict, struct: StructInfo | None) -> Computer:
    ck = (id(prog), ref.qual)
    if ck in _COMP_CACHE:
        c0 = _COMP_CACHE[ck]
        return Computer(key, ref, kv, c0.game, c0.writes, c0.other_mutations, c0.interp, c0.ft)
    ft = fterms(prog, ref)
    params = ref.positional_params()
    if not params:
        raise AnalysisError(f"{ref.short} takes no game parameter")
    game = ("param", params[0])
    it = Interp(prog, ft, game, struct)
    loops = {e.uid: e for e in ft.of_kind("loop")}
    writes: list[Write] = []
    others: list = []
    for ev in ft.calls():
        if ev.recv != game:
            continue
        if ev.name in OTHER_MUTATORS:
            others.append(ev)
            continue
        if ev.name not in BOUND_SETTERS:
            continue
        if len(ev.args) != 2:
            others.append(ev)
            continue
        value_t, target_t = ev.args
        frames = [f for f in ev.ctx if f[0] == "for"]
        c = None
        loop_frame = None
        for f in reversed(frames):
            if it.is_c(target_t, f[2]):
                c, loop_frame = f[2], f
                break
        if loop_frame is None:
            writes.append(Write(BOUND_SETTERS[ev.name], ev, -1, None, None, target_t, None, None, [], [], ["target is not a loop variable"]))
            continue
        idx = ev.ctx.index(loop_frame)
        outer = [f for f in ev.ctx[:idx] if f[0] in ("for", "while")]
        conds = [f for f in ev.ctx[idx + 1:] if f[0] == "if"]
        inner_loops = [f for f in ev.ctx[idx + 1:] if f[0] in ("for", "while")]
        it.unrecognised = []
        lcoll = it.coll(loop_frame[3], None)
        val = it.num(value_t, c)
        unrec = list(it.unrecognised)
        if inner_loops:
            unrec.append("write nested in an inner loop")
        writes.append(Write(BOUND_SETTERS[ev.name], ev, loop_frame[1], loops.get(loop_frame[1]), lcoll, c, val,
                            _norm_value(normalise_num(val)), outer, conds, unrec, value_t))
    comp = Computer(key, ref, kv, game, writes, others, it, ft)
    _COMP_CACHE[ck] = comp
    if len(_COMP_CACHE) > 500:
        _COMP_CACHE.clear()
    return comp


def _phase_applicability(test: Term, taken: bool, outer: list) -> tuple[bool, bool] | None:
    """(holds in the first repetition, holds in some later repetition) for the branch ``test == taken``.

    The test must be a comparison of the repetition counter with an integer literal (or its truthiness);
    it is decided by constant folding at i = 0 and at i = 1 .. k + 2.
    """
    counters = [f[2] for f in outer if f[0] == "for" and is_call_to(f[3], "range")]
    neg = False
    t = test
    while t[0] == "un" and t[1] == "not":
        neg, t = not neg, t[2]
    import operator
    ops = {"==": operator.eq, "!=": operator.ne, "<": operator.lt, "<=": operator.le, ">": operator.gt, ">=": operator.ge}
    if t in counters:
        fn = lambda i: bool(i)          # noqa: E731
        k = 0
    elif t[0] == "cmp" and t[1] in ops and t[2] in counters and t[3][0] == "const" and isinstance(t[3][1], int):
        k = t[3][1]
        fn = lambda i, op=ops[t[1]], k=k: op(i, k)     # noqa: E731
    elif t[0] == "cmp" and t[1] in ops and t[3] in counters and t[2][0] == "const" and isinstance(t[2][1], int):
        k = t[2][1]
        fn = lambda i, op=ops[t[1]], k=k: op(k, i)     # noqa: E731
    else:
        return None
    want = taken != neg
    at0 = fn(0) == want
    later = any(fn(i) == want for i in range(1, abs(k) + 3))
    return at0, later


def _range_starts_at_zero_and_covers(frame, param_name: str) -> tuple[bool, str]:
    it = frame[3]
    if not is_call_to(it, "range"):
        return False, "outer loop is not a range"
    args = it[2]
    if len(args) == 1:
        hi = args[0]
    elif len(args) == 2 and args[0] == ("const", 0):
        hi = args[1]
    else:
        return False, f"range does not start at 0: {show(it)}"
    p = ("param", param_name)
    if hi == ("bin", "+", p, ("const", 1)) or hi == ("bin", "+", ("const", 1), p):
        return True, ""
    return False, f"repetition loop is {show(it)}, expected range({param_name} + 1)"


def _leaf_colls(n) -> list:
    out = []
    if isinstance(n, tuple):
        if n[0] in ("LB", "UB", "VAL", "KV", "KNV"):
            out.append((n[0], n[1]))
        else:
            for x in n[1:]:
                out.extend(_leaf_colls(x))
    return out


def _base_of(cc):
    return cc.base if isinstance(cc, Compl) else cc


def _has_unknown(n) -> bool:
    if isinstance(n, tuple):
        if not n:
            return False
        if n[0] == "?":
            return True
        return any(_has_unknown(x) for x in n[1:])
    if isinstance(n, Coll):
        return n.unrecognised
    if isinstance(n, Compl):
        return _has_unknown(n.base)
    if isinstance(n, PhiC):
        return _has_unknown(n.a) or _has_unknown(n.b)
    return False


# --------------------------------------------------------------------------------------
# the obligations
# --------------------------------------------------------------------------------------

class _Ob:
    """Tag-filtered obligation recorder."""

    def __init__(self, col: Collector) -> None:
        self.col = col
        self.pid = col.property_id

    def rule(self, rid: str, props: set, desc: str, minimum: int = 1) -> bool:
        if self.pid in props:
            self.col.rule(rid, desc, minimum)
            return True
        return False

    def check(self, rid: str, props: set, cond: bool, where: str, fn: str, what: str, construct: str, nec: str) -> None:
        if self.pid in props:
            if not cond and "restricted:unrecognised" in what:
                # the obligation fails on a collection the domain did not understand (a mask or map outside the recognised idioms): that is
                # "not read through", not evidence that candidates were dropped
                self.col.undecidable(where, fn, "not understood: " + what, rule=rid)
                return
            self.col.check(cond, where, fn, what, construct=construct, necessity=nec, rule=rid)

    def und(self, rid: str, props: set, where: str, fn: str, msg: str) -> None:
        if self.pid in props:
            self.col.undecidable(where, fn, msg, rule=rid)


SA_KEYS = ("superadditive", "superadditive_cached")
# the structural rules B1-B5 are necessary for every property about the bound computers (scope: the computers the property looks at)
# C09 / C11 / C13 speak of "freshly recomputed bounds" for every registered computer: the history-freedom part (B1-B5) is theirs as well
P_ALL = {"C01", "C02", "C03", "C04", "C07", "C08", "C09", "C11", "C13"}


def rule_bounds(prog: Program, col: Collector) -> None:
    ob = _Ob(col)
    pid = col.property_id
    comps = registered_computers(prog)
    keys = [k for k, *_ in comps]
    for k in SA_KEYS:
        if k not in keys:
            raise AnchorMissing(f"BOUNDS has no entry {k!r}")
    struct: StructInfo | None
    struct_error = None
    try:
        struct = derive_struct(prog)
    except AnchorMissing:
        struct = None
    except AnalysisError as e:
        # the table writer is no longer in the recognised family: the cached computers cannot be interpreted, but the
        # cache-hygiene obligations (B9) are independent of it and are still evaluated below
        struct = None
        struct_error = str(e)
    analysed: dict[str, Computer] = {}
    for key, ref, kv, entry in comps:
        analysed[key] = analyse_computer(prog, key, ref, kv, struct)
    sa = [analysed[k] for k in SA_KEYS]
    sam_keys = [k for k in keys if k not in SA_KEYS]
    sam_funcs: dict[str, Computer] = {}
    for k in sam_keys:
        sam_funcs.setdefault(analysed[k].ref.qual, analysed[k])
    sam = list(sam_funcs.values())

    # which computers each property looks at
    scope = {"C01": sa, "C02": sa, "C03": sa, "C04": sam, "C07": sa + sam, "C08": sa + sam}.get(pid, sa + sam)
    if pid == "C04" and not sam:
        raise AnchorMissing("no approximate (sam_apx_*) computer registered in BOUNDS")

    ob.rule("B1", P_ALL, "every write is set_lower/upper_bound(v, c) with c the loop variable of a loop over the UNKNOWN coalitions; no other mutator of the game is called", 2)
    ob.rule("B2", P_ALL, "for LB and for UB there is a loop over all UNKNOWN coalitions (unrestricted) that reaches the write on every path", 2)
    ob.rule("B3", P_ALL, "the first lower-bound loop iterates the unknown coalitions by increasing size", 1)
    ob.rule("B4", P_ALL, "in the first lower-bound phase every bound read is at proper non-empty sub-coalitions (final entries)", 1)
    ob.rule("B5", P_ALL, "every upper-bound loop starts after the last lower-bound loop has ended", 1)
    ob.rule("B6s", {"C01", "C02", "C04"}, "lower value = reduction over LB(P) + LB(c\\P): lower-bound columns, complement of the same P, no extra `initial` candidate", 1)
    ob.rule("B7s", {"C01", "C02", "C04"}, "upper value = reduction over KV(T) - LB(T\\c): T known strict supersets, lower-bound subtrahend, subtraction, no extra `initial` candidate", 1)
    ob.rule("B6s", {"C03", "C07", "C08"}, "lower value is the reduction over the splits only (no extra `initial` candidate)", 0)
    ob.rule("B7s", {"C03", "C07", "C08"}, "upper value is the reduction over the known supersets only (no extra `initial` candidate)", 0)
    ob.rule("B6", {"C02"}, "lower = MAX over exactly all proper non-empty sub-coalitions (no knowledge filter, no slice)", 2)
    ob.rule("B7", {"C02"}, "upper = MIN over exactly all known proper supersets", 2)
    ob.rule("B13", {"C07"}, "knowledge enters only as the UNKNOWN target filter and positively (known-filter) inside MIN reductions of upper bounds; MAX for lower, MIN for upper", 4)

    for comp in scope:
        _check_computer(ob, comp, is_sam=comp in sam)

    if pid in ("C01", "C02", "C03", "C04", "C08") and struct is not None:
        _check_table(ob, prog, struct, analysed)
    if pid == "C03":
        _check_siblings(ob, prog, sa, struct, comps)
    elif pid in ("C01", "C02", "C04", "C07", "C08"):
        _check_cache_hygiene(ob.col, prog, struct)
    if struct_error is not None:
        raise AnalysisError(struct_error)
    if pid == "C04":
        _check_sam_registry(ob, prog, comps, analysed, sam, sa)
    if pid in ("C08", "C01", "C04"):
        _check_hidden_state(ob, prog, scope)


def _check_computer(ob: _Ob, comp: Computer, is_sam: bool) -> None:
    ref, fn = comp.ref, comp.ref.short
    col = ob.col
    if not comp.writes:
        raise AnalysisError(f"{fn}: no set_lower_bound/set_upper_bound call on the game parameter found")
    # ---- B1
    for ev in comp.other_mutations:
        ob.check("B1", P_ALL, False, ref.where(ev.node), fn,
                 f"computer calls game.{ev.name}(...)", f"mutator:{ev.name}",
                 "a bound computer may only write bounds of unknown rows: writing a known row replaces v(S) by a bound")
    # stores through getter views
    for ev in list(comp.ft.of_kind("store")) + list(comp.ft.of_kind("aug")):
        base = ev.obj
        while isinstance(base, tuple) and base[0] == "index":
            base = base[1]
        if isinstance(base, tuple) and base[0] == "call" and base[1][0] == "attr" and base[1][1] == comp.game:
            ob.und("B1", P_ALL, ref.where(ev.node), fn,
                   f"in-place store through game.{base[1][2]}() (vectorised redesign: not in the recognised idiom family)")
    for w in comp.writes:
        where = ref.where(w.ev.node)
        if w.loop_ev is None:
            ob.check("B1", P_ALL, False, where, fn, "write target is the loop variable",
                     f"target:{w.col}", "a write to another row than the one being processed bypasses the unknown filter")
            continue
        lc = w.loop_coll
        if not isinstance(lc, Coll) or lc.unrecognised:
            ob.und("B1", P_ALL, where, fn, f"loop iterable not understood: {show_coll(lc)}")
            continue
        ob.check("B1", P_ALL, lc.known is False, where, fn,
                 f"{w.col} write targets the loop variable of a loop over {lc.show()} (must be unknown-filtered)",
                 f"loop-not-unknown:{w.col}",
                 "a write to a known row replaces v(S) by a partition bound: the interval of a known coalition must be exactly its value")
    # ---- B2 coverage
    for colname in ("LB", "UB"):
        ws = [w for w in comp.writes if w.col == colname and isinstance(w.loop_coll, Coll)]
        full = [w for w in ws if w.loop_coll.known is False and not w.loop_coll.restricted
                and w.loop_coll.classes >= (ALL_CLASSES - {EMPTY}) and not w.cond_frames]
        where = ref.where(ws[0].ev.node) if ws else ref.where()
        cond_ws = [w for w in ws if w.cond_frames and w.loop_coll.known is False and not w.loop_coll.restricted]
        both = False
        for w1 in cond_ws:
            for w2 in cond_ws:
                if w1.loop_uid == w2.loop_uid and len(w1.cond_frames) == len(w2.cond_frames) == 1 and \
                        w1.cond_frames[0][1] == w2.cond_frames[0][1] and w1.cond_frames[0][2] != w2.cond_frames[0][2]:
                    both = True
        if ws and not full and cond_ws and both:
            ob.und("B2", P_ALL, where, fn, f"{colname} is written on both branches of a condition inside the loop (not in the recognised idiom family)")
        elif ws and not full and cond_ws:
            ob.check("B2", P_ALL, False, ref.where(cond_ws[0].ev.node), fn,
                     f"{colname}: the write is reached for every unknown coalition (it is conditional inside the loop body)", f"conditional-write:{colname}",
                     "an unknown row that is not rewritten keeps a bound of an earlier knowledge state (stale after un-reveal)")
        else:
            ob.check("B2", P_ALL, bool(full), where, fn,
                     f"{colname}: a loop over all unknown coalitions rewrites every unknown row"
                     + ("" if full else f" (found: {[show_coll(w.loop_coll) for w in ws]})"),
                     f"coverage:{colname}",
                     "an unknown row that is not rewritten keeps a bound of an earlier knowledge state (stale after un-reveal)")
        # no break/continue/return before the write in the loop body
        for w in full:
            early = [e for e in comp.ft.events if e.kind in ("break", "continue", "return", "raise")
                     and any(f[0] == "for" and f[1] == w.loop_uid for f in e.ctx) and e.seq < w.ev.seq]
            ob.check("B2", P_ALL, not early, ref.where((early[0] if early else w.ev).node), fn,
                     f"{colname}: no break/continue/return precedes the write inside the loop body", f"early-exit:{colname}",
                     "skipping the write for some unknown coalition leaves a stale bound")
    lbs = [w for w in comp.writes if w.col == "LB" and w.loop_ev is not None]
    ubs = [w for w in comp.writes if w.col == "UB" and w.loop_ev is not None]
    for colname, ws0 in (("lower", lbs), ("upper", ubs)):
        if not ws0:
            ob.col.undecidable(ref.where(), fn, f"no per-coalition set_{colname}_bound(v, c) write inside a loop over the unknown coalitions "
                               "(vectorised / bulk redesign: outside the recognised idiom family)", rule="B2")
    # ---- B3 order of the first LB loop
    if lbs:
        first = min(lbs, key=lambda w: w.ev.seq)
        if isinstance(first.loop_coll, Coll):
            ob.check("B3", P_ALL, first.loop_coll.order == "up", ref.where(first.loop_ev.node), fn,
                     f"first LB loop iterates by increasing size (order={first.loop_coll.order})", "lb-order",
                     "the recurrence reads lower bounds of strictly smaller coalitions: out of size order they are stale entries")
    # ---- B5 phase order
    if lbs and ubs:
        loop_end = {e.uid: e.seq for e in comp.ft.of_kind("loop_end")}

        def outermost_end(w: Write) -> int:
            uids = [f[1] for f in w.outer] + [w.loop_uid]
            return max(loop_end.get(u, 10 ** 9) for u in uids)

        def outermost_start(w: Write) -> int:
            if w.outer:
                return min(e.seq for e in comp.ft.of_kind("loop") if e.uid == w.outer[0][1])
            return w.loop_ev.seq
        last_lb_end = max(outermost_end(w) for w in lbs)
        for w in ubs:
            shared = [f for f in w.outer if any(f[1] == g[1] for lw in lbs for g in lw.outer)]
            ok = w.loop_ev.seq > last_lb_end and not shared and w.loop_uid not in {lw.loop_uid for lw in lbs}
            ob.check("B5", P_ALL, ok, ref.where(w.loop_ev.node), fn,
                     "UB loop starts after every LB loop (and repetition) has ended", "ub-before-lb",
                     "the upper recurrence reads LB(T\\c) of arbitrary size: all lower bounds must be final")
    # ---- per-write value obligations
    for w in comp.writes:
        if w.loop_ev is None:
            continue
        where = ref.where(w.ev.node)
        if _has_unknown(w.value) or w.unrec:
            for p in ("B4", "B6s", "B7s", "B6", "B7", "B13"):
                pass
            ob.col.undecidable(where, fn, f"{w.col} value not understood: {show_num(w.value)} {w.unrec[:2]}",
                               rule="B6s" if w.col == "LB" else "B7s") if ob.pid in P_ALL else None
            # recognised parts are still checked: a knowledge filter or a wrong column is a violation whatever else the expression contains
            def _q(n):
                return isinstance(n, tuple) and (n[0] == "?" or any(_q(x) for x in n[1:] if isinstance(x, tuple)))
            if _q(w.value):
                def _inits(n):
                    if isinstance(n, tuple):
                        if n and n[0] == "INIT":
                            yield n
                        for x in n[1:]:
                            yield from _inits(x)
                for init in _inits(w.value):
                    # an extra candidate is wrong whatever the part that was not understood turns out to be
                    ob.check("B6s" if w.col == "LB" else "B7s", {"C01", "C02", "C03", "C04", "C07", "C08"}, False, where, fn,
                             f"the {'lower' if w.col == 'LB' else 'upper'} bound is the reduction over its candidates only (found an extra candidate initial={init[3]})",
                             "lb-reduction-initial" if w.col == "LB" else "ub-reduction-initial",
                             "an `initial` value is an extra candidate that no split / superset justifies (v(N) as a cap on every upper bound is wrong as soon as a proper "
                             "coalition is worth more than the grand coalition, e.g. for the additive game v(S) = -|S|)")
                continue
        if w.col == "LB":
            _check_lb(ob, comp, w, is_sam)
        else:
            _check_ub(ob, comp, w, is_sam)


def _alts(w: Write):
    """Phi-free alternatives of the (raw) value: (applies in first phase, applies in a later phase, undecided, value)."""
    out = []
    has_reps = bool(w.outer)
    for conds, v in split_phi(w.value):
        at0, later = True, has_reps
        undecided = False
        for t, taken in conds:
            p = _phase_applicability(t, taken, w.outer)
            if p is None:
                # a data-dependent branch: either alternative can run in every phase, so each one has to satisfy the obligations
                continue
            at0, later = at0 and p[0], later and p[1]
        if not at0 and not later and not undecided:
            continue        # dead branch
        out.append((at0, later, undecided, normalise_num(v)))
    return out


def _check_lb(ob: _Ob, comp: Computer, w: Write, is_sam: bool) -> None:
    ref, fn = comp.ref, comp.ref.short
    where = ref.where(w.ev.node)
    for at0, later, undec, v in _alts(w):
        tag = "all" if (at0 and later) or (at0 and not w.outer) else ("phase0" if at0 else "later")
        if undec:
            ob.und("B4", P_ALL, where, fn, "branch condition on something other than the repetition counter")
            continue
        if v[0] == "MAX2":
            extra = [x for x in (v[1], v[2]) if x[0] in ("LB", "UB", "VAL", "KV", "KNV")]
            main = [x for x in (v[1], v[2]) if x[0] in ("MAX", "MIN", "INIT")]
            own = any(isinstance(x[1], Single) for x in extra)
            ob.check("B6s", {"C01", "C02", "C03", "C04", "C07", "C08"}, False, where, fn,
                     "the lower bound is the reduction over the splits only (found max(<splits>, " + ", ".join(show_num(x) for x in extra) + "))",
                     "lb-max-with-previous" if own else "lb-max-with-extra",
                     "taking the maximum with the row's own previous bound keeps stale bounds of an earlier knowledge state: after an un-reveal (or a bulk reset "
                     "to another game with the same known set) lower bounds can only grow - the two computers disagree and undo is inexact")
            if main:
                v = main[0]
            else:
                continue
        if v[0] == "INIT":
            ob.check("B6s", {"C01", "C02", "C03", "C04", "C07", "C08"}, False, where, fn,
                     f"the lower bound is the reduction over the splits only (found an extra candidate initial={v[3]})", "lb-reduction-initial",
                     "an `initial` value is an extra candidate that no split justifies: max(0, ...) is wrong for negative games, and the row's own "
                     "previous bound makes the result depend on history")
            continue
        if v[0] not in ("MAX", "MIN"):
            ob.und("B6s", {"C01", "C02", "C04", "C07"}, where, fn, f"LB value is not a reduction: {show_num(v)}")
            continue
        red, body = v[0], v[1]
        # ---- monotone closure form (SAM): MAX(LB(Q))
        if body[0] in ("LB", "KV", "UB", "VAL", "KNV") and is_sam:
            q = body[1]
            okq = isinstance(q, Coll) and not q.restricted
            ob.check("B11b", {"C04", "C07"}, okq and body[0] == "LB" and q.classes <= {PSUPER, SELF} and q.classes >= {PSUPER, SELF}
                     and q.known is None and red == "MAX", where, fn,
                     f"monotone closure LB(c) = MAX(LB(<PSUPER,SELF>)) [{tag}] (found {show_num(v)})", "closure",
                     "for a non-increasing game only supersets (and the row itself) give valid lower bounds; MIN or sub-coalitions are unsound, dropping SELF loosens below the superadditive bound")
            ob.check("B13", {"C07"}, okq and red == "MAX" and q.known is not False, where, fn,
                     "closure is a MAX over a set that does not shrink with knowledge" + (f" ({q.show()})" if isinstance(q, Coll) and q.restricted else ""), "closure-polarity",
                     "a candidate set that shrinks when knowledge grows lets a lower bound decrease")
            # closure must come after the split loop inside the same repetition
            splits = [x for x in comp.writes if x.col == "LB" and x is not w and x.outer and w.outer and x.outer[-1][1] == w.outer[-1][1]]
            ob.check("B11b", {"C04", "C08", "C07"}, bool(splits) and all(x.ev.seq < w.ev.seq for x in splits), where, fn,
                     "closure loop follows the split loop in the same repetition (reads rows rewritten in this compute)", "closure-order",
                     "a closure that runs before the split loop reads stale rows of an earlier compute")
            # ... and in EVERY repetition: nothing leaves or skips the repetition loop between the split loop and the closure loop
            if w.outer:
                rep_uid = w.outer[-1][1]
                first_split = min((x.ev.seq for x in splits), default=0)
                jumps = [e for e in comp.ft.events if e.kind in ("break", "continue", "return", "raise") and first_split < e.seq < w.ev.seq and
                         [f[1] for f in e.ctx if f[0] in ("for", "while")][-1:] == [rep_uid]]
                # ... and the repetition loop runs all its rounds: no data-dependent exit anywhere in it ("converged, stop")
                exits = [e for e in comp.ft.events if e.kind in ("break", "return") and [f[1] for f in e.ctx if f[0] in ("for", "while")][-1:] == [rep_uid]]
                ob.check("B12", {"C04", "C07", "C08"}, not exits, comp.ref.where(exits[0].node) if exits else where, fn,
                         "every one of the repetitions + 1 rounds runs (no early exit from the repetition loop)", "repetition-early-exit",
                         "round 0 rebuilds the lower bounds from the known values; `no bound moved, stop` compares with what an EARLIER compute (another knowledge set, another "
                         "computer) left in the table - whether the later rounds run then depends on history, and a bound can fall when knowledge grows")
                guarded = [f for f in w.loop_ev.ctx if f[0] == "if" and not (len(f) > 4 and f[4] == "implied")] if w.loop_ev is not None else []
                ob.check("B11b", {"C04", "C07", "C08"}, not jumps and not guarded, comp.ref.where((jumps[0] if jumps else w.loop_ev).node), fn,
                         "the closure pass runs in every repetition, the last one included (no break / continue / guard between the split loop and the closure loop)",
                         "closure-skipped",
                         "the last step of every pass is what makes the lower bounds monotone along inclusion: without it (repetition count 0, or the final repetition) "
                         "lower({0,1}) can exceed lower of a superset although the class is non-increasing")
            continue
        if body[0] != "ADD":
            ob.und("B6s", {"C01", "C02", "C04", "C07"}, where, fn, f"LB value is not MAX(ADD(..)): {show_num(v)}")
            continue
        leaves = [body[1], body[2]]
        direct = [x for x in leaves if x[0] in ("LB", "UB", "VAL", "KV", "KNV") and not isinstance(x[1], Compl)]
        compl = [x for x in leaves if x[0] in ("LB", "UB", "VAL", "KV", "KNV") and isinstance(x[1], Compl)]
        if len(direct) != 1 or len(compl) != 1:
            ob.und("B6s", {"C01", "C02", "C04", "C07"}, where, fn, f"LB summands are not (X, c\\X): {show_num(v)}")
            continue
        dcol, P = direct[0]
        ccol, CP = compl[0]
        if not isinstance(P, Coll):
            ob.und("B6s", {"C01", "C02", "C04", "C07"}, where, fn, f"split set not understood: {show_coll(P)}")
            continue
        # B6s soundness
        ob.check("B6s", {"C01", "C02", "C04"}, dcol in ("LB", "KV") and ccol in ("LB", "KV"), where, fn,
                 f"both summands read lower bounds [{tag}] ({dcol}, {ccol})", f"lb-column:{tag}",
                 "an upper bound (or NaN-masked known value) in a summand is not a lower bound of v: the sum can exceed v(S)")
        same = CP.base == P
        ob.check("B6s", {"C01", "C02", "C04"}, same, where, fn, f"the complement is taken of the same split set [{tag}]",
                 f"lb-complement-same:{tag}", "P and c\\P' with P' != P are not a partition of c")
        seq = comp.interp.same_sequence(w.value_term, w.c)
        if seq is not None:
            ob.check("B6s", {"C01", "C03", "C04"}, seq, where, fn, f"the complement list is the elementwise complement of the split list itself (same order) [{tag}]",
                     f"lb-complement-pairing:{tag}", "parts are added elementwise: P[i] must be paired with c\\P[i], not with the complement of another part")
        okc, why = compl_valid(CP)
        ob.check("B6s", {"C01", "C02", "C04"}, okc, where, fn, f"c\\P is a set difference within c [{tag}] {why}", f"lb-complement-valid:{tag}",
                 "xor/difference with a non-subset is not the complementary part")
        ob.check("B6s", {"C01", "C02", "C04"}, P.classes <= {PSUB, EMPTY, SELF}, where, fn,
                 f"split set lies inside c [{tag}]: {P.show()}", f"lb-split-inside:{tag}",
                 "a part that is not a sub-coalition does not split c")
        # B4 fresh reads (first phase / SA)
        if at0:
            ob.check("B4", P_ALL, P.classes <= {PSUB} | ({EMPTY} if False else set()), where, fn,
                     f"first-phase split set excludes the row itself and the empty coalition: {P.show()}", "lb-stale-self",
                     "reading the own row (SELF, or EMPTY whose complement is SELF) imports the stale bound of an earlier compute: unsound after un-reveal")
        if later and is_sam:
            ob.check("B11a", {"C04", "C07"}, P.classes >= {PSUB, SELF}, where, fn,
                     f"later repetitions include the row itself in the split set: {P.show()}", "lb-later-self",
                     "without SELF a repetition can overwrite a bound raised by the monotone closure: more repetitions would loosen")
        # B6 tightness
        if at0:
            ob.check("B6", {"C02"}, red == "MAX", where, fn, f"lower bound is the MAX over splits (found {red})", "lb-max",
                     "MIN over splits is sound but not the best partition: looser interval")
            ob.check("B6", {"C02"}, P.classes == frozenset({PSUB}) and P.known is None and not P.restricted, where, fn,
                     f"split set is exactly all proper non-empty sub-coalitions: {P.show()}", "lb-complete",
                     "dropping candidates (knowledge filter, slice, size predicate) gives a sound but looser lower bound")
            if P.restricted and P.unrecognised:
                ob.und("B6", {"C02"}, where, fn, f"split set restricted by an unrecognised predicate: {P.why_restricted}")
        ob.check("B13", {"C07"}, red == "MAX" and P.known is None, where, fn,
                 f"lower bound: MAX over a knowledge-independent split set [{tag}]", f"lb-polarity:{tag}",
                 "a knowledge filter inside the MAX makes the candidate set change non-monotonically with knowledge")
        if is_sam and at0 and not later:
            ob.check("B11a", {"C04", "C07"}, red == "MAX" and P.classes == frozenset({PSUB}) and P.known is None and not P.restricted, where, fn,
                     "first repetition equals the plain superadditive lower recurrence (never looser than SA)", "sam-phase0-sa",
                     "a weaker first phase makes the approximation looser than the superadditive bounds")


def _check_ub(ob: _Ob, comp: Computer, w: Write, is_sam: bool) -> None:
    ref, fn = comp.ref, comp.ref.short
    where = ref.where(w.ev.node)
    alts = _alts(w)
    if len(alts) > 1 or any(a[2] for a in alts):
        ob.und("B7s", {"C01", "C02", "C04", "C07"}, where, fn, "upper value depends on a branch")
        return
    for at0, later, undec, v in alts:
        parts = [v]
        if v[0] == "MIN2":
            parts = [v[1], v[2]]
        elif v[0] == "SUB" and isinstance(v[1], tuple) and v[1][0] in ("LB", "UB", "VAL", "KV", "KNV") and isinstance(v[1][1], Coll) and v[1][1].restricted:
            parts = [("MIN", v)]        # v(T0) - LB(T0\\c) for ONE chosen superset T0: a reduction over a single candidate
        elif v[0] == "?":
            ob.und("B7s", {"C01", "C02", "C04", "C07"}, where, fn, f"UB value not understood: {show_num(v)}")
            continue
        if is_sam:
            ob.check("B11c", {"C04", "C07"}, v[0] == "MIN2", where, fn,
                     "upper = min(superadditive-style upper, min value of known sub-coalitions)", "sam-ub-min2",
                     "without the sub-coalition term an upper bound can exceed the value of a known sub-coalition")
        seen_super = seen_sub = False
        parts = [("MIN", pt) if pt[0] in ("LB", "UB", "VAL", "KV", "KNV") and isinstance(pt[1], Coll) and pt[1].restricted else pt for pt in parts]
        for part in parts:
            if part[0] == "INIT":
                ob.check("B7s", {"C01", "C02", "C03", "C04", "C07", "C08"}, False, where, fn,
                         f"the upper bound is the reduction over the known supersets only (found an extra candidate initial={part[3]})", "ub-reduction-initial",
                         "an `initial` value is an extra candidate that no superset justifies")
                seen_super = seen_sub = True
                continue
            if part[0] not in ("MIN", "MAX"):
                ob.und("B7s", {"C01", "C02", "C04", "C07"}, where, fn, f"UB operand is not a reduction: {show_num(part)}")
                continue
            red, body = part
            if body[0] == "SUB":
                seen_super = True
                minu, subt = body[1], body[2]
                if minu[0] not in ("LB", "UB", "VAL", "KV", "KNV") or subt[0] not in ("LB", "UB", "VAL", "KV", "KNV") \
                        or not isinstance(minu[1], Coll) or not isinstance(subt[1], Compl):
                    ob.und("B7s", {"C01", "C02", "C04", "C07"}, where, fn, f"UB difference not of the form V(T) - LB(T\\c): {show_num(body)}")
                    continue
                T = minu[1]
                ob.check("B7s", {"C01", "C02", "C04"}, T.known is True, where, fn,
                         f"minuend is the value of KNOWN supersets: {T.show()}", "ub-known-filter",
                         "the lower bound of an unknown superset used as its value yields a number below admissible v(S)")
                ob.check("B7s", {"C03", "C08"}, minu[0] == "LB" or T.known is True, where, fn,
                         f"upper/value columns are read at KNOWN rows only ({minu[0]} over {T.show()})", "ub-stale-read",
                         "the upper bound of an unknown coalition is whatever the previous computation (or a bulk reset) left there until this pass has rewritten it: "
                         "reading it makes the result depend on the history, not on the current knowledge")
                ob.check("B7s", {"C01", "C02", "C04"}, T.classes <= {PSUPER, SELF}, where, fn,
                         f"T ranges over supersets of c: {T.show()}", "ub-supersets",
                         "v(T) - LB(T\\c) bounds v(c) only for T containing c")
                ob.check("B7s", {"C01", "C02", "C04"}, minu[0] in ("KV",) or (minu[0] in ("LB", "UB", "VAL") and T.known is True), where, fn,
                         "minuend column is a value column at known rows", "ub-minuend-col", "")
                ob.check("B7s", {"C01", "C02", "C04"}, subt[0] in ("LB", "KV"), where, fn,
                         f"subtrahend reads LOWER bounds of T\\c (found {subt[0]})", "ub-subtrahend-col",
                         "subtracting an upper bound of the complement gives a number below admissible v(S)")
                ob.check("B7s", {"C01", "C02", "C04"}, subt[1].base == T, where, fn, "the complement is taken of the same T", "ub-complement-same",
                         "v(T) - LB(T'\\c) with T' != T is not a superadditivity inequality")
                okc, why = compl_valid(subt[1])
                ob.check("B7s", {"C01", "C02", "C04"}, okc, where, fn, f"T\\c is a set difference {why}", "ub-complement-valid", "")
                seq = comp.interp.same_sequence(w.value_term, w.c)
                if seq is not None:
                    ob.check("B7s", {"C01", "C03", "C04"}, seq, where, fn, "the complement list is the elementwise remainder of the superset list itself (same order)",
                             "ub-complement-pairing", "v(T[i]) must be paired with LB(T[i]\\c)")
                ob.check("B7", {"C02"}, red == "MIN", where, fn, f"upper bound is the MIN over known supersets (found {red})", "ub-min",
                         "MAX over candidates is sound but looser")
                ob.check("B7", {"C02"}, T.classes - {SELF} == frozenset({PSUPER}) and T.known is True and not T.restricted, where, fn,
                         f"T is exactly all known proper supersets (grand coalition included): {T.show()}", "ub-complete",
                         "ignoring a known superset gives a sound but looser upper bound")
                if T.restricted and T.unrecognised:
                    ob.und("B7", {"C02"}, where, fn, f"T restricted by an unrecognised predicate: {T.why_restricted}")
                if T.restricted and T.unrecognised and getattr(T, "why_restricted", "") in ("unrecognised", "unrecognised mask", "unrecognised map"):
                    ob.und("B13", {"C07", "C04"}, where, fn, f"T is selected by a mask the domain does not understand: {T.why_restricted}")
                    continue
                ob.check("B13", {"C07"}, not T.restricted, where, fn,
                         f"the set of known supersets is not thinned out by a further predicate ({T.why_restricted})", "ub-polarity-restricted",
                         "a filter that depends on which other coalitions are known (e.g. 'minimal known supersets only') removes candidates when knowledge grows: an upper bound can increase")
                ob.check("B13", {"C07"}, red == "MIN" and T.known is True, where, fn,
                         "upper bound: MIN over a known-filtered set (grows with knowledge)", "ub-polarity",
                         "a MAX, or an unknown-filter, lets an upper bound increase when knowledge grows")
                if is_sam:
                    ob.check("B11c", {"C04", "C07"}, red == "MIN" and T.classes - {SELF} == {PSUPER} and T.known is True and not T.restricted
                             and subt[0] in ("LB", "KV"), where, fn,
                             "first operand equals the superadditive upper recurrence with the final lower bounds", "sam-ub-sa",
                             "otherwise the approximation can be looser than the superadditive bounds")
            elif body[0] in ("LB", "UB", "VAL", "KV", "KNV") and isinstance(body[1], Coll) and is_sam:
                seen_sub = True
                S = body[1]
                ob.check("B11c", {"C04", "C07"}, S.known is True, where, fn,
                         f"sub-coalition values are known-filtered: {S.show()}", "sam-sub-known",
                         "an unfiltered get_known_values() contains NaN; a bound of an unknown sub-coalition is not an upper bound")
                ob.check("B7s", {"C03", "C08"}, body[0] == "LB" or S.known is True, where, fn,
                         f"upper/value columns are read at KNOWN rows only ({body[0]} over {S.show()})", "ub-stale-read",
                         "the upper bound of an unknown sub-coalition is a leftover of the previous computation until this pass has rewritten it")
                ob.check("B11c", {"C04", "C07"}, S.classes <= {PSUB, EMPTY} and S.classes >= {PSUB} and not S.restricted, where, fn,
                         f"all known proper sub-coalitions are candidates: {S.show()}", "sam-sub-set",
                         "for a non-increasing game only sub-coalitions bound v(c) from above; all of them must be used")
                ob.check("B11c", {"C04", "C07"}, red == "MIN", where, fn, "MIN over known sub-coalition values", "sam-sub-min",
                         "MAX over sub-coalition values is not the tightest valid upper bound")
                ob.check("B13", {"C07"}, red == "MIN" and S.known is True, where, fn,
                         "sub-coalition term: MIN over a known-filtered set", "sub-polarity", "")
            else:
                ob.und("B7s", {"C01", "C02", "C04", "C07"}, where, fn, f"UB operand not understood: {show_num(part)}")
        if not seen_super:
            ob.check("B7s", {"C01", "C02", "C04"}, False, where, fn, "upper bound uses the superset recurrence v(T) - LB(T\\c)", "ub-no-super", "")
        if is_sam:
            ob.check("B11c", {"C04", "C07"}, seen_sub, where, fn, "upper bound uses the values of known sub-coalitions", "sam-ub-no-sub",
                     "no upper bound may exceed the value of a known sub-coalition")


# --------------------------------------------------------------------------------------
# B10: relation-table agreement; B9 cache hygiene; B8 siblings; REG-B
# --------------------------------------------------------------------------------------

def _check_table(ob: _Ob, prog: Program, struct: StructInfo, analysed: dict[str, Computer]) -> None:
    if not ob.rule("B10", {"C01", "C02", "C03", "C04", "C08"}, "relation codes compared by readers are codes the table writer assigns, with the class sets the recurrences need", 3):
        return
    ref = struct.ref
    cc = struct.code_classes
    want = {PSUB: "proper non-empty sub-coalitions", PSUPER: "proper supersets", SELF: "the coalition itself"}
    for cls, text in want.items():
        codes = [k for k, v in cc.items() if v == frozenset({cls})]
        ob.check("B10", {"C01", "C02", "C03", "C04", "C08"}, len(codes) == 1, ref.where(), ref.short,
                 f"exactly one relation code denotes exactly {text} (codes: { {k: sorted(v) for k, v in cc.items()} })",
                 f"table-class:{cls}",
                 "the order of the subscript stores decides which code a row's own entry / the empty coalition ends up with; "
                 "a code that mixes classes makes every reader select wrong candidates")
    for pos_role in ("ALLIDS", "TABLE"):
        ob.check("B10", {"C01", "C02", "C03", "C04", "C08"}, pos_role in struct.roles.values(), ref.where(), ref.short,
                 f"returned tuple contains the {pos_role} component", f"table-role:{pos_role}", "")
    ob.check("B10", {"C01", "C02", "C03", "C04", "C08"}, "SORTED_UP" in struct.roles.values(), ref.where(), ref.short,
             "returned tuple contains the ids sorted by increasing size (argsort of the per-id sizes)", "table-role:SORTED_UP",
             "the cached computers process unknown coalitions in this order")
    seen = set()
    for comp in analysed.values():
        if comp.ref.qual in seen:
            continue
        seen.add(comp.ref.qual)
        nw = getattr(comp.interp, "never_written", [])
        ob.check("B10", {"C01", "C02", "C03", "C04", "C08"}, not nw, comp.ref.where(), comp.ref.short,
                 f"every relation code compared is one the writer assigns (unknown: {sorted(set(nw))})", "table-reader-code",
                 "comparing with a code that is never written selects nothing: the reduction runs over an empty set")


def _view_root(t: Term, root_pred) -> bool:
    """t is the cached tuple, one of its components, or a *view* of one (integer / slice index)."""
    if root_pred(t):
        return True
    if t[0] == "index":
        idx = t[2]
        scalar = idx[0] in ("const", "elem", "slice") or (idx[0] == "un" and idx[2][0] == "const")
        if idx[0] == "const" and root_pred(t[1]):
            return True
        if scalar and _view_root(t[1], root_pred):
            return True
    return False


def _check_cache_hygiene(col: Collector, prog: Program, struct: StructInfo | None) -> None:
    col.rule("B9", "the memoised coalition structure is keyed by n only, pure, and never mutated by a caller", 4)
    sref = struct.ref if struct is not None else prog.find_func("bounds._get_sub_super_coalition_structure")
    if sref is None:
        raise AnchorMissing("bounds._get_sub_super_coalition_structure not found")
    if struct is not None:
        is_cached = struct.cached
    else:
        is_cached = any(d.split("(")[0].split(".")[-1] in ("cache", "lru_cache") for d in sref.decorators()) or any(
            isinstance(d, ast.Call) and getattr(d.func, "attr", getattr(d.func, "id", "")) == "lru_cache" for d in sref.node.decorator_list)
    col.check(is_cached, sref.where(), sref.short, "decorated with functools.cache / lru_cache", construct="not-cached",
              necessity="a hand-rolled memo (module-level list/dict) instead of functools.cache is keyed by whatever the author remembered to key it by: "
              "the structure of one player count must never be served for another", rule="B9")
    sft = fterms(prog, sref)
    bad_globals = []
    for ev in sft.events:
        for v in ev.data.values():
            if isinstance(v, tuple):
                for s in subterms(v):
                    if s[0] == "global" and s[1].startswith("incomplete_cooperative."):
                        gv = prog.global_value(s[1])
                        if gv is not None and not isinstance(gv[1], (ast.Constant, ast.Name, ast.Attribute)):
                            bad_globals.append(s[1])
    col.check(not bad_globals and not list(sft.of_kind("global")), sref.where(), sref.short,
              f"body reads no module-level mutable state ({sorted(set(bad_globals))})", construct="cache-impure",
              necessity="a memoised result that depends on anything but n is wrong for later callers", rule="B9")
    params = sref.positional_params()
    col.check(len(params) == 1, sref.where(), sref.short, "single parameter (the cache key is n alone)", construct="cache-key",
              necessity="a cached structure keyed by anything but n is shared between games that need different tables", rule="B9")
    ncallers = 0
    for fref in prog.all_functions():
        if fref.qual == sref.qual:
            continue
        ft = fterms(prog, fref)
        calls = [e for e in ft.calls() if is_global(e.func, Q_STRUCT)]
        if not calls:
            continue
        ncallers += 1
        for e in calls:
            a = e.args[0] if e.args else None
            ok = a is not None and a[0] == "attr" and a[2] == "number_of_players"
            col.check(ok, fref.where(e.node), fref.short, "call passes <game>.number_of_players", construct="cache-arg",
                      necessity="the structure of one size must never be used for another", rule="B9")
        is_root = lambda t: is_call_to(t, Q_STRUCT)  # noqa: E731
        muts = []
        for e in list(ft.of_kind("store")) + list(ft.of_kind("aug")):
            if e.obj is not None and isinstance(e.obj, tuple) and (_view_root(e.obj, is_root)) and (e.kind == "aug" or e.index is not None):
                muts.append((e, "subscript store / augmented assignment"))
            if e.kind == "aug" and e.data.get("name") and _view_root(e.target, is_root):
                muts.append((e, "augmented assignment of a cached array"))
        for e in ft.calls():
            if e.recv is not None and e.name in INPLACE_METHODS and _view_root(e.recv, is_root):
                muts.append((e, f".{e.name}() in place"))
            if is_global(e.func, *INPLACE_FUNCS) and e.args and _view_root(e.args[0], is_root):
                muts.append((e, f"{e.func[1]} on a cached array"))
            o = e.kwargs.get("out")
            if o is not None and _view_root(o, is_root):
                muts.append((e, "out= a cached array"))
        col.check(not muts, fref.where(muts[0][0].node if muts else None), fref.short,
                  "caller never mutates a cached array or a view of it" + (f" ({muts[0][1]})" if muts else ""),
                  construct="cache-mutated",
                  necessity="the cached tuple is shared by every later call with the same n, from any game object: one in-place "
                            "write makes later results depend on call history", rule="B9")
    col.check(ncallers >= 2, sref.where(), sref.short, f"{ncallers} caller(s) of the cached structure analysed", construct="cache-callers",
              necessity="anchor: both the superadditive and the SAM cached computers must be found as callers, otherwise the hygiene analysis looked at nothing", rule="B9")


def _check_siblings(ob: _Ob, prog: Program, sa: list[Computer], struct: StructInfo | None, comps) -> None:
    col = ob.col
    # ---- B8
    col.rule("B8", "after normalisation the write schedules of 'superadditive' and 'superadditive_cached' are equal term for term", 1)

    def schedule(c: Computer) -> list[str]:
        out = []
        for w in sorted(c.writes, key=lambda w: w.ev.seq):
            if w.loop_ev is None or not isinstance(w.loop_coll, Coll):
                out.append(f"{w.col}:?")
                continue
            lc = _norm_coll(w.loop_coll)
            order = w.loop_coll.order if w.col == "LB" else None
            out.append(f"{w.col} over {lc.show()} order={order} := {show_num(w.nvalue)}")
        return out
    s0, s1 = schedule(sa[0]), schedule(sa[1])
    where = sa[1].ref.where()
    if any(_has_unknown(w.value) or w.unrec for c in sa for w in c.writes):
        col.undecidable(where, sa[1].ref.short, "a schedule contains a value that is not understood", rule="B8")
    else:
        col.check(s0 == s1, where, f"{sa[0].ref.short} ~ {sa[1].ref.short}",
                  f"schedules equal: {s0} == {s1}", construct="schedule-differs",
                  necessity="max/min are exact and a+b, a-b see the same operands: equal candidate multisets give bit-identical bounds; "
                            "any difference in candidate sets, columns, reductions or order makes the two game classes disagree", rule="B8")
    _check_cache_hygiene(col, prog, struct)
    # ---- REG-B
    col.rule("REG-B", "the two registry names map to two distinct computers accepting (game); get_env selects BOUNDS[game_class]; CLI offers BOUNDS.keys()", 4)
    col.check(sa[0].ref.qual != sa[1].ref.qual, sa[0].ref.where(), "bounds.BOUNDS", "the two names map to distinct functions",
              construct="registry-same", necessity="the property compares the two registered computers: if both names resolve to one function the comparison is vacuous", rule="REG-B")
    for key, ref, kv, entry in comps:
        need = [p for p in ref.positional_params()[1:] if p not in kv and p not in fterms(prog, ref).param_defaults]
        col.check(not need and len(ref.positional_params()) >= 1, ref.where(), ref.short,
                  f"BOUNDS[{key!r}] is callable as computer(game) (unbound parameters: {need})", construct=f"registry-sig:{key}",
                  necessity="IncompleteCooperativeGame.compute_bounds calls self._bounds_computer(self)", rule="REG-B")
    gref = prog.func("run.model.ModelInstance.get_env")
    gft = fterms(prog, gref)
    sel = ("index", ("global", "incomplete_cooperative.bounds.BOUNDS"), ("attr", ("param", "self"), "game_class"))
    ctor = [e for e in gft.calls() if is_global(e.func, "incomplete_cooperative.game.IncompleteCooperativeGame")]
    ok = any(len(e.args) >= 2 and e.args[1] == sel or e.kwargs.get("bounds_computer") == sel for e in ctor)
    col.check(ok, gref.where(), gref.short, "get_env builds the game with BOUNDS[self.game_class]", construct="registry-select",
              necessity="the game class chosen on the command line must select that computer", rule="REG-B")
    aref = prog.func("run.model.add_model_arguments")
    aft = fterms(prog, aref)
    okc = False
    for e in aft.calls("add_argument"):
        if e.args and e.args[0] == ("const", "--game-class"):
            ch = e.kwargs.get("choices")
            okc = ch is not None and any(is_global(s, "incomplete_cooperative.bounds.BOUNDS") for s in subterms(ch))
    col.check(okc, aref.where(), aref.short, "--game-class offers choices=BOUNDS.keys()", construct="registry-choices",
              necessity="a game class that cannot be selected on the command line (or a selectable one that is not registered) breaks the selection the property speaks about", rule="REG-B")


def _check_sam_registry(ob: _Ob, prog: Program, comps, analysed, sam: list[Computer], sa: list[Computer]) -> None:
    col = ob.col
    col.rule("B12", "sam_apx_<i> binds repetitions=i; the repetition loop is range(repetitions + 1) so the first phase always runs", 5)
    n = 0
    for key, ref, kv, entry in comps:
        if not str(key).startswith("sam_apx_"):
            continue
        n += 1
        suffix = str(key)[len("sam_apx_"):]
        params = ref.positional_params()
        rep_param = params[1] if len(params) > 1 else None
        bound = kv.get(rep_param) if rep_param else None
        col.check(rep_param is not None and str(bound) == suffix, f"{entry.module.rel()}:{entry.node.lineno}", "bounds.BOUNDS",
                  f"BOUNDS[{key!r}] binds {rep_param}={bound}", construct=f"sam-binding:{key}",
                  necessity="the name promises the repetition count; a different count changes the bounds a run reports under that name", rule="B12")
    for comp in sam:
        params = comp.ref.positional_params()
        rep = params[1] if len(params) > 1 else "repetitions"
        lbw = [w for w in comp.writes if w.col == "LB" and w.outer]
        if not lbw:
            col.undecidable(comp.ref.where(), comp.ref.short, "no repetition loop around the lower-bound phases", rule="B12")
            continue
        ok, why = _range_starts_at_zero_and_covers(lbw[0].outer[-1], rep)
        col.check(ok, comp.ref.where(lbw[0].outer[-1][4]), comp.ref.short, f"repetition loop is range({rep} + 1) {why}",
                  construct="sam-range", necessity="with range(repetitions) and repetitions=0 no lower bound is ever written; "
                  "the first phase (plain superadditive closure) must always run", rule="B12")
    # 'never looser than SA': first-phase LB and first UB operand equal the SA schedule terms
    col.rule("B11a", "first repetition = superadditive recurrence on strict sub-splits; later repetitions include the row itself", 2)
    col.rule("B11b", "monotone closure: MAX of LB over supersets and the row itself, after the split loop", 2)
    col.rule("B11c", "upper = MIN2(superadditive upper with final lower bounds, MIN of known sub-coalition values)", 4)


def _check_hidden_state(ob: _Ob, prog: Program, scope: list[Computer]) -> None:
    col = ob.col
    col.rule("H1", "a computer reads and writes nothing but the game API and the pure cached structure", 2)
    proto: set[str] = {"number_of_players"}
    pm = prog.module("protocols")
    for name in ("Game", "IncompleteGame", "BoundableIncompleteGame"):
        c = pm.defs.get(name)
        if isinstance(c, ast.ClassDef):
            proto |= {n.name for n in c.body if isinstance(n, ast.FunctionDef)}
    seen = set()
    for comp in scope:
        if comp.ref.qual in seen:
            continue
        seen.add(comp.ref.qual)
        ft = comp.ft
        bad = []
        attrs = set()
        for ev in ft.events:
            for v in ev.data.values():
                if isinstance(v, tuple):
                    for s in subterms(v):
                        if s[0] == "global" and s[1].startswith("incomplete_cooperative."):
                            gv = prog.global_value(s[1])
                            if gv is not None and not isinstance(gv[1], (ast.Constant, ast.Name, ast.Attribute)):
                                bad.append(s[1])
                        if s[0] == "attr" and s[1] == comp.game:
                            attrs.add(s[2])
        col.check(not bad and not list(ft.of_kind("global")), comp.ref.where(), comp.ref.short,
                  f"no module-level mutable state is read or declared global ({sorted(set(bad))})", construct="hidden-global",
                  necessity="bounds memoised or accumulated outside the game object make the result depend on call history", rule="H1")
        extra = sorted(a for a in attrs if a not in proto)
        col.check(not extra, comp.ref.where(), comp.ref.short,
                  f"only protocol attributes of the game are used ({extra})", construct="hidden-attr",
                  necessity="private per-object state (caches, dirty flags) lets history leak into the bounds", rule="H1")
