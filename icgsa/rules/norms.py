"""N1 (C07): the gap-function registry and the lp norms."""
from __future__ import annotations

import ast

from ..core import AnalysisError, AnchorMissing, Program, registry, src, unwrap_partial
from ..report import Collector
from ..terms import is_call_to, is_global, subterms
from .common import fterms, short

P = "incomplete_cooperative."


def rule_n1_gap_registry(prog: Program, col: Collector) -> None:
    col.rule("N1", "GAP_FUNCTIONS: exploitability -> compute_exploitability; l1/l2/linf -> lp_norm with ord 1 / 2 / inf; lp_norm is the norm of (upper - lower)", 5)
    want = {"exploitability": (P + "exploitability.compute_exploitability", None),
            "l1_norm": (P + "norms.lp_norm", "1"), "l2_norm": (P + "norms.lp_norm", "2"), "linf_norm": (P + "norms.lp_norm", "inf")}
    entries = {e.key: e for e in registry(prog, "run.model.GAP_FUNCTIONS")}
    for key, (target, ordv) in want.items():
        e = entries.get(key)
        if e is None:
            raise AnchorMissing(f"GAP_FUNCTIONS has no {key!r}")
        callee, args, kwargs, module, env = unwrap_partial(prog, e.module, e.value, e.env)
        q = prog.resolve(module, callee)
        where = f"{e.module.rel()}:{e.node.lineno}"
        ok = q == target
        got = None
        if ordv is not None:
            o = kwargs.get("ord") or (args[0] if args else None)
            if o is not None:
                if isinstance(o, ast.Constant):
                    got = str(o.value)
                else:
                    qq = prog.resolve(module, o)
                    got = {"numpy.inf": "inf", "math.inf": "inf", "numpy.Inf": "inf", "numpy.infty": "inf"}.get(qq or "", src(o))
                    if isinstance(o, ast.Call) and src(o) in ("float('inf')", 'float("inf")'):
                        got = "inf"
            ok = ok and got == ordv
        col.check(ok, where, "run.model.GAP_FUNCTIONS", f"GAP_FUNCTIONS[{key!r}] -> {target.replace(P, '')}" + (f" with ord={ordv} (found ord={got})" if ordv else ""),
                  construct=f"gap-registry:{key}",
                  necessity="the property is stated per named gap function; swapping two orders passes the suite (only l1 is ever evaluated)")
    extra = sorted(set(entries) - set(want))
    for k in extra:
        col.note(f"additional gap function {k!r} is not covered by N1")
    ref = prog.func("norms.lp_norm")
    ft = fterms(prog, ref)
    gp = ("param", ref.positional_params()[0])
    op = ("param", ref.positional_params()[1])
    rets = list(ft.of_kind("return"))
    ok = False
    if len(rets) == 1:
        for s in subterms(rets[0].value):
            if is_call_to(s, "numpy.linalg.norm") and len(s[2]) >= 1:
                x = s[2][0]
                o = s[2][1] if len(s[2]) > 1 else dict(s[3]).get("ord")
                ub = ("call", ("attr", gp, "get_upper_bounds"), (), ())
                lb = ("call", ("attr", gp, "get_lower_bounds"), (), ())
                ok = x in (("bin", "-", ub, lb), ("bin", "-", lb, ub)) and o == op
    col.check(ok, ref.where(), ref.short, "lp_norm(game, ord) = ||upper - lower||_ord of the whole game", construct="lp-norm",
              necessity="a gap that is not a norm of the interval widths is not monotone in them")
    # the CLI offers exactly the registry
    aref = prog.func("run.model.add_model_arguments")
    okc = False
    for e in fterms(prog, aref).calls("add_argument"):
        if e.args and e.args[0] == ("const", "--gap-function"):
            ch = e.kwargs.get("choices")
            okc = ch is not None and any(is_global(s, P + "run.model.GAP_FUNCTIONS") for s in subterms(ch))
    col.check(okc, aref.where(), aref.short, "--gap-function offers choices=GAP_FUNCTIONS.keys()", construct="gap-choices", necessity="a gap function that cannot be selected (or a selectable one that is not registered) is outside what the property quantifies over")
    mref = prog.func("run.model.ModelInstance.gap_function_callable")
    rv = list(fterms(prog, mref).of_kind("return"))
    okm = len(rv) == 1 and rv[0].value == ("index", ("global", P + "run.model.GAP_FUNCTIONS"), ("attr", ("param", "self"), "gap_function"))
    col.check(okm, mref.where(), mref.short, "the instance's gap function is GAP_FUNCTIONS[self.gap_function]", construct="gap-select", necessity="the configured name must select that function")
