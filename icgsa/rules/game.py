"""C17: the incomplete game object (G1-G8, H2) and the view-escape rule G6 over the whole package."""
from __future__ import annotations

import ast

from ..core import AnalysisError, AnchorMissing, FuncRef, Program
from ..report import Collector
from ..terms import Term, is_call_to, is_global, show, subterms
from .common import class_constant, const_of, fterms, has_subterm, short

CLS = "game.IncompleteCooperativeGame"
SELF = ("param", "self")
TABLE = ("attr", SELF, "_values")
VIEW_GETTERS = {"get_lower_bounds", "get_upper_bounds", "get_values", "get_interval", "get_intervals"}
INPLACE_FUNCS = ("numpy.place", "numpy.copyto", "numpy.put", "numpy.putmask", "numpy.put_along_axis")
INPLACE_METHODS = {"sort", "fill", "put", "resize", "itemset", "partition"}

# view mutation allow-list: one named symbol each, with the reason
VIEW_MUTATION_ALLOWED = {
    "normalize._normalize_icg": "its purpose is to rescale the bounds of the game it was given (C15/M4 relies on the views)",
    "generators.xos": "mutates value vectors of temporary additive games that are discarded afterwards",
}


def _based_on(t, table) -> bool:
    """t is table, or an index/attribute chain rooted at it (a view of the table)."""
    while isinstance(t, tuple):
        if t == table:
            return True
        if t[0] in ("index", "attr"):
            t = t[1]
        else:
            return False
    return False


class GameModel:
    """Column constants and per-method table accesses of IncompleteCooperativeGame."""

    def __init__(self, prog: Program) -> None:
        self.prog = prog
        self.mod, self.cls = prog.cls(CLS)
        self.methods = prog.methods(CLS)
        self.consts: dict[str, int] = {}
        for n in self.cls.body:
            if isinstance(n, ast.Assign) and len(n.targets) == 1 and isinstance(n.targets[0], ast.Name) \
                    and isinstance(n.value, ast.Constant) and isinstance(n.value.value, int):
                self.consts[n.targets[0].id] = n.value.value
            elif isinstance(n, ast.Assign) and len(n.targets) == 1 and isinstance(n.targets[0], ast.Name):
                # X = Enum.MEMBER or int(Enum.MEMBER): a member of a package IntEnum is its integer
                v = n.value.args[0] if isinstance(n.value, ast.Call) and isinstance(n.value.func, ast.Name) and n.value.func.id == "int" and len(n.value.args) == 1 else n.value
                q = prog.resolve(self.mod, v) if isinstance(v, ast.Attribute) else None
                named, val = prog.named_constant(q) if q else (False, None)
                if named and type(val) is int:
                    self.consts[n.targets[0].id] = val
            elif isinstance(n, ast.Assign) and len(n.targets) == 1 and isinstance(n.targets[0], ast.Tuple) and all(isinstance(t, ast.Name) for t in n.targets[0].elts) \
                    and isinstance(n.value, ast.Call) and isinstance(n.value.func, ast.Name) and n.value.func.id == "map" and len(n.value.args) == 2 \
                    and isinstance(n.value.args[0], ast.Name) and n.value.args[0].id == "int":
                # a, b, c = map(int, Enum): the members in definition order
                q = prog.resolve(self.mod, n.value.args[1])
                members = prog.int_enum_members(prog.chase(q)) if q else None
                if members is not None and len(members) == len(n.targets[0].elts):
                    for t, val in zip(n.targets[0].elts, members.values()):
                        self.consts[t.id] = val

    def method(self, name: str) -> FuncRef:
        if name not in self.methods:
            raise AnchorMissing(f"IncompleteCooperativeGame.{name} not found")
        return self.methods[name]

    def col_value(self, t: Term):
        """Integer column denoted by a column term (class constant through self / the class, or a literal)."""
        if t[0] == "const" and isinstance(t[1], int):
            return t[1]
        if t[0] == "attr" and t[2] in self.consts and (t[1] == SELF or is_global(t[1]) or t[1][0] in ("param", "call", "unknown")):
            return self.consts[t[2]]
        if t[0] == "global" and t[1].rsplit(".", 1)[-1] in self.consts:
            return self.consts[t[1].rsplit(".", 1)[-1]]
        return None

    def table_access(self, t: Term, table: Term = TABLE):
        """(row term, column | ('slice', lo, hi)) if t is ``table[row, col]``."""
        if t[0] == "index" and t[1] == table and t[2][0] == "tuple" and len(t[2][1]) == 2:
            row, c = t[2][1]
            if c[0] == "slice":
                lo = self.col_value(c[1]) if c[1] is not None else None
                hi = c[2]
                hiv = None
                if hi is not None:
                    if hi[0] == "bin" and hi[1] == "+" and hi[3] == ("const", 1):
                        v = self.col_value(hi[2])
                        hiv = None if v is None else v + 1
                    else:
                        hiv = self.col_value(hi)
                return row, ("slice", lo, hiv)
            return row, self.col_value(c)
        return None

    def reads(self, ref: FuncRef, table: Term = TABLE) -> list:
        ft = fterms(self.prog, ref)
        out = []
        seen = set()
        for ev in ft.events:
            for k, v in ev.data.items():
                if k in ("target", "obj", "index") or not isinstance(v, tuple):
                    continue
                for s in subterms(v):
                    a = self.table_access(s, table)
                    if a is not None and (s,) not in seen:
                        seen.add((s,))
                        out.append((ev, s, a))
        return out

    def stores(self, ref: FuncRef, table: Term = TABLE) -> list:
        ft = fterms(self.prog, ref)
        out = []
        for ev in list(ft.of_kind("store")) + list(ft.of_kind("aug")):
            a = self.table_access(ev.target, table)
            if a is not None:
                out.append((ev, a))
            elif _based_on(ev.target, table):
                out.append((ev, None))
        return sorted(out, key=lambda x: x[0].seq)


def rule_c17_columns(prog: Program, col: Collector) -> None:
    gm = GameModel(prog)
    cname = "game.IncompleteCooperativeGame"
    col.rule("G1", "column discipline: three distinct column constants inside the allocated width; every accessor uses its column; set_value writes flag=1 and the same value to both bounds", 14)
    # columns are *defined* by the scalar accessors
    def single_read_col(name: str):
        ref = gm.method(name)
        rd = [a for _, _, a in gm.reads(ref)]
        cols = {a[1] for a in rd if not isinstance(a[1], tuple)}
        return ref, cols, rd

    lref, lcols, _ = single_read_col("get_lower_bound")
    uref, ucols, _ = single_read_col("get_upper_bound")
    kref, kcols, _ = single_read_col("is_value_known")
    if len(lcols) != 1 or len(ucols) != 1 or len(kcols) != 1 or None in lcols | ucols | kcols:
        raise AnalysisError(f"scalar accessors do not read exactly one table column each: L={lcols} U={ucols} K={kcols}")
    L, U, K = next(iter(lcols)), next(iter(ucols)), next(iter(kcols))
    col.check(len({L, U, K}) == 3, gm.mod.rel() + f":{gm.cls.lineno}", cname, f"known/lower/upper columns are distinct ({K}, {L}, {U})",
              construct="columns-distinct", necessity="two roles sharing a column corrupt each other on every write")
    # allocation width
    init = gm.method("__init__")
    ift = fterms(prog, init)
    width = None
    for ev in ift.of_kind("store"):
        if ev.attr == "_values" and ev.obj == SELF and is_call_to(ev.value, "numpy.zeros", "numpy.empty", "numpy.full") and ev.value[2]:
            shape = ev.value[2][0]
            if shape[0] == "tuple" and len(shape[1]) == 2 and shape[1][1][0] == "const":
                width = shape[1][1][1]
                rows = shape[1][0]
                ok_rows = rows == ("bin", "**", ("const", 2), ("attr", SELF, "number_of_players")) or \
                    rows == ("bin", "<<", ("const", 1), ("attr", SELF, "number_of_players")) or \
                    rows == ("bin", "**", ("const", 2), ("param", "number_of_players"))
                col.check(ok_rows, init.where(ev.node), init.short, "table has 2**number_of_players rows", construct="table-rows",
                          necessity="one row per coalition id")
    if width is None:
        raise AnalysisError("allocation of _values (np.zeros((2**n, w))) not recognised in __init__")
    col.check(all(0 <= c < width for c in (L, U, K)), init.where(), init.short, f"all columns inside the allocated width {width}",
              construct="columns-in-width", necessity="a column outside the table raises or aliases another column")
    col.check(any(e.name == "_init_values" and e.recv == SELF for e in ift.calls()), init.where(), init.short,
              "__init__ initialises the table (empty coalition known, value 0)", construct="init-calls-init-values",
              necessity="the empty coalition starts known with value 0")

    def expect_reads(name: str, want, what: str) -> None:
        ref = gm.method(name)
        rd = gm.reads(ref)
        cols = {a[1] for _, _, a in rd}
        col.check(cols == want, ref.where(), ref.short, f"{name} reads {what} (columns {sorted(map(str, cols))})",
                  construct=f"reads:{name}", necessity="an accessor that reads another role's column returns wrong bounds to every caller")

    expect_reads("get_lower_bounds", {L}, "the lower column")
    expect_reads("get_upper_bounds", {U}, "the upper column")
    expect_reads("are_values_known", {K}, "the known column")
    expect_reads("get_interval", {("slice", min(L, U), max(L, U) + 1)}, "the [lower, upper] slice")
    expect_reads("get_intervals", {("slice", min(L, U), max(L, U) + 1)}, "the [lower, upper] slice")
    col.check(L < U, gm.method("get_interval").where(), "game.IncompleteCooperativeGame.get_interval",
              "lower column precedes upper column so the interval slice is (lower, upper)", construct="interval-order",
              necessity="a reversed slice returns (upper, lower)")
    # are_values_known compares with 1
    aft = fterms(prog, gm.method("are_values_known"))
    rets = list(aft.of_kind("return"))
    okc = bool(rets) and rets[-1].value[0] == "cmp" and rets[-1].value[1] == "==" and rets[-1].value[3] == ("const", 1)
    col.check(okc or (bool(rets) and is_call_to(rets[-1].value, "numpy.asarray", "numpy.array") or (bool(rets) and rets[-1].value[0] == "call"
              and rets[-1].value[1][0] == "attr" and rets[-1].value[1][2] == "astype")),
              gm.method("are_values_known").where(), "game.IncompleteCooperativeGame.are_values_known",
              "are_values_known returns a boolean array (flag == 1)", construct="known-bool",
              necessity="np.invert / boolean indexing on a float flag column misbehaves")

    def expect_stores(name: str, want: dict, value_pred=None) -> None:
        """want: column -> description of the value ('param:<name>' | 'const:<v>')."""
        ref = gm.method(name)
        st = gm.stores(ref)
        got: dict = {}
        for ev, a in st:
            if a is None:
                col.undecidable(ref.where(ev.node), ref.short, f"table store not of the form _values[row, col]: {short(ev.target, 80)}", rule="G1")
                continue
            got.setdefault(a[1], []).append(ev)
        col.check(set(got) == set(want), ref.where(), ref.short,
                  f"{name} writes exactly columns {sorted(want)} (found {sorted(map(str, got))})", construct=f"store-cols:{name}",
                  necessity="a setter that misses or adds a column breaks 'a known coalition has lower = upper = value, flag 1'")
        for c, desc in want.items():
            for ev in got.get(c, []):
                kind, _, val = desc.partition(":")
                if kind == "param":
                    okv = ev.value == ("param", val)
                else:
                    okv = ev.value == ("const", int(val))
                col.check(okv and ev.kind == "store", ref.where(ev.node), ref.short,
                          f"{name}: column {c} <- {desc}", construct=f"store-val:{name}:{c}",
                          necessity="both bounds of a known coalition must equal the value given; the flag must be exactly 1 / 0")

    sv = gm.method("set_value").positional_params()
    expect_stores("set_value", {U: f"param:{sv[1]}", L: f"param:{sv[1]}", K: "const:1"})
    expect_stores("unset_value", {U: "const:0", L: "const:0", K: "const:0"})
    sub = gm.method("set_upper_bound").positional_params()
    expect_stores("set_upper_bound", {U: f"param:{sub[1]}"})
    slb = gm.method("set_lower_bound").positional_params()
    expect_stores("set_lower_bound", {L: f"param:{slb[1]}"})
    # row index of the scalar setters is the coalition's id
    for name in ("set_value", "unset_value", "set_upper_bound", "set_lower_bound"):
        ref = gm.method(name)
        cpar = ref.positional_params()[-1]
        for ev, a in gm.stores(ref):
            if a is not None:
                col.check(a[0] == ("attr", ("param", cpar), "id"), ref.where(ev.node), ref.short,
                          f"{name} writes the row of its coalition argument", construct=f"store-row:{name}",
                          necessity="a write to another row corrupts that coalition")
    # set_values: in every branch the three columns
    ref = gm.method("set_values")
    vals = ("param", ref.positional_params()[1])
    st = gm.stores(ref)
    by_branch: dict = {}
    for ev, a in st:
        br = tuple((id(f[3]), f[2]) for f in ev.ctx if f[0] == "if")
        by_branch.setdefault(br, []).append((ev, a))
    col.check(len(by_branch) >= 1 and all(a is not None for _, a in st), ref.where(), ref.short, "set_values stores are of the form _values[rows, col]",
              construct="set_values-form", necessity="a store that is not a (rows, column) access of the table cannot be checked for column discipline")
    def materialised(t) -> bool:
        """A copy of the values argument taken before any write: np.array(values[, dtype]) / np.asarray(..).copy() / values.copy() / np.fromiter(values, ..)."""
        if is_call_to(t, "numpy.array", "numpy.fromiter", "numpy.copy") and t[2] and t[2][0] == vals and dict(t[3]).get("copy") != ("const", False):
            return True
        return t[0] == "call" and t[1][0] == "attr" and t[1][2] == "copy" and (t[1][1] == vals or (is_call_to(t[1][1], "numpy.asarray", "numpy.array") and t[1][1][2][:1] == (vals,)))
    for br, items in by_branch.items():
        cols = {a[1]: ev for ev, a in items if a is not None}
        src_vals = {cols[c].value for c in (U, L) if c in cols}
        one_source = len(src_vals) == 1 and (vals in src_vals or all(materialised(v) for v in src_vals))
        okb = set(cols) == {U, L, K} and one_source and cols[K].value == ("const", 1)
        col.check(okb, ref.where(items[0][0].node), ref.short, "set_values branch writes value to both bounds and flag 1",
                  construct="set_values-branch", necessity="bulk set must leave lower = upper = value and the known flag set")
        # terms carry no time: `values` read for the second column is the same TERM as for the first, but if it is a view of this table it is no longer
        # the same ARRAY once the first column has been written
        if set(cols) >= {U, L} and vals in src_vals:
            col.check(False, ref.where(items[0][0].node), ref.short,
                      "both bound columns are written from ONE reading of the values argument (a copy taken before the first write)",
                      construct="bulk-set-rereads-argument",
                      necessity="the getters hand out views of the table: g.set_values(g.get_values()[::-1]) writes the upper column and then reads the argument again - through "
                                "the column it has just changed - for the lower one; known coalitions end up with lower != upper (the F11 class, in the sibling setter)")
        rows = {a[0] for ev, a in items if a is not None}
        col.check(len(rows) == 1, ref.where(items[0][0].node), ref.short, "set_values branch writes the same rows in all three columns",
                  construct="set_values-rows", necessity="flag and bounds of different rows would disagree")
        def alternatives(r):
            """A row selector chosen by a conditional (`rows = slice(None)`, re-bound under `if coalitions is not None`) is each of its values."""
            if r[0] in ("ifexp", "phi"):
                return alternatives(r[2]) + alternatives(r[3])
            return [r]
        cpar = ("param", ref.positional_params()[2])
        none_test = ("cmp", "is", cpar, ("const", None))

        def conditioned(r, conds):
            """(alternative, conditions it is chosen under): the guards of the branch plus the tests of the conditionals that select it."""
            if r[0] in ("ifexp", "phi") and len(r) > 3:
                return conditioned(r[2], conds + [(r[1], True)]) + conditioned(r[3], conds + [(r[1], False)])
            return [(r, conds)]
        guards = [(f[1], f[2]) for f in items[0][0].ctx if f[0] == "if"]
        for row, conds in [x for r in rows for x in conditioned(r, list(guards))]:
            want = [(none_test, row[0] == "slice")]
            if conds:
                col.check(conds == want, ref.where(items[0][0].node), ref.short,
                          "set_values writes the whole table exactly when no coalitions are given, and the rows of the given coalitions otherwise "
                          f"(this path is chosen under {[(short(c, 50), pol) for c, pol in conds]})", construct="set_values-dispatch",
                          necessity="a full-length value vector given WITH a coalition list still belongs to those coalitions in the given order: deciding by anything but "
                                    "`coalitions is None` (the length of the values, a flag) lays a bulk reset that lists all coalitions in another order down in id order")
        for row in [alt for r in rows for alt in alternatives(r)]:
            if row[0] == "slice":
                continue
            core = row
            while is_call_to(core, "numpy.fromiter", "numpy.array", "numpy.asarray", "list") and core[2]:
                core = core[2][0]
            ordered = False
            if is_call_to(core, "map") and len(core[2]) == 2 and core[2][0][0] == "lambda" and core[2][0][2] == ("attr", core[2][0][1][0], "id") and core[2][1] == cpar:
                ordered = True
            if core[0] == "comp" and len(core[3]) == 1 and core[3][0][1] == cpar and not core[3][0][2] and core[2] == ("attr", core[3][0][0], "id"):
                ordered = True
            col.check(ordered, ref.where(items[0][0].node), ref.short,
                      "selective set_values addresses rows by the ids of the given coalitions IN THE GIVEN ORDER (an id array, not a boolean mask)",
                      construct="set_values-order",
                      necessity="a boolean mask hands the values out in increasing id order: values[i] no longer lands on coalitions[i] unless the list happens to be sorted")


def _check_selection_helper(prog: Program, col: Collector, gm) -> None:
    """The helper every selective getter goes through: whole column iff no coalitions were given, else the rows of the given ids in the given order."""
    if "_filter_out_coalitions" not in gm.methods:
        col.note("no _filter_out_coalitions helper: the selective getters index the table themselves (G1 checks their columns)")
        return
    ref = gm.methods["_filter_out_coalitions"]
    ft = fterms(prog, ref)
    pp = [x for x in ref.positional_params() if x != "self"]        # a method, or a @staticmethod without self
    if len(pp) < 2:
        raise AnalysisError("_filter_out_coalitions does not take (values, coalitions)")
    vals, coals = ("param", pp[0]), ("param", pp[1])
    rets = list(ft.of_kind("return"))
    none_test = ("cmp", "is", coals, ("const", None))
    # the function as one formula (early returns folded, helpers read through): vals if coalitions is None else vals[ids]
    res = ft.result()
    if res[0] == "ifexp" and res[1] == none_test:
        class _R:       # the two alternatives in the shape the checks below expect
            def __init__(self, value, pol):
                self.value, self.ctx = value, (("if", none_test, pol, None),)
        rets = [_R(res[2], True), _R(res[3], False)]
    whole = [r for r in rets if r.value == vals]
    picked = [r for r in rets if r.value[0] == "index" and r.value[1] == vals]
    ok_whole = len(whole) == 1 and [(f[1], f[2]) for f in whole[0].ctx if f[0] == "if"] == [(none_test, True)]
    ok_pick = False
    if len(picked) == 1:
        idx = picked[0].value[2]
        guards = [(f[1], f[2]) for f in picked[0].ctx if f[0] == "if"]
        ids_in_order = False
        for t in subterms(idx):
            if is_call_to(t, "map") and len(t[2]) == 2 and t[2][1] == coals and t[2][0][0] == "lambda":
                ids_in_order = True
            if t[0] == "comp" and len(t[3]) == 1 and t[3][0][1] == coals and not t[3][0][2] and t[2] == ("attr", t[3][0][0], "id"):
                ids_in_order = True
        reordered = any(is_call_to(t, "sorted", "set", "frozenset", "numpy.unique", "numpy.sort") for t in subterms(idx))
        ok_pick = ids_in_order and not reordered and guards == [(none_test, False)]
    col.check(ok_whole and ok_pick and len(rets) == 2, ref.where(), ref.short,
              "returns the whole column iff coalitions is None, otherwise exactly values[ids of the given coalitions, in the given order] - on every path",
              construct="selection-helper", rule="G2",
              necessity="every selective getter answers position i for the i-th requested coalition: a shortcut that returns the column in id order (or any "
                        "other data-dependent path) attaches values and known-flags to the wrong coalitions whenever the request is not in ascending id order")


def rule_c17_getters(prog: Program, col: Collector) -> None:
    gm = GameModel(prog)
    col.rule("G2", "guarded getters: get_value/get_values raise on unknown; get_known_value -> None; get_known_values masks unknown entries on a copy", 5)
    # get_value: the return is dominated by the known-test
    ref = gm.method("get_value")
    ft = fterms(prog, ref)
    cpar = ("param", ref.positional_params()[1])

    def is_known_test(t: Term) -> bool:
        return t[0] == "call" and t[1] == ("attr", SELF, "is_value_known") and t[2] == (cpar,)

    def guard_polarity(ev) -> bool | None:
        for f in ev.ctx:
            if f[0] == "if":
                t, pol = f[1], f[2]
                while t[0] == "un" and t[1] == "not":
                    t, pol = t[2], not pol
                if is_known_test(t):
                    return pol
        return None
    rets = list(ft.of_kind("return"))
    raises = list(ft.of_kind("raise"))
    col.check(bool(rets) and all(guard_polarity(r) is True for r in rets) and any(guard_polarity(r) is False for r in raises),
              ref.where(), ref.short, "every return of get_value is on the known branch; the unknown branch raises",
              construct="get_value-guard", necessity="the value of an unknown coalition must never be returned as a value")
    # get_values: raise unless all requested known
    ref = gm.method("get_values")
    ft = fterms(prog, ref)
    raises = list(ft.of_kind("raise"))
    okg = False
    for r in raises:
        for f in r.ctx:
            if f[0] == "if":
                t, pol = f[1], f[2]
                while (t[0] == "un" and t[1] == "not") or (is_call_to(t, "bool") and len(t[2]) == 1):
                    if t[0] == "un":
                        t, pol = t[2], not pol
                    else:
                        t = t[2][0]
                if is_call_to(t, "numpy.all", "all") and t[2] and any(
                        s[0] == "call" and s[1] == ("attr", SELF, "are_values_known") for s in subterms(t[2][0])) and pol is False:
                    # the known-test must be about the requested coalitions
                    arg = [s for s in subterms(t[2][0]) if s[0] == "call" and s[1] == ("attr", SELF, "are_values_known")][0]
                    okg = bool(arg[2]) and has_subterm(arg[2][0], ("param", ref.positional_params()[1]))
    rets = list(ft.of_kind("return"))
    after = all(any(f[0] == "if" and len(f) > 4 for f in r.ctx) or True for r in rets)
    col.check(okg and bool(raises) and all(r.seq > raises[0].seq for r in rets), ref.where(), ref.short,
              "get_values raises unless all requested coalitions are known, before returning", construct="get_values-guard",
              necessity="bounds of unknown coalitions must never be returned as values")
    # get_known_value
    ref = gm.method("get_known_value")
    ft = fterms(prog, ref)
    cpar = ("param", ref.positional_params()[1])
    rets = list(ft.of_kind("return"))
    okk = False
    for r in rets:
        v = r.value
        if v[0] == "ifexp" and is_known_test(v[1]) and v[3] == ("const", None):
            okk = True
        if v[0] == "ifexp" and v[1][0] == "un" and is_known_test(v[1][2]) and v[2] == ("const", None):
            okk = True
    if not okk and rets:
        pols = [(guard_polarity(r), r.value) for r in rets]
        okk = all((p is True and v != ("const", None)) or (p is False and v == ("const", None)) for p, v in pols) and len(pols) >= 2
    col.check(okk, ref.where(), ref.short, "get_known_value returns the value when known and None otherwise", construct="get_known_value",
              necessity="an unknown coalition's bound must not be returned as a value")
    # get_known_values: np.place(None) at unknown positions, on a copy
    ref = gm.method("get_known_values")
    ft = fterms(prog, ref)
    places = [e for e in ft.calls() if is_global(e.func, "numpy.place", "numpy.putmask", "numpy.copyto")]
    okp = False
    for e in places:
        if len(e.args) >= 3:
            arr, mask, val = e.args[0], e.args[1], e.args[2]
            on_copy = any(is_call_to(s, "numpy.copy", "numpy.array") or (s[0] == "call" and s[1][0] == "attr" and s[1][2] == "copy")
                          for s in subterms(arr))
            inv = mask[0] == "un" and mask[1] == "~" and any(        # np.invert(m) / np.logical_not(m) are recorded as ~m
                s[0] == "call" and s[1] == ("attr", SELF, "are_values_known") for s in subterms(mask))
            nanv = val == ("const", None) or is_global(val, "numpy.nan") or val == ("call", ("global", "float"), (("const", "nan"),), ())
            okp = on_copy and inv and nanv
            col.check(on_copy, ref.where(e.node), ref.short, "the array masked in place is a copy of the table column",
                      construct="get_known_values-copy", necessity="masking the live column would destroy the bounds of unknown coalitions")
            col.check(inv and nanv, ref.where(e.node), ref.short, "exactly the unknown positions are replaced by None/NaN",
                      construct="get_known_values-mask", necessity="the value of an unknown coalition must not be returned as a value")
    if not places:
        # np.where(known, values, nan) form
        rets = list(ft.of_kind("return"))
        okw = any(is_call_to(r.value, "numpy.where") and len(r.value[2]) == 3 for r in rets)
        if okw:
            col.ok(ref.where(), ref.short, "get_known_values built with np.where(known, values, nan)")
        else:
            col.undecidable(ref.where(), ref.short, "get_known_values: neither np.place on a copy nor np.where form")

    col.rule("G3", "bulk bound setters: the only table write is a where=-masked copy whose mask has invert(are_values_known()) as a conjunct", 2)
    # columns as defined by the scalar setters
    for name, scalar in (("set_upper_bounds", "set_upper_bound"), ("set_lower_bounds", "set_lower_bound")):
        ref = gm.method(name)
        ft = fterms(prog, ref)
        want_col = [a[1] for _, a in gm.stores(gm.method(scalar)) if a is not None]
        st = gm.stores(ref)
        col.check(not st, ref.where(st[0][0].node if st else None), ref.short, f"{name} has no unmasked subscript store into the table",
                  construct=f"bulk-unmasked-store:{name}", necessity="bulk bound setters must never alter a known coalition")
        cps = [e for e in ft.calls() if is_global(e.func, "numpy.copyto", "numpy.putmask", "numpy.place")]
        if not cps:
            col.undecidable(ref.where(), ref.short, f"{name}: masked copy (np.copyto(..., where=...)) not found", rule="G3")
            continue
        for e in cps:
            dst = e.args[0] if e.args else None
            acc = gm.table_access(dst) if dst is not None else None
            col.check(acc is not None and want_col and acc[1] == want_col[0], ref.where(e.node), ref.short,
                      f"{name} copies into the column that {scalar} writes", construct=f"bulk-col:{name}",
                      necessity="a bulk setter writing the other bound's column corrupts it")
            mask = e.kwargs.get("where") if is_global(e.func, "numpy.copyto") else (e.args[1] if len(e.args) > 1 else None)
            okm = False
            if mask is not None:
                conj = _conjuncts(mask)
                okm = any(is_call_to(c, "numpy.invert", "numpy.logical_not") and len(c[2]) == 1 and
                          c[2][0] == ("call", ("attr", SELF, "are_values_known"), (), ()) for c in conj) or \
                    any(c[0] == "un" and c[1] == "~" and c[2] == ("call", ("attr", SELF, "are_values_known"), (), ()) for c in conj)
            col.check(okm, ref.where(e.node), ref.short, f"{name}: mask has 'not known' as a conjunct", construct=f"bulk-mask:{name}",
                      necessity="without the not-known conjunct a bulk bound set overwrites the value of known coalitions")
    _check_selection_helper(prog, col, gm)


def _conjuncts(t: Term) -> list[Term]:
    if t[0] == "bin" and t[1] in ("*", "&"):
        return _conjuncts(t[2]) + _conjuncts(t[3])
    if t[0] == "call" and is_global(t[1], "numpy.logical_and", "numpy.multiply", "numpy.bitwise_and") and len(t[2]) == 2:
        return _conjuncts(t[2][0]) + _conjuncts(t[2][1])
    return [t]


def rule_c17_copy_neg_init(prog: Program, col: Collector) -> None:
    gm = GameModel(prog)
    lcol = [a[1] for _, a in gm.stores(gm.method("set_lower_bound")) if a is not None]
    ucol = [a[1] for _, a in gm.stores(gm.method("set_upper_bound")) if a is not None]
    kcols = {a[1] for _, _, a in gm.reads(gm.method("is_value_known"))}
    if not lcol or not ucol or len(kcols) != 1:
        raise AnalysisError("column constants cannot be derived from the scalar accessors")
    L, U, K = lcol[0], ucol[0], next(iter(kcols))
    col.rule("G4", "copy() installs a fresh copy of the table; __neg__ works on a copy, reads from self, swaps and negates the bounds, keeps knowledge", 5)
    ref = gm.method("copy")
    ft = fterms(prog, ref)
    st = [e for e in ft.of_kind("store") if e.attr == "_values"]
    okc = any(is_call_to(e.value, "numpy.copy", "numpy.array") and e.value[2] and e.value[2][0] == TABLE or
              e.value == ("call", ("attr", TABLE, "copy"), (), ()) for e in st)
    ctor = [e for e in ft.calls() if is_global(e.func, "incomplete_cooperative.game.IncompleteCooperativeGame") or
            (e.func[0] == "call" and is_global(e.func[1], "type"))]
    if not st and ctor:
        col.undecidable(ref.where(), ref.short, "copy() does not assign _values (different idiom)")
    else:
        col.check(okc, ref.where(), ref.short, "copy()._values is np.copy(self._values)", construct="copy-aliases",
                  necessity="copies must be independent of the original: an aliased table makes every later write visible in both")
    if ctor:
        a = ctor[-1]
        okb = (len(a.args) >= 2 and a.args[1] == ("attr", SELF, "_bounds_computer")) or a.kwargs.get("bounds_computer") == ("attr", SELF, "_bounds_computer")
        okn = (a.args and a.args[0] == ("attr", SELF, "number_of_players")) or a.kwargs.get("number_of_players") == ("attr", SELF, "number_of_players")
        col.check(bool(okb and okn), ref.where(a.node), ref.short, "the copy has the same player count and bound computer",
                  construct="copy-ctor", necessity="a copy with another computer computes different bounds (MetaGame, gym normalisation rely on copies)")
    ref = gm.method("__neg__")
    ft = fterms(prog, ref)
    rets = list(ft.of_kind("return"))
    if not rets:
        raise AnalysisError("__neg__ has no return")
    retv = rets[-1].value
    col.check(retv == ("call", ("attr", SELF, "copy"), (), ()), ref.where(), ref.short, "__neg__ returns an object created by self.copy()",
              construct="neg-copy", necessity="negation must not modify or alias the original")
    rtable = ("attr", retv, "_values")
    st = gm.stores(ref, rtable)
    got = {}

    def col_list(t, table):
        """[c1, c2] when t is table[:, [k1, k2]] (one fancy-indexed access of two columns), else None."""
        if t[0] == "index" and t[1] == table and t[2][0] == "tuple" and len(t[2][1]) == 2 and t[2][1][0][0] == "slice" and t[2][1][1][0] == "list":
            cs = [gm.col_value(x) for x in t[2][1][1][1]]
            return cs if all(c is not None for c in cs) else None
        return None
    swapped = False
    for ev, a in st:
        if a is None or a[1] is None:
            # both columns in one simultaneous assignment: ret[:, [l, u]] = -self[:, [u, l]] (the right side is read completely, from self, before the write)
            dst = col_list(ev.target, rtable)
            srcs = col_list(ev.value[2], TABLE) if ev.kind == "store" and ev.value[0] == "un" and ev.value[1] == "-" else None
            if dst is not None and srcs is not None and len(dst) == len(srcs) == 2:
                pairs = dict(zip(dst, srcs))
                col.check(pairs == {L: U, U: L}, ref.where(ev.node), ref.short, "__neg__: lower <- -upper and upper <- -lower in one assignment, read from SELF",
                          construct="neg-swap", necessity="reading from the half-updated copy (swap hazard) or not swapping makes lower > upper and breaks the involution")
                swapped = True
            continue
        got[a[1]] = ev
    if swapped and not got:
        got = {L: None, U: None}
    col.check(set(got) == {L, U}, ref.where(), ref.short, f"__neg__ writes the two bound columns of the copy and not the known column (wrote {sorted(map(str, got))})",
              construct="neg-cols", necessity="negation keeps knowledge")
    for dst, srcc, nm in ((L, U, "lower <- -upper"), (U, L, "upper <- -lower")):
        ev = got.get(dst)
        if ev is None:
            continue
        v = ev.value
        okv = v[0] == "un" and v[1] == "-" and gm.table_access(v[2], TABLE) is not None and gm.table_access(v[2], TABLE)[1] == srcc
        col.check(okv, ref.where(ev.node), ref.short, f"__neg__: {nm}, read from SELF (not from the object being written)",
                  construct=f"neg-{dst}", necessity="reading from the half-updated copy (swap hazard) or not swapping makes lower > upper and breaks the involution")
    own = gm.stores(ref, TABLE)
    col.check(not own, ref.where(), ref.short, "__neg__ does not write self._values", construct="neg-writes-self", necessity="negation must return a new game and leave the receiver untouched (it is used on hidden games that are read again)")

    col.rule("G7", "set_known_values re-initialises the whole table before setting; _init_values clears everything and makes the empty coalition known with value 0", 3)
    ref = gm.method("set_known_values")
    ft = fterms(prog, ref)
    inits = [e for e in ft.calls("_init_values") if e.recv == SELF]
    sets = [e for e in ft.calls("set_values") if e.recv == SELF]
    col.check(bool(inits) and bool(sets) and inits[0].seq < sets[0].seq and not inits[0].guards(), ref.where(), ref.short,
              "_init_values() precedes set_values(...) unconditionally", construct="reset-order",
              necessity="leftover rows of the previous knowledge state survive a bulk reset (history leaks into bounds and knowledge)")
    if sets:
        p = ref.positional_params()
        a = sets[0].args
        okp = len(a) >= 2 and has_subterm(a[0], ("param", p[1])) and has_subterm(a[1], ("param", p[2])) and not has_subterm(a[0], ("param", p[2])) \
            and not has_subterm(a[1], ("param", p[1]))
        # both arguments may be views of, or generators over, this very game (g.set_known_values(g.get_values()), get_known_coalitions(g)):
        # they must be turned into independent arrays / lists BEFORE the table is cleared
        if inits:
            mat = [e for e in ft.calls() if e.seq < inits[0].seq and (is_call_to(e.term, "numpy.fromiter", "numpy.array", "list", "tuple", "numpy.asarray", "numpy.copy"))]
            COPYING = ("numpy.fromiter", "numpy.array", "list", "tuple", "numpy.copy")

            def every_path_copies(t, par) -> bool:
                """Every alternative of the value handed on is a copying materialisation of the parameter (None passes through for the optional list)."""
                if t[0] in ("phi", "ifexp"):
                    return every_path_copies(t[2], par) and every_path_copies(t[3], par)
                if t == ("const", None):
                    return True
                return is_call_to(t, *COPYING) and has_subterm(t, par) and not (is_call_to(t, "numpy.array") and dict(t[3]).get("copy") == ("const", False))
            vals_ok = any(has_subterm(e.term, ("param", p[1])) and not is_call_to(e.term, "numpy.asarray") for e in mat) and every_path_copies(a[0], ("param", p[1]))
            coal_ok = any(has_subterm(e.term, ("param", p[2])) and not is_call_to(e.term, "numpy.asarray") for e in mat) and every_path_copies(a[1], ("param", p[2]))
            col.check(vals_ok and coal_ok, ref.where(inits[0].node), ref.short,
                      "the given values and coalitions are copied out (np.fromiter / list) before _init_values() clears the table", construct="reset-args-materialised",
                      necessity="the getters hand out live views and lazy generators over this table: g.set_known_values(g.get_values()) would read zeros after the reset and leave "
                                "every coalition known with value 0; a generator over the game's known coalitions would find none")
        col.check(okp, ref.where(sets[0].node), ref.short, "set_values receives the given values and coalitions",
                  construct="reset-args", necessity="set_known_values must forward exactly the given values and coalitions to set_values: otherwise values are attached to other coalitions")
    ref = gm.method("_init_values")
    ft = fterms(prog, ref)
    fills = [e for e in ft.calls("fill") if e.recv == TABLE and e.args == (("const", 0),)]
    zero_store = [e for e in ft.of_kind("store") if e.target == ("index", TABLE, ("slice", None, None, None)) and e.value == ("const", 0)]
    col.check(bool(fills) or bool(zero_store), ref.where(), ref.short, "_init_values zeroes the whole table", construct="init-fill",
              necessity="rows not cleared keep stale flags and bounds")
    sv = [e for e in ft.calls("set_value") if e.recv == SELF]
    oke = False
    for e in sv:
        if len(e.args) == 2 and e.args[0] == ("const", 0):
            c = e.args[1]
            oke = is_call_to(c, "incomplete_cooperative.coalitions.Coalition") and c[2] == (("const", 0),) or \
                (is_call_to(c, "incomplete_cooperative.coalitions.Coalition.from_players") and c[2] and c[2][0][0] in ("list", "tuple", "set") and not c[2][0][1])
            first = (fills or zero_store)
            oke = oke and (not first or first[0].seq < e.seq)
    col.check(oke, ref.where(), ref.short, "after clearing, the empty coalition is set known with value 0", construct="init-empty",
              necessity="the empty coalition starts known with value 0 (every computer asserts it)")

    col.rule("G8", "reveal_value requires unknown then sets; unreveal_value requires known then unsets", 2)
    for name, setter, pol in (("reveal_value", "set_value", False), ("unreveal_value", "unset_value", True)):
        ref = gm.method(name)
        ft = fterms(prog, ref)
        cpar = ("param", ref.positional_params()[-1])
        calls = [e for e in ft.calls(setter) if e.recv == SELF]
        okcall = bool(calls) and calls[0].args[-1] == cpar
        if setter == "set_value" and calls:
            okcall = okcall and calls[0].args[0] == ("param", ref.positional_params()[1])
        pre = False
        for e in list(ft.of_kind("assert")):
            t, p = e.test, True
            while t[0] == "un" and t[1] == "not":
                t, p = t[2], not p
            if t == ("call", ("attr", SELF, "is_value_known"), (cpar,), ()) and p == pol and calls and e.seq < calls[0].seq:
                pre = True
        for e in calls:
            for f in e.ctx:
                if f[0] == "if":
                    t, p = f[1], f[2]
                    while t[0] == "un" and t[1] == "not":
                        t, p = t[2], not p
                    if t == ("call", ("attr", SELF, "is_value_known"), (cpar,), ()) and p == pol:
                        pre = True
        col.check(okcall, ref.where(), ref.short, f"{name} calls self.{setter} with its own arguments", construct=f"{name}-call",
                  necessity="reveal must store the given value for the given coalition; un-reveal must clear exactly that coalition")
        col.check(pre, ref.where(), ref.short, f"{name} checks the knowledge precondition first", construct=f"{name}-pre",
                  necessity="revealing a known / un-revealing an unknown coalition silently corrupts the trajectory bookkeeping")


def _chain_has_values(t) -> bool:
    while isinstance(t, tuple):
        if t[0] == "attr" and t[2] == "_values":
            return True
        if t[0] in ("index", "attr"):
            t = t[1]
        else:
            return False
    return False


def rule_c17_writers(prog: Program, col: Collector) -> None:
    """G5 who may write _values; G6 view escape over the whole package."""
    col.rule("G5", "only methods of IncompleteCooperativeGame write the value table", 1)
    gm = GameModel(prog)
    n = 0
    # a private function of game.py that only methods of the class call (a method body moved to module level) belongs to the class
    callers: dict[str, set] = {}
    for r in prog.all_functions():
        for c in ast.walk(r.node):
            if isinstance(c, ast.Call) and isinstance(c.func, ast.Name):
                callers.setdefault(c.func.id, set()).add((r.module.name, r.cls.name if r.cls is not None else None))
    for fref in prog.all_functions():
        ft = fterms(prog, fref)
        inside = fref.cls is not None and fref.cls.name == gm.cls.name and fref.module.name == gm.mod.name
        if not inside and fref.cls is None and fref.module.name == gm.mod.name and fref.node.name.startswith("_") and prog.inlinable(fref) \
                and callers.get(fref.node.name) and callers[fref.node.name] <= {(gm.mod.name, gm.cls.name)}:
            inside = True
        for ev in list(ft.of_kind("store")) + list(ft.of_kind("aug")):
            tgt = ev.target
            touches = _chain_has_values(tgt)
            if ev.kind == "store" and ev.attr == "_values":
                touches = True
            if not touches:
                continue
            n += 1
            col.check(inside, fref.where(ev.node), fref.short, "write to a game's _values happens inside IncompleteCooperativeGame",
                      construct="outside-writer", necessity="an outside writer bypasses flag/bounds consistency (lower = upper = value for known rows)")
        for ev in ft.calls():
            if is_global(ev.func, *INPLACE_FUNCS) and ev.args and _chain_has_values(ev.args[0]):
                n += 1
                col.check(inside, fref.where(ev.node), fref.short, "in-place numpy write on _values happens inside IncompleteCooperativeGame",
                          construct="outside-writer", necessity="only the game class may write its table: an outside writer bypasses every setter's column and knowledge discipline")
    if n == 0:
        raise AnalysisError("no write to _values found anywhere: anchor vanished")

    check_view_escape(prog, col, gm)


def check_view_escape(prog: Program, col: Collector, gm, scope_files: set[str] | None = None) -> None:
    """G6.  With ``scope_files`` only functions of those files are reported (hygiene use under other properties)."""
    col.rule("G6", "results of view-returning getters are never mutated in place outside the allow-list", 1)
    # which getters return views of the table: derived from the class
    views = set()
    for name in VIEW_GETTERS:
        if name in gm.methods:
            ft = fterms(prog, gm.methods[name])
            for r in ft.of_kind("return"):
                v = r.value
                is_copy = is_call_to(v, "numpy.copy", "numpy.array") or (v[0] == "call" and v[1][0] == "attr" and v[1][2] == "copy")
                if not is_copy:
                    views.add(name)
    col.note(f"view-returning getters derived from the class: {sorted(views)}")

    def view_root(t: Term) -> str | None:
        if not isinstance(t, tuple):
            return None
        if t[0] == "call" and t[1][0] == "attr" and t[1][2] in views:
            args = t[2]
            if t[1][2] in ("get_interval",) or not args or args == (("const", None),):
                return t[1][2]
            return None     # fancy-indexed by coalitions: a copy
        if t[0] == "index":
            idx = t[2]
            if idx[0] in ("const", "slice", "elem") or (idx[0] == "tuple" and all(x[0] in ("const", "slice", "elem") for x in idx[1])):
                return view_root(t[1])
            return None
        if t[0] == "elem":
            it = t[1]
            while it[0] == "call" and is_global(it[1], "list", "tuple", "iter", "reversed") and it[2]:
                it = it[2][0]
            if it[0] == "comp":
                return view_root(it[2])
            if it[0] in ("list", "tuple"):
                for x in it[1]:
                    r = view_root(x)
                    if r:
                        return r
            return None
        if t[0] in ("phi", "ifexp"):
            return view_root(t[2]) or view_root(t[3])
        return None

    found = 0
    # positive control: a tiny built-in example that must match
    ctrl = ("call", ("attr", ("param", "g"), "get_upper_bounds"), (), ())
    if "get_upper_bounds" in views and view_root(("index", ctrl, ("slice", None, None, None))) != "get_upper_bounds":
        raise AnalysisError("G6 positive control failed")
    for fref in prog.all_functions():
        if fref.cls is not None and fref.cls.name == gm.cls.name:
            continue
        if scope_files is not None and fref.module.rel() not in scope_files:
            continue
        ft = fterms(prog, fref)
        hits = []
        for ev in ft.of_kind("aug"):
            r = view_root(ev.target) if ev.data.get("name") else (view_root(ev.obj) if ev.index is not None else None)
            if r:
                hits.append((ev, f"augmented assignment on the result of {r}()"))
        for ev in ft.of_kind("store"):
            if ev.index is not None:
                r = view_root(ev.obj)
                if r:
                    hits.append((ev, f"subscript store into the result of {r}()"))
        for ev in ft.calls():
            if is_global(ev.func, *INPLACE_FUNCS) and ev.args:
                r = view_root(ev.args[0])
                if r:
                    hits.append((ev, f"{ev.func[1]} on the result of {r}()"))
            if ev.recv is not None and ev.name in INPLACE_METHODS:
                r = view_root(ev.recv)
                if r:
                    hits.append((ev, f".{ev.name}() on the result of {r}()"))
            o = ev.kwargs.get("out")
            if o is not None and view_root(o):
                hits.append((ev, "out= the result of a view getter"))
        for ev, what in hits:
            found += 1
            allowed = fref.short in VIEW_MUTATION_ALLOWED
            if allowed:
                col.ok(fref.where(ev.node), fref.short, f"{what} - allow-listed: {VIEW_MUTATION_ALLOWED[fref.short]}", rule="G6")
            else:
                col.violation(fref.where(ev.node), fref.short, f"view-mutation:{what.split(' on ')[0]}", what,
                              "getters hand out live views of the table: an in-place operation on one silently rewrites bounds/values "
                              "of the game (known rows included), bypassing every setter", rule="G6")
    if found == 0:
        col.ok("-", "package", "no in-place mutation of a getter view anywhere (positive control matched)", rule="G6")


def rule_c17_compute_and_state(prog: Program, col: Collector) -> None:
    """G9: compute_bounds always runs the computer; the game object holds no state besides the table."""
    gm = GameModel(prog)
    col.rule("G9", "compute_bounds() unconditionally calls the bound computer on self; the object keeps no state besides number_of_players, _bounds_computer and the table", 2)
    ref = gm.method("compute_bounds")
    ft = fterms(prog, ref)
    calls = [e for e in ft.calls() if e.func == ("attr", SELF, "_bounds_computer") and e.args == (SELF,)]
    guards = [f for e in calls for f in e.ctx if f[0] in ("if", "for", "while", "try")]
    early = [e for e in ft.of_kind("return") if calls and e.seq < calls[0].seq]
    col.check(len(calls) == 1 and not guards and not early, ref.where((early or calls or [None])[0].node if (early or calls) else None), ref.short,
              "compute_bounds() = self._bounds_computer(self), on every call", construct="compute-bounds-conditional",
              necessity="a compute that is skipped when 'nothing changed' (same known set, dirty flag, ...) leaves the bounds of an earlier knowledge state in place: "
                        "the same coalitions can be known with other values after a bulk reset, and un-reveal + reveal restores the flag pattern but not the bounds")
    # ... and nothing else: the stored intervals are the computer's, not post-processed
    post = [e for e in list(ft.of_kind("store")) + list(ft.of_kind("aug")) if e.data.get("index") is not None or e.data.get("attr") is not None]
    post += [e for e in ft.calls() if e.recv == SELF and e.name in gm.methods and e.name.startswith(("set_", "unset_", "reveal", "unreveal", "_init"))]
    post += [e for e in ft.calls() if is_global(e.func, "numpy.place", "numpy.put", "numpy.copyto", "numpy.putmask")]
    col.check(not post, ref.where(post[0].node if post else None), ref.short,
              "compute_bounds() stores nothing itself: the intervals in the table are exactly what the registered computer wrote",
              construct="compute-bounds-postprocess",
              necessity="closing `nearly degenerate` intervals (np.isclose has a relative tolerance of 1e-5), clipping or rounding after the computer moves a bound past a value "
                        "the true game may take: the interval no longer contains it, and a later reveal makes the interval grow again")
    allowed = {"number_of_players", "_bounds_computer", "_values"}
    extra = []
    for name, m in gm.methods.items():
        for e in list(fterms(prog, m).of_kind("store")) + list(fterms(prog, m).of_kind("aug")):
            if e.obj == SELF and e.attr is not None and e.attr not in allowed:
                extra.append((m, e))
    col.check(not extra, (extra[0][0].where(extra[0][1].node) if extra else gm.mod.rel()), "game.IncompleteCooperativeGame",
              "no per-object state besides the table (found: " + ", ".join(sorted({e.attr for _, e in extra})) + ")" if extra else "no per-object state besides the table",
              construct="extra-object-state",
              necessity="caches, dirty flags and memoised bounds on the game object let the operation history leak into what the getters return")


# ------------------------------------------------------------------------------------------------ the game object as substrate
_SUBSTRATE_CACHE: dict = {}
_CLASS = CLS.rsplit('.', 1)[-1]
_OPERATOR_METHODS = {ast.USub: "__neg__", ast.Add: "__add__", ast.Eq: "__eq__", ast.NotEq: "__eq__"}


def game_methods_used(prog: Program, pid: str) -> set[str]:
    """Methods of IncompleteCooperativeGame that the code of a property can run: every method of the class whose name is called (on any receiver:
    receiver types are not inferred, so this over-approximates) in a function of the property's anchor files or in a package function reachable
    from one through resolved calls (depth 3), closed under the calls the methods make on ``self``; ``__init__`` when the class is instantiated."""
    key = (id(prog), pid)
    if key in _SUBSTRATE_CACHE:
        return _SUBSTRATE_CACHE[key]
    from .common import resolve_callee
    from .hygiene import anchor_files
    gm = GameModel(prog)
    names = set(gm.methods)
    files = set(anchor_files(pid))
    if gm.mod.rel() in files:
        # the game module is itself anchored by the property: its whole API is in scope
        _SUBSTRATE_CACHE.clear()
        _SUBSTRATE_CACHE[key] = set(names)
        return set(names)
    todo = [(r, 0) for r in prog.all_functions() if r.module.rel() in files]
    seen: set[str] = set()
    used: set[str] = set()
    while todo:
        ref, d = todo.pop()
        if ref.qual in seen:
            continue
        seen.add(ref.qual)
        if ref.cls is not None and ref.module is gm.mod and ref.cls.name == _CLASS:
            continue
        ft = fterms(prog, ref)
        for e in ft.calls():
            if e.recv is not None and e.name in names:
                # `copy` is also the name of array / dict / list methods: counted only on a receiver that is named like a game
                if e.name != "copy" or any(w in show(e.recv).lower() for w in ("game", "incomplete")):
                    used.add(e.name)
            if e.data["func"][0] == "global" and e.data["func"][1].endswith("." + _CLASS):
                used.add("__init__")
            if d < 3:
                c = resolve_callee(prog, ft, e)
                if c is not None and "/tests/" not in c.module.rel():
                    todo.append((c, d + 1))
        for n in ast.walk(ref.node):
            op = getattr(n, "op", None)
            if isinstance(n, (ast.UnaryOp, ast.BinOp)) and type(op) in _OPERATOR_METHODS and _OPERATOR_METHODS[type(op)] in names:
                operand = n.operand if isinstance(n, ast.UnaryOp) else n.left
                if isinstance(operand, ast.Name) and "game" in operand.id.lower():
                    used.add(_OPERATOR_METHODS[type(op)])
    # a property that states linearity / negation / sums of games runs the arithmetic of the game object
    from .hygiene import _property_text
    text = _property_text(pid)
    if any(w in text for w in ("linear", "negat", "sum of two games", "sum of games")):
        used |= {m for m in ("__neg__", "__add__", "copy", "__eq__") if m in names}
    # closure over self-calls inside the class
    grew = True
    while grew:
        grew = False
        for m in list(used):
            ref = gm.methods.get(m)
            if ref is None:
                continue
            for e in fterms(prog, ref).calls():
                if e.recv == ("param", "self") and e.name in names and e.name not in used:
                    used.add(e.name)
                    grew = True
            for n in ast.walk(ref.node):
                if isinstance(n, ast.Attribute) and isinstance(n.value, ast.Name) and n.value.id == "self" and n.attr in names and n.attr not in used \
                        and gm.methods[n.attr].is_property():
                    used.add(n.attr)
                    grew = True
    _SUBSTRATE_CACHE.clear()
    _SUBSTRATE_CACHE[key] = used
    return used


def rule_game_substrate(prog: Program, col: Collector) -> None:
    """The incomplete-game object under a property that is not about it: the G rules are evaluated on game.py and a verdict is reported under this
    property only when it concerns a method the property's code can run (or the object's state as a whole, G9)."""
    used = game_methods_used(prog, col.property_id)
    if not used:
        col.note("game substrate: no method of IncompleteCooperativeGame is reachable from the anchor files of this property")
        return
    groups = [rule_c17_columns, rule_c17_getters, rule_c17_copy_neg_init, rule_c17_compute_and_state]
    own = {r.__name__ for r in _own_rules(col.property_id)}
    prefix = f"game.{_CLASS}."
    for grp in groups:
        if grp.__name__ in own:
            continue
        sub = Collector(col.property_id)
        try:
            grp(prog, sub)
        except AnalysisError as e:
            col.undecidable(GameModel(prog).mod.rel(), f"game.{_CLASS}", f"{grp.__name__}: {e}", rule="G-sub")
            continue

        def in_scope(func: str, rule: str) -> bool:
            if rule == "G9":
                return True
            return not func.startswith(prefix) or func[len(prefix):].split(".")[0] in used
        for rid, text in sub.rules_run.items():
            col.rules_run.setdefault(rid, text + " [as substrate: reported for the methods this property's code can run]")
        kept = 0
        for s in sub.sites:
            if in_scope(s["function"], s["rule"]):
                col.sites.append(s)
                col.functions.add(s["function"])
                kept += 1
        col.findings.extend(f for f in sub.findings if in_scope(f.func, f.rule))
        col.undecided.extend(u for u in sub.undecided if in_scope(u["function"], u["rule"]))
        # the hand-confirmed minima of the group are checked on the unfiltered run (a vanished anchor is still an error)
        for msg in sub.low_counts():
            col.undecidable(GameModel(prog).mod.rel(), f"game.{_CLASS}", msg, rule="G-sub")
    col.note("game substrate: methods in scope = " + ", ".join(sorted(used)))


def _own_rules(pid: str):
    from . import PROPERTIES
    return [r for r in PROPERTIES[pid]["rules"] if r is not rule_game_substrate]
