"""Shared helpers for the rule modules."""
from __future__ import annotations

import ast
from functools import lru_cache

from ..core import (PKG, AnalysisError, AnchorMissing, FuncRef, Program, call_name, calls_in, dotted, registry, src,
                    unwrap_partial)
from ..report import Collector
from ..terms import (Event, FunctionTerms, Term, contains, is_call_to, is_global, is_method_call, method_recv, show,
                     strip_uids, subterms)

_FT_CACHE: dict[tuple[int, str], FunctionTerms] = {}


def fterms(prog: Program, ref: FuncRef) -> FunctionTerms:
    key = (id(prog), ref.qual)
    if key not in _FT_CACHE:
        if len(_FT_CACHE) > 4000:
            _FT_CACHE.clear()
        _FT_CACHE[key] = FunctionTerms(prog, ref)
    return _FT_CACHE[key]


def short(t: Term, n: int = 160) -> str:
    s = show(t)
    return s if len(s) <= n else s[: n - 3] + "..."


def resolve_callee(prog: Program, ft: FunctionTerms, ev: Event) -> FuncRef | None:
    """Repo function a call event resolves to (plain functions and ``Class.method`` / constructors)."""
    f = ev.data["func"]
    if f[0] == "global":
        r = prog.find_func(f[1])
        if r is not None:
            return r
        # constructor
        try:
            m, c = prog.cls(f[1])
        except AnchorMissing:
            return None
        for n in c.body:
            if isinstance(n, ast.FunctionDef) and n.name == "__init__":
                return FuncRef(m, n, c)
    return None


def find_method_anywhere(prog: Program, name: str) -> list[FuncRef]:
    """All methods called ``name`` in the package (receiver types are not inferred)."""
    return [r for r in prog.all_functions() if r.cls is not None and r.node.name == name]


def has_subterm(t: Term, sub: Term) -> bool:
    return any(s == sub for s in subterms(t))


def mentions_param(t: Term, name: str) -> bool:
    return has_subterm(t, ("param", name))


def const_of(t: Term):
    """Python constant of a const term (with unary minus), else raises ValueError."""
    if t[0] == "const":
        return t[1]
    if t[0] == "un" and t[1] == "-" and t[2][0] == "const":
        return -t[2][1]
    raise ValueError(show(t))


def strip_wrappers(t: Term, *wrappers: str) -> Term:
    """Remove value-preserving wrapper calls: list(x), tuple(x), np.array(x), iter(x) ... as requested."""
    while t[0] == "call" and is_global(t[1], *wrappers) and len(t[2]) >= 1:
        t = t[2][0]
    return t


def func_where(ref: FuncRef, node: ast.AST | None = None) -> str:
    return ref.where(node)


def class_constant(prog: Program, cls_qual: str, name: str):
    """Literal class attribute (``_values_lower_index = 1``)."""
    m, c = prog.cls(cls_qual)
    for n in c.body:
        if isinstance(n, ast.Assign) and len(n.targets) == 1 and isinstance(n.targets[0], ast.Name) \
                and n.targets[0].id == name and isinstance(n.value, ast.Constant):
            return n.value.value
        if isinstance(n, ast.AnnAssign) and isinstance(n.target, ast.Name) and n.target.id == name \
                and isinstance(n.value, ast.Constant):
            return n.value.value
    raise AnchorMissing(f"class constant {cls_qual}.{name} not found")


def under_guard(ev: Event, pred) -> bool | None:
    """Polarity of the innermost guard satisfying pred(test_term), or None."""
    for f in reversed(ev.ctx):
        if f[0] == "if" and pred(f[1]):
            return f[2]
    return None


def enclosing_loops(ev: Event) -> list[tuple]:
    return [f for f in ev.ctx if f[0] in ("for", "comp")]


def bound_args(prog: Program, ev) -> dict:
    """Arguments of a call event by parameter name (positional ones named through the callee's signature when it is certain)."""
    out = dict(ev.kwargs)
    sig = prog.call_signature(ev.func)
    if sig is not None:
        for i, a in enumerate(ev.args):
            if i < len(sig):
                out.setdefault(sig[i], a)
    return out


def comp_parts(t):
    """(element expression, loop element, iterable, conditions) of a single-generator comprehension term of any kind
    (list / generator / set; map, filter and starmap are recorded in this form too), else None."""
    if isinstance(t, tuple) and len(t) == 4 and t[0] == "comp" and len(t[3]) == 1:
        elem, it, conds = t[3][0]
        return t[2], elem, it, conds
    return None


def distinct(terms) -> list:
    """Order-preserving de-duplication (the element of a comprehension carries its iterable, so sub-term searches see it repeatedly)."""
    out = []
    for t in terms:
        if t not in out:
            out.append(t)
    return out


def mask_positions(t: Term):
    """(mask, length) when ``t`` spells `the positions where a 1-D mask holds`: np.flatnonzero(m), np.where(m)[0], np.nonzero(m)[0],
    np.arange(K)[m] (length = K, else None); None otherwise."""
    if is_call_to(t, "numpy.flatnonzero") and len(t[2]) == 1 and not t[3]:
        return t[2][0], None
    if t[0] == "index" and t[2] == ("const", 0) and is_call_to(t[1], "numpy.where", "numpy.nonzero") and len(t[1][2]) == 1 and not t[1][3]:
        return t[1][2][0], None
    if t[0] == "index" and is_call_to(t[1], "numpy.arange") and len(t[1][2]) == 1 and t[2][0] in ("cmp", "bin", "un", "bool"):
        return t[2], t[1][2][0]
    return None


def yield_streams(ft: FunctionTerms) -> list[tuple[Term, Event]]:
    """What a generator function yields, one entry per yield site, in one form: a plain `yield v` at the top level is the scalar v;
    `yield from <comprehension>` and `for x in it: [if c:] yield v` are both the stream ('comp', 'gen', v, ((x, it, (c,)),)).
    A yield under a while loop / try keeps its event value and is marked ('unknown', ...)."""
    out = []
    for y in ft.of_kind("yield"):
        if y.data.get("is_from"):
            out.append((y.value, y))
            continue
        gens = []
        conds: list = []
        okf = True
        for fr in y.ctx:
            if fr[0] == "for":
                gens.append([fr[2], fr[3], []])
            elif fr[0] == "if" and gens and not (len(fr) > 4 and fr[4] == "implied"):
                gens[-1][2].append(fr[1] if fr[2] else ("un", "not", fr[1]))
            elif fr[0] in ("if", "inline", "with"):
                if fr[0] == "if" and not (len(fr) > 4 and fr[4] == "implied"):
                    okf = False
            else:
                okf = False
        if not okf:
            out.append((("unknown", "yield under a construct that is not a plain for / if"), y))
        elif gens:
            out.append((("comp", "gen", y.value, tuple((g[0], g[1], tuple(g[2])) for g in gens)), y))
        else:
            out.append((y.value, y))
    return out
