"""Wiring rules shared by several properties: the env factory, the solve command, the graph game, small coalition helpers."""
from __future__ import annotations

import ast

from ..core import AnalysisError, AnchorMissing, Program
from ..report import Collector
from ..terms import is_call_to, is_global, subterms
from .common import fterms, has_subterm, short, yield_streams

P = "incomplete_cooperative."
SELF = ("param", "self")


def rule_env_factory(prog: Program, col: Collector) -> None:
    col.rule("ENV-F", "ModelInstance.get_env builds ICG_Gym(game with BOUNDS[game_class], game generator, minimal information, configured gap function, step budget)", 4)
    ref = prog.func("run.model.ModelInstance.get_env")
    ft = fterms(prog, ref)
    ctor = [e for e in ft.calls() if is_global(e.func, P + "icg_gym.ICG_Gym")]
    if len(ctor) != 1:
        raise AnalysisError("get_env: ICG_Gym(...) construction not found")
    e = ctor[0]
    game = e.args[0] if e.args else e.kwargs.get("game")
    okg = game is not None and is_call_to(game, P + "game.IncompleteCooperativeGame") and game[2] and game[2][0] == ("attr", SELF, "number_of_players")
    col.check(okg, ref.where(e.node), ref.short, "the agent's game has self.number_of_players players", construct="env-game", necessity="the agent's game must have the configured number of players")
    known = e.args[2] if len(e.args) > 2 else e.kwargs.get("initially_known_coalitions")
    okk = known is not None and is_call_to(known, P + "coalitions.minimal_game_coalitions") and known[2] == (game,)
    col.check(okk, ref.where(e.node), ref.short, "initially known coalitions = minimal_game_coalitions(that game)", construct="env-minimal",
              necessity="the known coalitions are exactly the minimal information plus the chosen ones")
    gap = e.args[3] if len(e.args) > 3 else e.kwargs.get("gap_func")
    col.check(gap == ("attr", SELF, "gap_function_callable"), ref.where(e.node), ref.short, "the env's gap function is the configured one", construct="env-gap",
              necessity="the reward is the negated gap of the configured gap function")
    bud = e.kwargs.get("done_after_n_actions") if "done_after_n_actions" in e.kwargs else (e.args[4] if len(e.args) > 4 else None)
    col.check(bud == ("attr", SELF, "run_steps_limit"), ref.where(e.node), ref.short, "the step budget is run_steps_limit", construct="env-budget",
              necessity="done is true iff the step budget is used up ...")
    gen = e.args[1] if len(e.args) > 1 else e.kwargs.get("game_generator")
    okgen = gen is not None and (any(s[0] == "index" and is_global(s[1], P + "generators.GENERATORS") and s[2] == ("attr", SELF, "game_generator") for s in subterms(gen))
                                 or gen == ("attr", SELF, "game_generator_fn"))
    col.check(okgen, ref.where(e.node), ref.short, "hidden games come from GENERATORS[self.game_generator]", construct="env-generator", necessity="hidden games must come from the configured generator")
    if gen is not None and is_call_to(gen, "functools.partial"):
        a = gen[2]
        col.check(len(a) == 3 and a[1] == ("attr", SELF, "number_of_players"), ref.where(e.node), ref.short,
                  "the generator partial binds (number_of_players, rng) positionally", construct="env-generator-args", necessity="generators are called as generator(number_of_players, rng)")
    rets = list(ft.of_kind("return"))
    lin = ("attr", SELF, "linear")

    def alternatives(t, conds):
        """(conditions on self.linear, value) pairs of a returned term; conditional expressions are split."""
        if t is not None and t[0] in ("ifexp", "phi") and t[1] == lin:
            yield from alternatives(t[2], conds + (True,))
            yield from alternatives(t[3], conds + (False,))
        else:
            yield conds, t

    alts = [a for r in rets for a in alternatives(r.value, tuple(f[2] for f in r.ctx if f[0] == "if" and f[1] == lin))]
    n_lin = n_plain = n_bad = 0
    for conds, v in alts:
        if v is not None and is_call_to(v, P + "icg_gym_linear.ICG_Gym_Linear") and v[2] and v[2][0] == e.term:
            n_lin += 1
            n_bad += True not in conds
        elif v == e.term:
            n_plain += 1
            n_bad += True in conds
        else:
            n_bad += 1
    col.check(n_lin >= 1 and n_plain >= 1 and not n_bad, ref.where(), ref.short, "returns the env itself, or its linear wrapper iff self.linear",
              construct="env-return", necessity="the linear wrapper is what --linear asks for; returning it unconditionally (or never) changes the action space of every run")


def rule_solve_wiring(prog: Program, col: Collector) -> None:
    col.rule("Q4", "solve_func: evaluate(solver.next_step, instance.get_env, repetitions, step limit, gap function, processes, solver.after_reset) with one solver object", 1)
    ref = prog.func("run.solve.solve_func")
    ft = fterms(prog, ref)
    ev = [e for e in ft.calls() if is_global(e.func, P + "evaluation.evaluate")]
    if len(ev) != 1:
        raise AnalysisError("solve_func: evaluate(...) call not found")
    e = ev[0]
    inst = ("param", ref.positional_params()[0])
    pa = ("param", ref.positional_params()[1])
    eparams = prog.func("evaluation.evaluate").positional_params()
    b = {}
    for i, a in enumerate(e.args):
        if i < len(eparams):
            b[eparams[i]] = a
    b.update({k: v for k, v in e.kwargs.items() if k})
    nxt, rst = b.get("get_next_step"), b.get("after_reset")
    ok = nxt is not None and rst is not None and nxt[0] == "attr" and rst[0] == "attr" and nxt[2] == "next_step" and rst[2] == "after_reset" and nxt[1] == rst[1] \
        and nxt[1][0] == "call" and nxt[1][1] == ("index", ("global", P + "solvers.SOLVERS"), ("attr", pa, "solver")) and nxt[1][2] == (inst,)
    ok = ok and sum(1 for c in ft.calls() if c.term == nxt[1]) == 1      # constructed once: terms carry no identity, call events do
    col.check(ok, ref.where(e.node), ref.short, "next_step and after_reset are bound methods of the one SOLVERS[args.solver](instance) object", construct="solve-solver", necessity="next_step and after_reset must be bound methods of one solver object: the hook prepares the state the next step uses")
    ok2 = b.get("env_generator") == ("attr", inst, "get_env") and b.get("repetitions") == ("attr", pa, "solve_repetitions") and \
        b.get("gap_func") == ("attr", inst, "gap_function_callable") and b.get("processes") == ("attr", inst, "parallel_environments")
    col.check(ok2, ref.where(e.node), ref.short, "env factory, repetitions, gap function and process count come from the instance / arguments", construct="solve-args", necessity="the evaluation must run the configured environment, repetitions, gap function and process count")
    lim = b.get("run_steps_limit")
    ok3 = lim is not None and has_subterm(lim, ("attr", inst, "run_steps_limit"))
    col.check(ok3, ref.where(e.node), ref.short, "the step limit is the instance's run_steps_limit (or 2**n when unset)", construct="solve-limit", necessity="the trajectory length is the configured step limit")
    # 'unset' means None: the environment is built with done_after_n_actions = run_steps_limit, so the two limits must be the same number
    L = ("attr", inst, "run_steps_limit")
    truthy_default = lim is not None and any(t[0] == "bool" and t[1] == "or" and any(has_subterm(x, L) for x in t[2]) for t in subterms(lim)) or \
        (lim is not None and any(t[0] in ("ifexp", "phi") and t[1] == L for t in subterms(lim)))
    col.check(not truthy_default, ref.where(e.node), ref.short, "the default limit replaces None only (`is None` test), not every falsy value", construct="solve-limit-truthiness",
              necessity="`run_steps_limit or 2**n` turns the legal limit 0 into 2**n while the environment keeps its budget of 0: the two limits disagree, the episode ends at once and "
                        "the remaining rows are padding; the sibling commands (eval, greedy, best_states) test `is None`")


def rule_graph_game(prog: Program, col: Collector) -> None:
    col.rule("GG", "graph game: value = sum of the upper-triangular weights over pairs of members; constructor copies and clears lower triangle and diagonal; copy() copies", 4)
    mm = prog.methods("graph_game.GraphCooperativeGame")
    for need in ("__init__", "get_value", "get_values", "copy"):
        if need not in mm:
            raise AnchorMissing(f"GraphCooperativeGame.{need} not found")
    M = ("attr", SELF, "_graph_matrix")
    gv = mm["get_value"]
    ft = fterms(prog, gv)
    cp = ("param", gv.positional_params()[1])
    loops = [e for e in ft.of_kind("loop") if e.iter is not None and is_call_to(e.iter, "itertools.combinations")]
    ok = False
    if loops:
        it = loops[0].iter
        el = ("elem", it, loops[0].uid)
        okit = it[2] == (("attr", cp, "players"), ("const", 2)) or (len(it[2]) == 2 and it[2][1] == ("const", 2) and is_call_to(it[2][0], "list", "tuple", "sorted") and
                                                                    it[2][0][2] == (("attr", cp, "players"),))
        adds = [e for e in ft.of_kind("aug") if e.op == "+" and e.value == ("index", M, ("tuple", (("index", el, ("const", 0)), ("index", el, ("const", 1)))))]
        ok = okit and len(adds) == 1
    if not loops:
        # the same sum as an expression: sum(M[i, j] for i, j in combinations(c.players, 2)) / reduce(add, <that>, 0.0)
        from .common import comp_parts
        for r in ft.of_kind("return"):
            for t in subterms(r.value):
                if is_call_to(t, "sum", "math.fsum") and len(t[2]) == 1:
                    parts = comp_parts(t[2][0])
                    if parts is not None and not parts[3] and is_call_to(parts[2], "itertools.combinations") and parts[2][2] == (("attr", cp, "players"), ("const", 2)) \
                            and parts[0] == ("index", M, ("tuple", (("index", parts[1], ("const", 0)), ("index", parts[1], ("const", 1))))):
                        ok = True
    col.check(ok, gv.where(), gv.short, "get_value(c) = sum of matrix[i, j] over pairs i < j of c's players (ascending player order)", construct="graph-value",
              necessity="players are listed in ascending order, so combinations yields i < j: only the upper triangle may carry weight")
    init = mm["__init__"]
    ift = fterms(prog, init)
    gp = ("param", init.positional_params()[1])
    st = [e for e in ift.of_kind("store") if e.attr == "_graph_matrix"]
    okc = bool(st) and (is_call_to(st[0].value, "numpy.copy", "numpy.array") and st[0].value[2] and st[0].value[2][0] == gp or st[0].value == ("call", ("attr", gp, "copy"), (), ())
                        or (st[0].value[0] == "call" and st[0].value[1] == ("attr", gp, "astype") and dict(st[0].value[3]).get("copy") != ("const", False)))
    if st:
        v0 = st[0].value
        kw0 = dict(v0[3]) if v0[0] == "call" else {}
        typed = (is_call_to(v0, "numpy.array") and ("dtype" in kw0 or len(v0[2]) >= 2)) or \
            (v0[0] == "call" and v0[1][0] == "attr" and v0[1][2] == "astype" and v0[2] and not (kw0.get("copy") == ("const", False)))
        col.check(typed, init.where(st[0].node), init.short, "the stored matrix is converted to the float value type (np.array(m, dtype=Value) / m.astype(Value))",
                  construct="graph-init-dtype",
                  necessity="the normalisers divide the stored matrix in place: an integer matrix makes `/=` raise, a float32 one normalises to values 1e-8 away from the "
                            "tabulated form of the same game (the value table always converts to float64)")
    col.check(okc, init.where(), init.short, "the constructor keeps a COPY of the matrix", construct="graph-init-copy",
              necessity="normalising a graph game must not modify the caller's matrix / the hidden game")
    pol = [e for e in ift.calls() if is_global(e.func, P + "graph_game._polish_graph_matrix") and e.args and (e.args[0] == M or e.args[0] == (st[0].value if st else None))]
    col.check(bool(pol), init.where(), init.short, "the constructor clears the lower triangle and the diagonal", construct="graph-init-polish",
              necessity="a graph game and its tabulated form must have the same values")
    pref = prog.func("graph_game._polish_graph_matrix")
    pft = fterms(prog, pref)
    mp = ("param", pref.positional_params()[0])
    stores = [e for e in pft.of_kind("store") if e.obj == mp and e.value == ("const", 0)]
    okp = False
    for e in stores:
        lp = [f for f in e.ctx if f[0] == "for"]
        if len(lp) == 2 and is_call_to(lp[0][3], "range") and is_call_to(lp[1][3], "range"):
            i, j = lp[0][2], lp[1][2]
            okp = e.index == ("tuple", (j, i)) and lp[1][3][2] and lp[1][3][2][0] == i and lp[0][3][2] == (("index", ("attr", mp, "shape"), ("const", 0)),)
    col.check(okp, pref.where(), pref.short, "matrix[j, i] = 0 for all j >= i", construct="graph-polish", necessity="only the upper triangle may carry weight: get_value sums matrix[i, j] over pairs i < j")
    # no per-object state besides the matrix: the normalisers rescale _graph_matrix in place, so anything derived from it and kept on the
    # object (a value memo, a cached total) is stale afterwards
    allowed = {"_graph_matrix", "number_of_players"}
    extra = []
    for name, ref in mm.items():
        rft = fterms(prog, ref)
        for e in list(rft.of_kind("store")) + list(rft.of_kind("aug")):
            t = e.target
            while isinstance(t, tuple) and t[0] == "index":
                t = t[1]
            if isinstance(t, tuple) and t[0] == "attr" and t[1] == SELF and t[2] not in allowed:
                extra.append((ref, e, t[2]))
    for n in mm["__init__"].cls.body:
        if isinstance(n, (ast.Assign, ast.AnnAssign)):
            tg = n.targets[0] if isinstance(n, ast.Assign) else n.target
            if isinstance(tg, ast.Name) and (n.value is not None) and isinstance(n.value, (ast.Dict, ast.List, ast.Set, ast.Call)):
                extra.append((mm["__init__"], None, tg.id + " (class-level container)"))
    col.check(not extra, extra[0][0].where(extra[0][1].node if extra[0][1] is not None else None) if extra else init.where(), "graph_game.GraphCooperativeGame",
              "the graph game keeps no state besides the weight matrix" + (f" (found: {sorted({x[2] for x in extra})})" if extra else ""), construct="graph-extra-state",
              necessity="normalize/denormalize rescale the matrix in place: a memo of values kept on the object survives one of them and get_value answers for the old scale")
    c = mm["copy"]
    rv = list(fterms(prog, c).of_kind("return"))
    okcp = len(rv) == 1 and is_call_to(rv[0].value, P + "graph_game.GraphCooperativeGame") and rv[0].value[2] and \
        (rv[0].value[2][0] == ("call", ("attr", M, "copy"), (), ()) or is_call_to(rv[0].value[2][0], "numpy.copy") or rv[0].value[2][0] == M)
    col.check(okcp, c.where(), c.short, "copy() builds a new game from the matrix (the constructor copies)", construct="graph-copy", necessity="a copy that shares the matrix is normalised together with its original")
    gvs = mm["get_values"]
    rv = list(fterms(prog, gvs).of_kind("return"))
    okv = len(rv) == 1 and is_call_to(rv[0].value, "numpy.fromiter", "numpy.array") and any(
        s[0] == "comp" and len(s[3]) == 1 and not s[3][0][2] and s[2] == ("call", ("attr", SELF, "get_value"), (s[3][0][0],), ()) for s in subterms(rv[0].value))
    col.check(okv, gvs.where(), gvs.short, "get_values maps get_value over the requested coalitions (all coalitions in id order by default)", construct="graph-values", necessity="get_values must list get_value over the requested (or all) coalitions in order")


def rule_known_coalitions(prog: Program, col: Collector) -> None:
    col.rule("KC", "get_known_coalitions = all coalitions whose value is known; minimal_game_coalitions = empty, grand, singletons", 2)
    ref = prog.func("coalitions.get_known_coalitions")
    ft = fterms(prog, ref)
    gp = ("param", ref.positional_params()[0])
    rv = list(ft.of_kind("return"))
    ok = False
    if len(rv) == 1 and rv[0].value[0] == "comp":
        c = rv[0].value
        el, it, cd = c[3][0]
        ok = c[2] == el and is_call_to(it, P + "coalitions.all_coalitions") and cd == (("call", ("attr", gp, "is_value_known"), (el,), ()),)
    col.check(ok, ref.where(), ref.short, "get_known_coalitions(game) = (c for c in all_coalitions(game) if game.is_value_known(c))", construct="known-coalitions",
              necessity="the starting knowledge handed to every search task")
    ref = prog.func("coalitions.minimal_game_coalitions")
    ft = fterms(prog, ref)
    ys = yield_streams(ft)          # `yield from (f(i) for i in r)` and `for i in r: yield f(i)` are one stream
    vals = [v for v, _ in ys]
    has_empty = any(is_call_to(v, P + "coalitions.Coalition") and v[2] == (("const", 0),) for v in vals)
    has_grand = any(is_call_to(v, P + "coalitions.grand_coalition") for v in vals)
    pp = ("param", ref.positional_params()[0])
    n_of = ("ifexp", ("call", ("global", "isinstance"), (pp, ("global", "int")), ()), pp, ("attr", pp, "number_of_players"))

    def all_players(it: Term) -> bool:
        """range(n) / range(0, n) with n the player count of the argument (an int or a game)."""
        if not (is_call_to(it, "range") and not it[3]):
            return False
        a = tuple(("ifexp",) + x[1:] if x[0] == "phi" else x for x in it[2])
        return a in ((n_of,), (("const", 0), n_of), (("const", 0), n_of, ("const", 1)))
    has_single = any(v[0] == "comp" and len(v[3]) == 1 and not v[3][0][2] and all_players(v[3][0][1]) and
                     (v[2] == ("call", ("global", P + "coalitions.Coalition.from_players"), (("list", (v[3][0][0],)),), ()) or
                      v[2] == ("call", ("global", P + "coalitions.player_to_coalition"), (v[3][0][0],), ())) for v in vals)
    if any(v[0] == "unknown" for v in vals):
        col.undecidable(ref.where(), ref.short, "minimal_game_coalitions yields under a construct that is not a plain for / if", rule="KC")
        return
    col.check(has_empty and has_grand and has_single and len(ys) == 3, ref.where(), ref.short, "minimal information = {empty, grand} + all singletons",
              construct="minimal-coalitions", necessity="every computer asserts these are known")


def rule_seed_integrity(prog: Program, col: Collector) -> None:
    col.rule("SEED", "ModelInstance never rewrites its seed or any other option it was given; the instance generator is default_rng(self.seed), created unconditionally", 3)
    NEC = ("identically seeded runs must draw identical games: a seed that is replaced (0 treated as 'unset', clamped, re-derived from the clock) or a "
           "generator created from something else makes the run a function of something other than --seed")
    methods = prog.methods("run.model.ModelInstance")
    stores = []
    rng_stores = []
    for name, ref in methods.items():
        ft = fterms(prog, ref)
        for e in list(ft.of_kind("store")) + list(ft.of_kind("aug")):
            if e.obj == SELF and e.attr == "seed":
                stores.append((ref, e))
            if e.obj == SELF and e.attr == "game_generator_rng":
                rng_stores.append((ref, e))
    # no other option is rewritten either: the run is stored and found again under the name it was given, with the configuration it was given
    m, c = prog.cls("run.model.ModelInstance")
    fields = {n.target.id for n in c.body if isinstance(n, ast.AnnAssign) and isinstance(n.target, ast.Name)}
    derived_ok = {"model_dir": "str -> Path conversion", "model_path": "default model_dir / 'model' when None", "run_steps_limit": "default 2**n when None (commands)"}
    rewrites = []
    for ref in prog.all_functions():
        if "/tests/" in ref.module.rel():
            continue
        rft = fterms(prog, ref)
        inst_like = {("param", "self")} if (ref.cls is not None and ref.cls.name == "ModelInstance") else {("param", p) for p in ref.positional_params() if p == "instance"}
        for e in list(rft.of_kind("store")) + list(rft.of_kind("aug")):
            if e.attr in fields and e.obj in inst_like and e.attr not in derived_ok and e.attr != "seed":
                rewrites.append((ref, e))
    for ref, e in rewrites:
        col.violation(ref.where(e.node), ref.short, f"option-rewritten:{e.attr}", f"{ref.short} assigns {short(e.target, 30)} = {short(e.value, 50)}",
                      "an option that is silently changed (a run name with ':' replaced, a generator name normalised) makes the run unfindable under the name it was given, "
                      "lets two different names collide on one entry, or runs another configuration than the one recorded in the metadata")
    if not rewrites:
        col.ok(f"{m.rel()}:{c.lineno}", "run.model.ModelInstance", f"none of the {len(fields)} option fields is reassigned (allowed derivations: {sorted(derived_ok)})")
    for ref, e in stores:
        col.violation(ref.where(e.node), ref.short, "seed-rewritten", f"{ref.short} assigns self.seed", NEC)
    if not stores:
        col.ok(prog.func("run.model.ModelInstance.__post_init__").where(), "run.model.ModelInstance", "no method assigns self.seed (the dataclass field is its only definition)")
    if not rng_stores:
        raise AnalysisError("ModelInstance.game_generator_rng is not assigned anywhere: anchor vanished")
    for ref, e in rng_stores:
        v = e.value
        ok_val = is_call_to(v, "numpy.random.default_rng", "numpy.random.Generator", "numpy.random.RandomState") and v[2] in ((("attr", SELF, "seed"),), (("attr", SELF, "seed_32"),)) and not v[3]
        guards = [f for f in e.ctx if f[0] in ("if", "for", "while", "try")]
        col.check(ok_val and not guards and ref.node.name in ("__post_init__", "__init__"), ref.where(e.node), ref.short,
                  "game_generator_rng = default_rng(self.seed), unconditionally at construction", construct="instance-rng", necessity=NEC)
