"""icgsa.report -- verdict aggregation, known findings, evidence files, exit codes.

Verdicts (DESIGN.md section 3):
  HOLDS      obligation recognised and satisfied
  VIOLATION  obligation recognised and broken          -> exit 1, "VIOLATION property=<id> replay=<path>"
  UNDECIDED  idiom not understood / anchor vanished / too few sites -> exit 2, "ANALYSIS-ERROR ..."
"""
from __future__ import annotations

import ast
import json
import os
import time
from pathlib import Path

VERIF = Path(__file__).resolve().parent.parent
EVIDENCE_DIR = VERIF / "evidence"
KNOWN_FINDINGS = VERIF / "known_findings.json"


class Finding:
    def __init__(self, rule: str, where: str, func: str, construct: str, message: str, necessity: str) -> None:
        self.rule = rule
        self.where = where
        self.func = func
        self.construct = construct
        self.message = message
        self.necessity = necessity

    @property
    def key(self) -> str:
        """Identity of a finding: rule + function + normalised construct (no line numbers)."""
        return f"{self.rule}|{self.func}|{self.construct}"

    def as_dict(self) -> dict:
        return {"rule": self.rule, "where": self.where, "function": self.func, "construct": self.construct,
                "message": self.message, "necessity": self.necessity, "key": self.key}


class Collector:
    """Collects sites (obligations), findings and undecided items for one property run."""

    def __init__(self, property_id: str) -> None:
        self.property_id = property_id
        self.sites: list[dict] = []          # discharged or not, every obligation instance evaluated
        self.findings: list[Finding] = []
        self.undecided: list[dict] = []
        self.rules_run: dict[str, str] = {}   # rule id -> one-line description
        self.minima: dict[str, int] = {}
        self.assumptions: list[str] = []
        self.notes: list[str] = []
        self.functions: set[str] = set()
        self.current_rule = ""

    # ------------------------------------------------------------------ recording
    def rule(self, rule_id: str, description: str, minimum: int = 1) -> None:
        self.current_rule = rule_id
        self.rules_run.setdefault(rule_id, description)
        self.minima[rule_id] = max(self.minima.get(rule_id, 0), minimum)

    def ok(self, where: str, func: str, what: str, rule: str | None = None) -> None:
        self.sites.append({"rule": rule or self.current_rule, "where": where, "function": func, "obligation": what,
                           "verdict": "HOLDS"})
        self.functions.add(func)

    def violation(self, where: str, func: str, construct: str, message: str, necessity: str = "",
                  rule: str | None = None) -> None:
        r = rule or self.current_rule
        self.sites.append({"rule": r, "where": where, "function": func, "obligation": message, "verdict": "VIOLATION"})
        self.findings.append(Finding(r, where, func, construct, message, necessity))
        self.functions.add(func)

    def undecidable(self, where: str, func: str, message: str, rule: str | None = None) -> None:
        r = rule or self.current_rule
        self.sites.append({"rule": r, "where": where, "function": func, "obligation": message, "verdict": "UNDECIDED"})
        self.undecided.append({"rule": r, "where": where, "function": func, "message": message})
        self.functions.add(func)

    def check(self, cond: bool, where: str, func: str, what: str, construct: str = "", necessity: str = "",
              rule: str | None = None) -> bool:
        if cond:
            self.ok(where, func, what, rule)
        else:
            self.violation(where, func, construct or what, "broken: " + what, necessity, rule)
        return cond

    def assume(self, text: str) -> None:
        if text not in self.assumptions:
            self.assumptions.append(text)

    def note(self, text: str) -> None:
        self.notes.append(text)

    def count(self, rule_id: str) -> int:
        return sum(1 for s in self.sites if s["rule"] == rule_id)

    # ------------------------------------------------------------------ closing
    def low_counts(self) -> list[str]:
        out = []
        for r, m in self.minima.items():
            c = self.count(r)
            if c < m:
                out.append(f"rule {r} matched {c} site(s), fewer than the hand-confirmed minimum {m}")
        return out


def load_known() -> list[dict]:
    if not KNOWN_FINDINGS.exists():
        return []
    try:
        data = json.loads(KNOWN_FINDINGS.read_text())
    except (OSError, ValueError):
        return []
    return data.get("findings", [])


def finish(col: Collector, tier: str, t0: float, explanation: str, level_rule: str,
           extra_coverage: dict | None = None, analysis_errors: list[str] | None = None,
           write_evidence: bool = True, quiet: bool = False) -> int:
    """Print verdict lines, write evidence, return the exit code."""
    pid = col.property_id
    known = [k for k in load_known() if k.get("property") == pid and k.get("status") == "open"]
    known_keys = {k["key"]: k for k in known}
    errors = list(analysis_errors or [])
    errors += col.low_counts()
    errors += [f"{u['rule']} at {u['where']} ({u['function']}): {u['message']}" for u in col.undecided]

    new_findings = [f for f in col.findings if f.key not in known_keys]
    seen_known = [f for f in col.findings if f.key in known_keys]

    replay_dir = EVIDENCE_DIR / "replay"
    lines: list[str] = []
    if new_findings:
        replay_dir.mkdir(parents=True, exist_ok=True)
    for i, f in enumerate(new_findings):
        rp = replay_dir / f"{pid}-{i}.json"
        rp.write_text(json.dumps({"property": pid, **f.as_dict()}, indent=1))
        lines.append(f"VIOLATION property={pid} replay={rp} rule={f.rule} at {f.where} in {f.func}: {f.message}")
    reported = set()
    for f in seen_known:
        if f.key in reported:
            continue
        reported.add(f.key)
        lines.append(f"KNOWN-FINDING: property={pid} {known_keys[f.key].get('what', f.message)} [{f.rule} at {f.where}]")
    for e in errors:
        lines.append(f"ANALYSIS-ERROR property={pid} {e}")

    n_sites = len(col.sites)
    distinct = len({(s["rule"], s["function"], s["obligation"]) for s in col.sites})
    discharged = sum(1 for s in col.sites if s["verdict"] == "HOLDS")
    samples = [f"{s['rule']} {s['where']} {s['function']}: {s['obligation']} -> {s['verdict']}" for s in col.sites]
    # spread the samples over the rules
    by_rule: dict[str, list[str]] = {}
    for s, t in zip(col.sites, samples):
        by_rule.setdefault(s["rule"], []).append(t)
    picked: list[str] = []
    for r in by_rule:
        picked.extend(by_rule[r][:3])
    coverage = {
        "explanation": explanation,
        "rule": level_rule,
        "evaluations": n_sites,
        "distinct_nontrivial": distinct,
        "obligations": n_sites,
        "discharged": discharged,
        "samples": picked[:60],
        "exhaustive": True,
        "rules_applied": col.rules_run,
        "sites_per_rule": {r: col.count(r) for r in col.rules_run},
        "functions_analysed": sorted(col.functions),
        "undecided": col.undecided,
        "known_findings_seen": [f.as_dict() for f in seen_known],
        "new_findings": [f.as_dict() for f in new_findings],
        "notes": col.notes,
        "trusted_base": ["CPython ast parser", "NumPy/itertools/functools/multiprocessing/os library semantics as documented"],
    }
    if extra_coverage:
        coverage.update(extra_coverage)
        nv = extra_coverage.get("obligations_variants", 0)
        if nv:
            coverage["evaluations"] += nv
            coverage["obligations"] += nv
            coverage["discharged"] += extra_coverage.get("discharged_variants", 0)
            coverage["distinct_nontrivial"] += nv
            sv = extra_coverage.get("self_validation", {}).get("results", [])
            coverage["samples"] = coverage["samples"][:40] + [f"variant[{r['kind']}] {r['variant']}: {r['status']}" + (f" by {r.get('rule')} at {r.get('where')}" if r.get("rule") else "")
                                                              for r in sv[:25]]
            coverage["rule"] += "; thorough tier: plus one obligation per AST-computed breaking variant (must be reported by the expected rule) and per benign twin (must stay silent)"
    evidence = {
        "property_id": pid,
        "tier": tier,
        "seed": int(os.environ.get("VERIF_SEED", "0") or 0),
        "level": "other",
        "coverage": coverage,
        "assumptions": col.assumptions,
        "wall_s": round(time.time() - t0, 3),
        "violations": len(new_findings),
    }
    if write_evidence:
        EVIDENCE_DIR.mkdir(parents=True, exist_ok=True)
        (EVIDENCE_DIR / f"{pid}.json").write_text(json.dumps(evidence, indent=1))
    if not quiet:
        for ln in lines:
            print(ln)
        status = "VIOLATION" if new_findings else ("ANALYSIS-ERROR" if errors else "HOLDS")
        print(f"[{pid}] {status}: {discharged}/{n_sites} obligations discharged over {len(col.rules_run)} rules, "
              f"{len(col.functions)} functions; {len(seen_known)} known finding(s); tier={tier}")
    if new_findings:
        return 1
    if errors:
        return 2
    return 0
