"""Breaking variants and benign twins for the self-validation of the rules (see mutate.py).

Fragments are written in ``ast.unparse`` form.  ``props`` lists the properties whose thorough tier runs the variant.
"""
from __future__ import annotations

from .mutate import Variant as V

B = "incomplete_cooperative/bounds.py"
G = "incomplete_cooperative/game.py"
GYM = "incomplete_cooperative/icg_gym.py"
LIN = "incomplete_cooperative/icg_gym_linear.py"
SA = "compute_bounds_superadditive"
SAC = "compute_bounds_superadditive_cached"
SAM = "compute_bounds_superadditive_monotone_approx_cached"
TAB = "_get_sub_super_coalition_structure"

VARIANTS: list[V] = []


def add(*vs: V) -> None:
    VARIANTS.extend(vs)


# ------------------------------------------------------------------------------------------------ bounds
add(
    # B1 / B2: target filter and coverage
    V("sa: iterate ALL coalitions in the LB loop", ("C01", "C08"), B, SA,
      "sorted(filter(lambda x: not game.is_value_known(x), all_coalitions(game)), key=len)", "sorted(all_coalitions(game), key=len)", ("B1", "B2")),
    V("sa-cached: UB loop skips the first unknown coalition", ("C01", "C08"), B, SAC,
      "for coalition in unknown_sorted:\n        super_coalitions", "for coalition in unknown_sorted[1:]:\n        super_coalitions", ("B2",)),
    V("sa: computer calls set_value instead of set_lower_bound", ("C01", "C08"), B, SA,
      "game.set_lower_bound(lower_bound, coalition)", "game.set_value(lower_bound, coalition)", ("B1", "B2")),
    V("sa-cached: continue before the LB write for large coalitions", ("C01", "C08"), B, SAC,
      "        lower_bound = np.max(game.get_lower_bounds()[sub_coalitions] + game.get_lower_bounds()[complementary_coalitions])\n",
      "        if len(sub_coalitions) > 100:\n            continue\n        lower_bound = np.max(game.get_lower_bounds()[sub_coalitions] + game.get_lower_bounds()[complementary_coalitions])\n", ("B2",)),
    # B3 size order
    V("sa: LB loop by decreasing size", ("C01", "C02", "C08"), B, SA, "all_coalitions(game)), key=len)", "all_coalitions(game)), key=len, reverse=True)", ("B3",)),
    V("sa: LB loop unsorted", ("C01", "C08"), B, SA,
      "sorted(filter(lambda x: not game.is_value_known(x), all_coalitions(game)), key=len)", "filter(lambda x: not game.is_value_known(x), all_coalitions(game))", ("B3",)),
    V("table: ids sorted by decreasing size", ("C01", "C03", "C08"), B, TAB, "[np.argsort(sizes)]", "[np.argsort(sizes)[::-1]]", ("B3", "B10", "B8")),
    # B4 fresh reads
    V("sa: split set keeps the empty coalition", ("C01", "C08"), B, SA, "if x != coalition and x != Coalition(0)]", "if x != coalition]", ("B4",)),
    V("sa: split set keeps the coalition itself", ("C01", "C08"), B, SA, "if x != coalition and x != Coalition(0)]", "if x != Coalition(0)]", ("B4",)),
    V("sa-cached: split set includes SELF (code 0)", ("C01", "C03", "C08"), B, SAC,
      "all_coalitions[coal_structure[coalition] == 1]", "all_coalitions[np.logical_or(coal_structure[coalition] == 1, coal_structure[coalition] == 0)]", ("B4", "B8")),
    # B5 phase order
    V("sa-cached: UB written inside the LB loop", ("C01", "C08"), B, SAC,
      "        game.set_lower_bound(lower_bound, Coalition(coalition))\n    for coalition in unknown_sorted:\n", "        game.set_lower_bound(lower_bound, Coalition(coalition))\n", ("B5",)),
    # B6 / B6s
    V("sa: lower = min over splits", ("C02", "C07", "C03"), B, SA, "lower_bound = np.max(", "lower_bound = np.min(", ("B6", "B13", "B8")),
    V("sa-cached: lower = min over splits", ("C02", "C07", "C03"), B, SAC, "lower_bound = np.max(", "lower_bound = np.min(", ("B6", "B13", "B8")),
    V("sa: lower reads UPPER bounds of the parts", ("C01", "C03"), B, SA, "np.max(game.get_lower_bounds(sub_coalitions) +", "np.max(game.get_upper_bounds(sub_coalitions) +", ("B6s", "B8")),
    V("sa-cached: lower reads UPPER bounds of the complement", ("C01", "C03"), B, SAC,
      "game.get_lower_bounds()[sub_coalitions] + game.get_lower_bounds()[complementary_coalitions]", "game.get_lower_bounds()[sub_coalitions] + game.get_upper_bounds()[complementary_coalitions]", ("B6s", "B8")),
    V("sa: only KNOWN parts are split candidates", ("C02", "C07", "C03"), B, SA,
      "if x != coalition and x != Coalition(0)]", "if x != coalition and x != Coalition(0) and game.is_value_known(x)]", ("B6", "B13", "B8")),
    V("sa-cached: last split candidate dropped", ("C02", "C03"), B, SAC,
      "sub_coalitions = all_coalitions[coal_structure[coalition] == 1]", "sub_coalitions = all_coalitions[coal_structure[coalition] == 1][:-1]", ("B6", "B8")),
    V("sa: complement of a different set", ("C01",), B, SA, "[coalition - x for x in sub_coalitions]", "[coalition - x for x in reversed(sub_coalitions)]", ("B6s",)),
    # B7 / B7s
    V("sa: upper = max over supersets", ("C02", "C07", "C03"), B, SA, "upper_bound = np.min(", "upper_bound = np.max(", ("B7", "B13", "B8")),
    V("sa-cached: known filter of supersets dropped", ("C01", "C07", "C03"), B, SAC,
      "known_super_coalitions = super_coalitions[game.are_values_known()[super_coalitions]]", "known_super_coalitions = super_coalitions", ("B7s", "B13", "B8")),
    V("sa: known filter of supersets dropped", ("C01", "C07"), B, SA,
      "[x for x in get_super_coalitions(coalition, game.number_of_players) if game.is_value_known(x)]", "[x for x in get_super_coalitions(coalition, game.number_of_players) if x != coalition]", ("B7s", "B13")),
    V("sa-cached: subtrahend reads UPPER bounds", ("C01", "C03"), B, SAC,
      "- game.get_lower_bounds()[complementary_coalitions])\n        game.set_upper_bound", "- game.get_upper_bounds()[complementary_coalitions])\n        game.set_upper_bound", ("B7s", "B8")),
    V("sa: upper adds instead of subtracting", ("C01",), B, SA,
      "game.get_values(known_super_coalitions) - game.get_lower_bounds(complementary_coalitions)", "game.get_values(known_super_coalitions) + game.get_lower_bounds(complementary_coalitions)", ("B7s",)),
    V("sa-cached: one known superset ignored", ("C02", "C03"), B, SAC,
      "super_coalitions = all_coalitions[coal_structure[coalition] == 2]\n        known_super", "super_coalitions = all_coalitions[coal_structure[coalition] == 2][1:]\n        known_super", ("B7", "B8")),
    V("sa: grand coalition excluded from the supersets", ("C02",), B, SA,
      "if game.is_value_known(x)]", "if game.is_value_known(x) and len(x) < game.number_of_players]", ("B7",)),
    # B10 table
    V("table: codes of sub and super swapped in the writer only", ("C01", "C03"), B, TAB,
      "all_coals[sub_coals] = 1", "all_coals[sub_coals] = 2", ("B10", "B4", "B6s", "B7s", "B8")),
    V("table: own entry written before the superset code", ("C01", "C03"), B, TAB,
      "        all_coals[super_coals] = 2\n        all_coals[coalition] = 0\n", "        all_coals[coalition] = 0\n        all_coals[super_coals] = 2\n", ("B10", "B8", "B7s")),
    V("table: empty-coalition code not written", ("C01", "C03", "C08"), B, TAB, "        all_coals[0] = -2\n", "", ("B10", "B4", "B8")),
    V("sa-cached: reader compares with a code never written", ("C01", "C03"), B, SAC,
      "coal_structure[coalition] == 2", "coal_structure[coalition] == 3", ("B10", "B7s", "B8")),
    # B9 cache hygiene
    V("sa-cached: caller sorts the cached id array in place", ("C03",), B, SAC,
      "unknown_sorted = all_sorted[", "all_sorted.sort()\n    unknown_sorted = all_sorted[", ("B9",)),
    V("sam: caller writes into a cached relation row", ("C03",), B, SAM,
      "            assert i > 0 or coalition not in sub_coalitions\n", "            coal_structure[coalition][0] = -2\n", ("B9",)),
    V("sa-cached: structure requested for another size", ("C03",), B, SAC,
      "_get_sub_super_coalition_structure(game.number_of_players)", "_get_sub_super_coalition_structure(len(game.get_lower_bounds()))", ("B9",)),
    # B11 / B12 SAM
    V("sam: phase guard tests i == 1", ("C04", "C08"), B, SAM, "if i == 0:", "if i == 1:", ("B11a", "B4")),
    V("sam: later phases omit the row itself", ("C04",), B, SAM,
      "sub_coalitions = all_coalitions[np.logical_or(coal_structure[coalition] == 1, coal_structure[coalition] == 0)]", "sub_coalitions = all_coalitions[coal_structure[coalition] == 1]", ("B11a",)),
    V("sam: first phase includes the row itself", ("C04", "C08"), B, SAM,
      "            if i == 0:\n                sub_coalitions = all_coalitions[coal_structure[coalition] == 1]\n            else:\n                sub_coalitions = all_coalitions[np.logical_or(coal_structure[coalition] == 1, coal_structure[coalition] == 0)]\n",
      "            sub_coalitions = all_coalitions[np.logical_or(coal_structure[coalition] == 1, coal_structure[coalition] == 0)]\n", ("B4", "B11a")),
    V("sam: closure takes the MIN over supersets", ("C04", "C07"), B, SAM,
      "lower_bound = np.max(game.get_lower_bounds()[super_coalitions])", "lower_bound = np.min(game.get_lower_bounds()[super_coalitions])", ("B11b", "B13")),
    V("sam: closure over sub-coalitions", ("C04",), B, SAM,
      "super_coalitions = all_coalitions[np.logical_or(coal_structure[coalition] == 2, coal_structure[coalition] == 0)]", "super_coalitions = all_coalitions[np.logical_or(coal_structure[coalition] == 1, coal_structure[coalition] == 0)]", ("B11b",)),
    V("sam: closure drops the row itself", ("C04",), B, SAM,
      "super_coalitions = all_coalitions[np.logical_or(coal_structure[coalition] == 2, coal_structure[coalition] == 0)]", "super_coalitions = all_coalitions[coal_structure[coalition] == 2]", ("B11b",)),
    V("sam: known filter of sub-coalition values dropped", ("C04",), B, SAM,
      "known_sub_coalitions = sub_coalitions[game.are_values_known()[sub_coalitions]]", "known_sub_coalitions = sub_coalitions", ("B11c",)),
    V("sam: sub-coalition term removed from the upper bound", ("C04",), B, SAM,
      "upper_bound = min(np.min(game.get_lower_bounds()[known_super_coalitions] - game.get_lower_bounds()[complementary_coalitions]), np.min(game.get_known_values()[known_sub_coalitions]))",
      "upper_bound = np.min(game.get_lower_bounds()[known_super_coalitions] - game.get_lower_bounds()[complementary_coalitions])", ("B11c",)),
    V("sam: repetition loop is range(repetitions)", ("C04",), B, SAM, "for i in range(repetitions + 1):", "for i in range(repetitions):", ("B12",)),
    V("sam: registry binds repetitions=i+1", ("C04",), B, "", "repetitions=i) for i in [1, 10, 100, 1000]", "repetitions=i + 1) for i in [1, 10, 100, 1000]", ("B12",)),
    # H1 hidden state
    V("sa-cached: memoises bounds in a module-level dict", ("C08",), B, "",
      "def compute_bounds_superadditive_cached(game: BoundableIncompleteGame) -> None:", "_MEMO = {}\n\ndef compute_bounds_superadditive_cached(game: BoundableIncompleteGame) -> None:\n    _MEMO[len(_MEMO)] = game", ("H1",)),
    V("sa: reads a private attribute of the game", ("C08",), B, SA,
      "    for coalition in filter(lambda x: not game.is_value_known(x), all_coalitions(game)):", "    if getattr(game, '_dirty', True) and game._values is None:\n        return\n    for coalition in filter(lambda x: not game.is_value_known(x), all_coalitions(game)):", ("H1",)),
    # twins
    V("twin sa: np.max(x) -> x.max()", ("C01", "C02", "C03", "C07", "C08"), B, SA,
      "lower_bound = np.max(game.get_lower_bounds(sub_coalitions) + game.get_lower_bounds(complementary_coalitions))", "lower_bound = (game.get_lower_bounds(sub_coalitions) + game.get_lower_bounds(complementary_coalitions)).max()", (), "twin"),
    V("twin sa: summands commuted", ("C01", "C02", "C03"), B, SA,
      "game.get_lower_bounds(sub_coalitions) + game.get_lower_bounds(complementary_coalitions)", "game.get_lower_bounds(complementary_coalitions) + game.get_lower_bounds(sub_coalitions)", (), "twin"),
    V("twin sa-cached: xor -> difference", ("C01", "C02", "C03"), B, SAC, "complementary_coalitions = coalition ^ sub_coalitions", "complementary_coalitions = coalition - sub_coalitions", (), "twin"),
    V("twin sa-cached: ~mask instead of logical_not", ("C01", "C03", "C08"), B, SAC,
      "all_sorted[np.logical_not(game.are_values_known()[all_sorted])]", "all_sorted[~game.are_values_known()[all_sorted]]", (), "twin"),
    V("twin sa: filter/lambda -> comprehension", ("C01", "C02", "C03", "C08"), B, SA,
      "for coalition in filter(lambda x: not game.is_value_known(x), all_coalitions(game)):", "for coalition in [x for x in all_coalitions(game) if not game.is_value_known(x)]:", (), "twin"),
    V("twin sa: conditions in the other order", ("C01", "C02", "C03"), B, SA,
      "if x != coalition and x != Coalition(0)]", "if x != Coalition(0) and x != coalition]", (), "twin"),
    V("twin sa-cached: values read through get_values at known rows", ("C01", "C02", "C03"), B, SAC,
      "np.min(game.get_lower_bounds()[known_super_coalitions] -", "np.min(game.get_upper_bounds()[known_super_coalitions] -", (), "twin"),
    V("twin sam: branches swapped", ("C04", "C08"), B, SAM,
      "            if i == 0:\n                sub_coalitions = all_coalitions[coal_structure[coalition] == 1]\n            else:\n                sub_coalitions = all_coalitions[np.logical_or(coal_structure[coalition] == 1, coal_structure[coalition] == 0)]\n",
      "            if i > 0:\n                sub_coalitions = all_coalitions[np.logical_or(coal_structure[coalition] == 1, coal_structure[coalition] == 0)]\n            else:\n                sub_coalitions = all_coalitions[coal_structure[coalition] == 1]\n", (), "twin"),
    V("twin sa: key=lambda x: len(x)", ("C01", "C02", "C08"), B, SA, "key=len)", "key=lambda c: len(c))", (), "twin"),
)
