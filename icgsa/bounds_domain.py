"""Coalition-class abstract domain for the bound computers (DESIGN.md section 4).

Relative to the coalition ``c`` being processed every other coalition is in one of five classes
EMPTY, SELF, PSUB (proper non-empty subset), PSUPER (proper superset), OTHER.  Terms of the bound
computers are interpreted into

  collections  Coll(classes, known filter, restricted?, order)   or  Compl(base)  or  PhiC(test, a, b)
  numerics     ('LB'|'UB'|'VAL'|'KV'|'KNV', coll) ('ADD'|'SUB', a, b) ('MAX'|'MIN', x) ('MIN2', a, b)
               ('PHI', test, a, b) ('?', text)

Nothing is executed; no coalition or number ever exists.
"""
from __future__ import annotations

import ast
from dataclasses import dataclass, field, replace

from .core import AnalysisError, AnchorMissing, FuncRef, Program
from .terms import FunctionTerms, Term, is_call_to, is_global, show, subterms

EMPTY, SELF, PSUB, PSUPER, OTHER = "EMPTY", "SELF", "PSUB", "PSUPER", "OTHER"
ALL_CLASSES = frozenset({EMPTY, SELF, PSUB, PSUPER, OTHER})

P = "incomplete_cooperative."
Q_SUB_OBJ = P + "coalitions.get_sub_coalitions"
Q_SUPER_OBJ = P + "coalitions.get_super_coalitions"
Q_ALL_OBJ = P + "coalitions.all_coalitions"
Q_COALITION = P + "coalitions.Coalition"
Q_SUB_ID = P + "coalition_ids.sub_coalitions"
Q_SUPER_ID = P + "coalition_ids.super_coalitions"
Q_ALL_ID = P + "coalition_ids.get_all_coalitions"
Q_SIZE_ID = P + "coalition_ids.get_size"
Q_STRUCT = P + "bounds._get_sub_super_coalition_structure"

MAX_FUNCS = ("numpy.max", "numpy.amax", "numpy.nanmax", "max")
MIN_FUNCS = ("numpy.min", "numpy.amin", "numpy.nanmin", "min")
NOT_FUNCS = ("numpy.logical_not", "numpy.invert", "numpy.bitwise_not")
OR_FUNCS = ("numpy.logical_or", "numpy.bitwise_or")
AND_FUNCS = ("numpy.logical_and", "numpy.bitwise_and")
LISTY = ("list", "tuple", "numpy.array", "numpy.asarray", "iter")


@dataclass(frozen=True)
class Coll:
    classes: frozenset
    known: bool | None = None        # None: no knowledge filter; True: known only; False: unknown only
    restricted: bool = False          # sliced / filtered by a predicate that removes candidates
    order: str | None = None          # 'up' (size ascending) | 'down' | None
    why_restricted: str = ""
    unrecognised: bool = False        # restricted by a predicate the domain does not understand

    def show(self) -> str:
        s = "<" + ",".join(sorted(self.classes)) + ">" if self.classes != ALL_CLASSES else "<ALL>"
        if self.known is True:
            s = "known&" + s
        elif self.known is False:
            s = "unknown&" + s
        if self.order:
            s += f"[size {self.order}]"
        if self.restricted:
            s += f"[restricted:{self.why_restricted}]"
        return s


@dataclass(frozen=True)
class Compl:
    base: object                      # Coll | PhiC
    form: str                         # 'c-x' | 'x-c' | 'xor'

    def show(self) -> str:
        return f"compl[{self.form}]({show_coll(self.base)})"


@dataclass(frozen=True)
class PhiC:
    test: tuple
    a: object
    b: object

    def show(self) -> str:
        return f"phi({show_coll(self.a)} | {show_coll(self.b)})"


@dataclass(frozen=True)
class Single:
    """One specific coalition: the loop element itself, the empty or the grand coalition."""
    which: str

    def show(self) -> str:
        return self.which


def show_coll(c) -> str:
    return c.show() if hasattr(c, "show") else f"?{c}"


def show_num(n) -> str:
    if not isinstance(n, tuple):
        return str(n)
    k = n[0]
    if k in ("LB", "UB", "VAL", "KV", "KNV"):
        return f"{k}({show_coll(n[1])})"
    if k in ("ADD", "SUB", "MIN2", "MAX2"):
        return f"{k}({show_num(n[1])}, {show_num(n[2])})"
    if k in ("MAX", "MIN"):
        return f"{k}({show_num(n[1])})"
    if k == "PHI":
        return f"PHI({show_num(n[2])} | {show_num(n[3])})"
    if k == "INIT":
        return f"{n[1]}({show_num(n[2])}, initial={n[3]})"
    return f"?({n[1]})"


# --------------------------------------------------------------------------------------
# the relation table of the cached computers, derived from its writer
# --------------------------------------------------------------------------------------

@dataclass
class StructInfo:
    ref: FuncRef
    roles: dict[int, str]                     # tuple position -> 'ALLIDS' | 'SORTED_UP' | 'SORTED_DOWN' | 'TABLE'
    code_classes: dict[object, frozenset]     # relation code -> class set
    codes_written: list                       # codes in program order
    default_code: object
    stores: list = field(default_factory=list)
    cached: bool = False
    notes: list = field(default_factory=list)


def _classes_of_id_enumeration(t: Term, c: Term) -> frozenset | None:
    """Class set of an id-array term inside the table writer, relative to loop coalition ``c``."""
    if is_call_to(t, Q_SUB_ID) and t[2] and t[2][0] == c:
        return frozenset({EMPTY, SELF, PSUB})
    if is_call_to(t, Q_SUPER_ID) and t[2] and t[2][0] == c:
        return frozenset({SELF, PSUPER})
    if t == c:
        return frozenset({SELF})
    if t == ("const", 0):
        return frozenset({EMPTY})
    return None


def derive_struct(prog: Program) -> StructInfo:
    """Replay the subscript stores of the relation-table writer with last-writer-wins over the five classes."""
    from .rules.common import fterms
    ref = prog.find_func("bounds._get_sub_super_coalition_structure")
    if ref is None:
        raise AnchorMissing("bounds._get_sub_super_coalition_structure not found")
    ft = fterms(prog, ref)
    params = ref.positional_params()
    if len(params) != 1:
        raise AnalysisError("relation-table function no longer takes exactly number_of_players")
    n = ("param", params[0])
    cached = any(d in ("cache", "functools.cache", "lru_cache", "functools.lru_cache") or d.startswith("lru_cache")
                 for d in ref.decorators()) or any(
        isinstance(d, ast.Call) and (getattr(d.func, "id", None) == "lru_cache" or getattr(d.func, "attr", None) == "lru_cache")
        for d in ref.node.decorator_list)
    # the loop over all coalitions that fills one row per coalition
    loops = [e for e in ft.of_kind("loop") if e.iter is not None and is_call_to(e.iter, Q_ALL_ID)]
    if not loops:
        raise AnalysisError("relation-table writer: loop over get_all_coalitions(n) not found")
    loop = loops[0]
    c = ("elem", loop.iter, loop.uid)
    code_of: dict[str, object] = {}
    default = "?"
    stores = []
    row_term = None
    for e in ft.events:
        if e.kind == "assign" and any(f[0] == "for" and f[1] == loop.uid for f in e.ctx):
            v = e.value
            # np.zeros(..) - 1  /  np.full(.., k)  /  np.ones(..) * k
            if v[0] == "bin" and v[1] == "-" and is_call_to(v[2], "numpy.zeros") and v[3][0] == "const":
                default, row_term = -v[3][1], v
            elif is_call_to(v, "numpy.full") and len(v[2]) >= 2:
                try:
                    from .rules.common import const_of
                    default, row_term = const_of(v[2][1]), v
                except ValueError:
                    pass
            elif is_call_to(v, "numpy.zeros"):
                default, row_term = 0, v
    if row_term is None:
        raise AnalysisError("relation-table writer: row initialisation (np.zeros(..) - 1 / np.full) not recognised")
    for cls in ALL_CLASSES:
        code_of[cls] = default
    written = []
    for e in ft.of_kind("store"):
        if e.obj != row_term or e.index is None:
            continue
        from .rules.common import const_of
        try:
            code = const_of(e.value)
        except ValueError:
            raise AnalysisError(f"relation-table writer stores a non-literal code at line {e.lineno}")
        cls_set = _classes_of_id_enumeration(e.index, c)
        if cls_set is None:
            raise AnalysisError(f"relation-table writer: index {show(e.index)[:80]} not recognised (line {e.lineno})")
        for k in cls_set:
            code_of[k] = code
        written.append(code)
        stores.append((e, code, cls_set))
    if not stores:
        raise AnalysisError("relation-table writer: no subscript store into the row found")
    code_classes: dict[object, frozenset] = {}
    for k, code in code_of.items():
        code_classes[code] = code_classes.get(code, frozenset()) | {k}
    # roles of the returned tuple
    rets = list(ft.of_kind("return"))
    if len(rets) != 1 or rets[0].value[0] != "tuple":
        raise AnalysisError("relation-table function does not return a single tuple")
    roles: dict[int, str] = {}
    for i, t in enumerate(rets[0].value[1]):
        if is_call_to(t, Q_ALL_ID) and t[2] and t[2][0] == n:
            roles[i] = "ALLIDS"
        elif t[0] == "index" and is_call_to(t[1], Q_ALL_ID):
            order = _argsort_order(t[2], n)
            if order:
                roles[i] = "SORTED_UP" if order == "up" else "SORTED_DOWN"
        elif is_call_to(t, "numpy.array", "numpy.asarray", "numpy.stack", "numpy.vstack") and t[2]:
            roles[i] = "TABLE"
    info = StructInfo(ref, roles, code_classes, written, default, stores, cached)
    return info


def _argsort_order(idx: Term, n: Term) -> str | None:
    """'up' if idx is argsort(sizes) with sizes = size of every id in id order; 'down' if reversed."""
    rev = False
    t = idx
    if t[0] == "index" and t[2][0] == "slice" and t[2][3] is not None and t[2][3] == ("un", "-", ("const", 1)) \
            and t[2][1] is None and t[2][2] is None:
        rev, t = True, t[1]
    if not is_call_to(t, "numpy.argsort") or not t[2]:
        return None
    arg = t[2][0]
    neg = False
    if arg[0] == "un" and arg[1] == "-":
        neg, arg = True, arg[2]
    # sizes = np.array([get_size(coal, n) for coal in get_all_coalitions(n)])
    inner = arg
    while is_call_to(inner, "numpy.array", "numpy.asarray", "numpy.fromiter", "list") and inner[2]:
        inner = inner[2][0]
    ok = False
    if inner[0] == "comp" and len(inner[3]) == 1:
        elem, it, conds = inner[3][0]
        if not conds and is_call_to(it, Q_ALL_ID) and is_call_to(inner[2], Q_SIZE_ID, "len") and inner[2][2] and inner[2][2][0] == elem:
            ok = True
    if not ok:
        return None
    kw = dict(t[3])
    return "down" if (rev != neg) else "up"


# --------------------------------------------------------------------------------------
# interpretation of one computer
# --------------------------------------------------------------------------------------

class Interp:
    def __init__(self, prog: Program, ft: FunctionTerms, game: Term, struct: StructInfo | None) -> None:
        self.prog = prog
        self.ft = ft
        self.game = game
        self.struct = struct
        self.unrecognised: list[str] = []

    # ---- helpers on terms
    def _is_game_call(self, t: Term, *names: str) -> bool:
        return t[0] == "call" and t[1][0] == "attr" and t[1][1] == self.game and t[1][2] in names

    def _struct_pos(self, t: Term) -> str | None:
        if self.struct is None:
            return None
        if t[0] == "index" and is_call_to(t[1], Q_STRUCT) and t[2][0] == "const":
            return self.struct.roles.get(t[2][1])
        return None

    def _unwrap_coalition(self, t: Term) -> Term:
        """Coalition(x) -> x (object wrapper around an id)."""
        if is_call_to(t, Q_COALITION) and len(t[2]) == 1:
            return t[2][0]
        return t

    def is_c(self, t: Term, c: Term) -> bool:
        return t == c or self._unwrap_coalition(t) == c

    def is_empty(self, t: Term) -> bool:
        if t == ("const", 0):
            return True
        if is_call_to(t, Q_COALITION) and t[2] == (("const", 0),):
            return True
        if is_call_to(t, Q_COALITION + ".from_players") and t[2] and t[2][0][0] in ("list", "tuple", "set") and not t[2][0][1]:
            return True
        return False

    # ---- known-mask recognition: game.are_values_known()[X]  /  game.is_value_known(x)
    def _known_mask_of(self, t: Term) -> tuple[Term, bool] | None:
        """If t is a boolean mask 'known[X]' (possibly negated) return (X, polarity)."""
        pol = True
        while True:
            if t[0] == "call" and is_global(t[1], *NOT_FUNCS) and len(t[2]) == 1:
                pol, t = not pol, t[2][0]
            elif t[0] == "un" and t[1] in ("~", "not"):
                pol, t = not pol, t[2]
            elif t[0] == "cmp" and t[1] == "==" and t[3][0] == "const" and t[3][1] in (False, 0):
                pol, t = not pol, t[2]
            else:
                break
        if t[0] == "index" and self._is_game_call(t[1], "are_values_known") and not t[1][2]:
            return t[2], pol
        if self._is_game_call(t, "are_values_known") and len(t[2]) == 1:
            return t[2][0], pol
        if self._is_game_call(t, "are_values_known") and not t[2] and not t[3]:
            return ("full-length",), pol          # the mask over ALL ids in ascending order: applies to a collection that is all ids in that order
        return None

    # ---- collections
    def coll(self, t: Term, c: Term | None) -> object:
        """Abstract collection denoted by term t, relative to loop coalition c (None outside a loop)."""
        # wrappers
        if t[0] == "call" and is_global(t[1], *LISTY) and len(t[2]) >= 1:
            return self.coll(t[2][0], c)
        if is_call_to(t, "numpy.fromiter") and t[2]:
            return self.coll(t[2][0], c)
        if t[0] == "phi":
            return PhiC(t[1], self.coll(t[2], c), self.coll(t[3], c))
        if t[0] == "ifexp":
            return PhiC(t[1], self.coll(t[2], c), self.coll(t[3], c))
        # --- object representation
        if is_call_to(t, Q_ALL_OBJ):
            return Coll(ALL_CLASSES)
        if c is not None and is_call_to(t, Q_SUB_OBJ) and t[2] and self.is_c(t[2][0], c):
            return Coll(frozenset({EMPTY, SELF, PSUB}))
        if c is not None and is_call_to(t, Q_SUPER_OBJ) and t[2] and self.is_c(t[2][0], c):
            return Coll(frozenset({SELF, PSUPER}))
        if c is not None and is_call_to(t, Q_SUB_ID) and t[2] and self.is_c(t[2][0], c):
            return Coll(frozenset({EMPTY, SELF, PSUB}))
        if c is not None and is_call_to(t, Q_SUPER_ID) and t[2] and self.is_c(t[2][0], c):
            return Coll(frozenset({SELF, PSUPER}))
        if is_call_to(t, Q_ALL_ID):
            return Coll(ALL_CLASSES)
        if is_call_to(t, "sorted") and t[2]:
            base = self.coll(t[2][0], c)
            kw = dict(t[3])
            key = kw.get("key")
            rev = kw.get("reverse")
            order = None
            if key is not None and (is_global(key, "len") or (key[0] == "lambda" and len(key[1]) == 1 and
                                                               is_call_to(key[2], "len") and key[2][2] == (key[1][0],))):
                order = "up"
                if rev is not None:
                    if rev == ("const", True):
                        order = "down"
                    elif rev != ("const", False):
                        order = None
            elif key is not None and key[0] == "lambda" and key[2][0] == "un" and key[2][1] == "-" and is_call_to(key[2][2], "len"):
                order = "down" if rev in (None, ("const", False)) else "up"
            if isinstance(base, Coll):
                return replace(base, order=order)
            return base
        if is_call_to(t, "reversed") and t[2]:
            base = self.coll(t[2][0], c)
            if isinstance(base, Coll):
                return replace(base, order={"up": "down", "down": "up"}.get(base.order or "", None))
            return base
        if is_call_to(t, "filter") and len(t[2]) == 2 and t[2][0][0] == "lambda" and len(t[2][0][1]) == 1:
            lam = t[2][0]
            base = self.coll(t[2][1], c)
            return self._filter(base, [lam[2]], lam[1][0], c)
        if is_call_to(t, "filter") and len(t[2]) == 2 and t[2][0] == ("const", None):
            return self.coll(t[2][1], c)
        if t[0] == "comp" and t[1] in ("list", "gen", "set") and len(t[3]) == 1:
            elem, it, conds = t[3][0]
            base = self.coll(it, c)
            if t[2] == elem or self._unwrap_coalition(t[2]) == elem:
                return self._filter(base, list(conds), elem, c)
            # a map over the collection: complement forms
            form = self._compl_form(t[2], elem, c)
            if form is not None:
                return Compl(self._filter(base, list(conds), elem, c), form)
            self.unrecognised.append(f"comprehension element {show(t[2])[:80]}")
            return Coll(ALL_CLASSES, restricted=True, why_restricted="unrecognised map", unrecognised=True)
        # --- id representation
        pos = self._struct_pos(t)
        if pos == "ALLIDS":
            return Coll(ALL_CLASSES)
        if pos == "SORTED_UP":
            return Coll(ALL_CLASSES, order="up")
        if pos == "SORTED_DOWN":
            return Coll(ALL_CLASSES, order="down")
        if t[0] == "index":
            base_t, idx = t[1], t[2]
            if idx[0] == "slice":
                base = self.coll(base_t, c)
                if idx[1] is None and idx[2] is None and idx[3] == ("un", "-", ("const", 1)) and isinstance(base, Coll):
                    return replace(base, order={"up": "down", "down": "up"}.get(base.order or "", None))
                if idx[1] is None and idx[2] is None and idx[3] is None:
                    return base
                if isinstance(base, Coll):
                    return replace(base, restricted=True, why_restricted=f"slice {show(idx)}")
                return base
            base = self.coll(base_t, c)
            if isinstance(base, Coll) and (idx[0] == "const" and isinstance(idx[1], int) or (idx[0] == "un" and idx[1] == "-" and idx[2][0] == "const")) \
                    and self._struct_pos(base_t) is None:
                return replace(base, restricted=True, why_restricted="single element " + show(idx))
            return self._mask(base, base_t, idx, c)
        # complement in id representation: c ^ X, X ^ c, X - c, X & ~c
        if t[0] == "bin" and t[1] in ("^", "-") and c is not None:
            a, b = t[2], t[3]
            if self.is_c(a, c):
                return Compl(self.coll(b, c), "xor" if t[1] == "^" else "c-x")
            if self.is_c(b, c):
                return Compl(self.coll(a, c), "xor" if t[1] == "^" else "x-c")
        if c is not None and self.is_c(t, c):
            return Single("SELF")
        # c | {i}  /  c & ~{i}  for single players i: supersets / subsets ONE player away (a strict restriction)
        if t[0] == "bin" and t[1] in ("|", "&") and c is not None:
            a, b = t[2], t[3]
            other = b if self.is_c(a, c) else (a if self.is_c(b, c) else None)
            if other is not None:
                neg = False
                if other[0] == "un" and other[1] == "~":
                    neg, other = True, other[2]
                single = other[0] == "bin" and ((other[1] == "<<" and other[2] == ("const", 1)) or (other[1] == "**" and other[2] == ("const", 2))) \
                    and is_call_to(other[3], "numpy.arange", "range")
                if single and t[1] == "|" and not neg:
                    return Coll(frozenset({SELF, PSUPER}), restricted=True, why_restricted="only supersets one player larger")
                if single and t[1] == "&" and neg:
                    return Coll(frozenset({SELF, PSUB, EMPTY}), restricted=True, why_restricted="only subsets one player smaller")
        self.unrecognised.append(f"collection {show(t)[:100]}")
        return Coll(ALL_CLASSES, restricted=True, why_restricted="unrecognised", unrecognised=True)

    def _compl_form(self, elt: Term, x: Term, c: Term | None) -> str | None:
        if c is None:
            return None
        if elt[0] == "bin" and elt[1] in ("-", "^"):
            a, b = elt[2], elt[3]
            if self.is_c(a, c) and b == x:
                return "c-x" if elt[1] == "-" else "xor"
            if a == x and self.is_c(b, c):
                return "x-c" if elt[1] == "-" else "xor"
        return None

    def _filter(self, base: object, conds: list[Term], x: Term, c: Term | None) -> object:
        if isinstance(base, PhiC):
            return PhiC(base.test, self._filter(base.a, conds, x, c), self._filter(base.b, conds, x, c))
        if not isinstance(base, Coll):
            return base
        flat: list[Term] = []
        for cd in conds:
            if cd[0] == "bool" and cd[1] == "and":
                flat.extend(cd[2])
            else:
                flat.append(cd)
        cur = base
        for cd in flat:
            cur = self._one_cond(cur, cd, x, c)
        return cur

    def _one_cond(self, cur: Coll, cd: Term, x: Term, c: Term | None) -> Coll:
        neg = False
        while cd[0] == "un" and cd[1] == "not":
            neg, cd = not neg, cd[2]
        # x != c / x != Coalition(0) / x == ...
        if cd[0] == "cmp" and cd[1] in ("!=", "=="):
            a, b = cd[2], cd[3]
            if b == x:
                a, b = b, a
            if a == x:
                ne = (cd[1] == "!=") != neg
                target = None
                if c is not None and self.is_c(b, c):
                    target = SELF
                elif self.is_empty(b):
                    target = EMPTY
                if target is not None:
                    if ne:
                        return replace(cur, classes=cur.classes - {target})
                    return replace(cur, classes=cur.classes & {target})
            # x.id != 0
            if a == ("attr", x, "id") and b == ("const", 0):
                ne = (cd[1] == "!=") != neg
                return replace(cur, classes=(cur.classes - {EMPTY}) if ne else (cur.classes & {EMPTY}))
        if cd[0] == "call" and cd[1][0] == "attr" and cd[1][1] == self.game and cd[1][2] == "is_value_known" and cd[2] == (x,):
            want = not neg
            if cur.known is not None and cur.known != want:
                return replace(cur, classes=frozenset())
            return replace(cur, known=want)
        # truthiness of len(x) / x.id: non-empty
        if (is_call_to(cd, "len") and cd[2] == (x,)) or cd == ("attr", x, "id"):
            return replace(cur, classes=(cur.classes - {EMPTY}) if not neg else (cur.classes & {EMPTY}))
        # size predicates and anything else remove candidates in a way the classes cannot express
        sizey = any(is_call_to(s, "len") for s in subterms(cd))
        # supersets have no symmetry that would make dropping some of them harmless: every extra predicate on the superset side
        # removes candidates of the MIN (recognised restriction).  On the sub-coalition side a symmetric halving would be
        # behaviour preserving, so an arbitrary predicate there stays 'unrecognised' (-> UNDECIDED).
        super_side = cur.classes <= {SELF, PSUPER} and bool(cur.classes)
        if not sizey and not super_side:
            self.unrecognised.append(f"filter condition {show(cd)[:80]}")
        return replace(cur, restricted=True, why_restricted=("size predicate " if sizey else "predicate ") + show(cd)[:60],
                       unrecognised=cur.unrecognised or (not sizey and not super_side))

    def _mask(self, base: object, base_t: Term, idx: Term, c: Term | None) -> object:
        """base[idx] with idx a boolean mask in id representation."""
        if isinstance(base, PhiC):
            return PhiC(base.test, self._mask(base.a, base_t, idx, c), self._mask(base.b, base_t, idx, c))
        if isinstance(idx, tuple) and len(idx) == 4 and idx[0] in ("ifexp", "phi"):
            # a mask chosen by a conditional selects what the chosen mask selects: X[m1 if t else m2] is X[m1] if t else X[m2]
            return PhiC(idx[1], self._mask(base, base_t, idx[2], c), self._mask(base, base_t, idx[3], c))
        if not isinstance(base, Coll):
            self.unrecognised.append(f"mask on {show_coll(base)}")
            return Coll(ALL_CLASSES, restricted=True, why_restricted="mask on complement", unrecognised=True)
        if isinstance(idx, tuple) and len(idx) == 4 and idx[0] == "bin" and idx[1] == "&":
            # a conjunction of two masks over the same array selects what applying one after the other selects
            return self._mask(self._mask(base, base_t, idx[2], c), base_t, idx[3], c)
        km = self._known_mask_of(idx)
        if km is not None:
            target, pol = km
            if target == ("full-length",) and base.order is None and not base.restricted:
                target = base_t
            if target == base_t:
                if base.known is not None and base.known != pol:
                    return replace(base, classes=frozenset())
                return replace(base, known=pol)
            self.unrecognised.append(f"knowledge mask over a different array: {show(target)[:60]}")
            return replace(base, restricted=True, why_restricted="knowledge mask of another array", unrecognised=True)
        cls = self._rel_mask(idx, c)
        if cls is not None:
            if base.classes != ALL_CLASSES or base.order is not None and False:
                return replace(base, classes=base.classes & cls)
            return replace(base, classes=cls)
        self.unrecognised.append(f"mask {show(idx)[:100]}")
        if base.restricted and not base.unrecognised:
            # already thinned out by something the domain DOES understand (a slice, a size predicate): candidates are missing whatever this mask selects
            return replace(base, why_restricted=f"{base.why_restricted} + a further mask")
        return replace(base, restricted=True, why_restricted="unrecognised mask", unrecognised=True)

    def _rel_mask(self, idx: Term, c: Term | None) -> frozenset | None:
        """Class set selected by a relation-table mask: table[c] == k, logical_or(...), a | b."""
        if self.struct is None or c is None:
            return None
        if idx[0] == "call" and is_global(idx[1], *OR_FUNCS) and len(idx[2]) == 2:
            a, b = self._rel_mask(idx[2][0], c), self._rel_mask(idx[2][1], c)
            return None if a is None or b is None else a | b
        if idx[0] == "bin" and idx[1] == "|":
            a, b = self._rel_mask(idx[2], c), self._rel_mask(idx[3], c)
            return None if a is None or b is None else a | b
        if idx[0] == "call" and is_global(idx[1], *AND_FUNCS) and len(idx[2]) == 2:
            a, b = self._rel_mask(idx[2][0], c), self._rel_mask(idx[2][1], c)
            return None if a is None or b is None else a & b
        if idx[0] == "cmp" and idx[1] in ("==", "!=", ">", ">=", "<", "<="):
            row, k = idx[2], idx[3]
            if not (row[0] == "index" and self._struct_pos(row[1]) == "TABLE" and self.is_c(row[2], c)):
                return None
            from .rules.common import const_of
            try:
                kv = const_of(k)
            except ValueError:
                return None
            import operator
            opf = {"==": operator.eq, "!=": operator.ne, ">": operator.gt, ">=": operator.ge, "<": operator.lt,
                   "<=": operator.le}[idx[1]]
            out: set = set()
            hit = False
            for code, cls in self.struct.code_classes.items():
                try:
                    if opf(code, kv):
                        out |= cls
                        if code == kv:
                            hit = True
                except TypeError:
                    return None
            if idx[1] == "==" and kv not in self.struct.code_classes:
                self.never_written = getattr(self, "never_written", []) + [kv]
            return frozenset(out)
        if idx[0] == "call" and is_global(idx[1], "numpy.isin", "numpy.in1d") and len(idx[2]) == 2:
            row, ks = idx[2]
            if row[0] == "index" and self._struct_pos(row[1]) == "TABLE" and self.is_c(row[2], c) and ks[0] in ("list", "tuple"):
                from .rules.common import const_of
                out = set()
                for k in ks[1]:
                    try:
                        out |= self.struct.code_classes.get(const_of(k), frozenset())
                    except ValueError:
                        return None
                return frozenset(out)
        return None

    # ---- numerics
    def num(self, t: Term, c: Term | None):
        if t[0] == "phi" or t[0] == "ifexp":
            return ("PHI", t[1], self.num(t[2], c), self.num(t[3], c))
        if t[0] == "bin" and t[1] in ("+", "-"):
            return ("ADD" if t[1] == "+" else "SUB", self.num(t[2], c), self.num(t[3], c))
        if t[0] == "call" and is_global(t[1], "numpy.add", "numpy.subtract") and len(t[2]) == 2:
            return ("ADD" if t[1][1].endswith("add") else "SUB", self.num(t[2][0], c), self.num(t[2][1], c))
        # reductions
        if t[0] == "call" and is_global(t[1], *MAX_FUNCS, *MIN_FUNCS):
            op = "MAX" if t[1][1] in MAX_FUNCS else "MIN"
            kw = dict(t[3])
            if "initial" in kw or "where" in kw or "default" in kw:
                extra = kw.get("initial", kw.get("default", kw.get("where")))
                return ("INIT", op, self.num(t[2][0], c) if t[2] else ("?", "no operand"), show(extra)[:60],
                        bool(c is not None and any(self.is_c(s, c) for s in subterms(extra))))
            if len(t[2]) == 1:
                return (op, self.num(t[2][0], c))
            if len(t[2]) == 2 and not t[2][0][0] == "star":
                if op == "MIN":
                    return ("MIN2", self.num(t[2][0], c), self.num(t[2][1], c))
                return ("MAX2", self.num(t[2][0], c), self.num(t[2][1], c))
        if t[0] == "call" and t[1][0] == "attr" and t[1][2] in ("max", "min") and not t[2]:
            return ("MAX" if t[1][2] == "max" else "MIN", self.num(t[1][1], c))
        if t[0] == "call" and is_global(t[1], "float", "numpy.float64") and len(t[2]) == 1:
            return self.num(t[2][0], c)
        # column reads
        col = {"get_lower_bounds": "LB", "get_upper_bounds": "UB", "get_values": "VAL", "get_known_values": "KNV",
               "get_lower_bound": "LB", "get_upper_bound": "UB", "get_value": "VAL", "get_known_value": "KNV"}
        if t[0] == "call" and t[1][0] == "attr" and t[1][1] == self.game and t[1][2] in col and len(t[2]) == 1 and not t[3]:
            name = t[1][2]
            arg = t[2][0]
            cc = self.coll(arg, c) if name.endswith("s") else self._single(arg, c)
            return self._col(col[name], cc)
        if t[0] == "index" and t[1][0] == "call" and t[1][1][0] == "attr" and t[1][1][1] == self.game \
                and t[1][1][2] in ("get_lower_bounds", "get_upper_bounds", "get_values", "get_known_values") and not t[1][2]:
            cc = self.coll(t[2], c) if not (c is not None and self.is_c(t[2], c)) else Single("SELF")
            return self._col(col[t[1][1][2]], cc)
        self.unrecognised.append(f"value {show(t)[:100]}")
        return ("?", show(t)[:80])

    # ---- raw sequence terms (elementwise pairing is a property of sequences, which the class sets forget)
    def raw_reads(self, t: Term) -> list[tuple[str, Term]]:
        """(column, raw collection term) of every column read in a value term, in order."""
        if not isinstance(t, tuple):
            return []
        if t[0] in ("phi", "ifexp"):
            return self.raw_reads(t[2])
        if t[0] == "bin" and t[1] in ("+", "-"):
            return self.raw_reads(t[2]) + self.raw_reads(t[3])
        if t[0] == "call" and is_global(t[1], *MAX_FUNCS, *MIN_FUNCS, "numpy.add", "numpy.subtract", "float", "numpy.float64"):
            out = []
            for a in t[2]:
                out += self.raw_reads(a)
            return out
        if t[0] == "call" and t[1][0] == "attr" and t[1][2] in ("max", "min") and not t[2]:
            return self.raw_reads(t[1][1])
        if t[0] == "call" and t[1][0] == "attr" and t[1][1] == self.game and len(t[2]) == 1 and not t[3]:
            return [(t[1][2], t[2][0])]
        if t[0] == "index" and t[1][0] == "call" and t[1][1][0] == "attr" and t[1][1][1] == self.game and not t[1][2]:
            return [(t[1][1][2], t[2])]
        return []

    def compl_source(self, raw: Term, c: Term) -> Term | None:
        """The sequence a complement term is the elementwise complement OF (None if raw is not a complement)."""
        while is_call_to(raw, *LISTY) and raw[2]:
            raw = raw[2][0]
        if raw[0] == "comp" and len(raw[3]) == 1:
            elem, it, conds = raw[3][0]
            if self._compl_form(raw[2], elem, c) is not None and not conds:
                return it
            return None
        if raw[0] == "bin" and raw[1] in ("^", "-"):
            if self.is_c(raw[2], c):
                return raw[3]
            if self.is_c(raw[3], c):
                return raw[2]
        if is_call_to(raw, "numpy.bitwise_xor") and len(raw[2]) == 2:
            if self.is_c(raw[2][0], c):
                return raw[2][1]
            if self.is_c(raw[2][1], c):
                return raw[2][0]
        return None

    def same_sequence(self, value_term: Term, c: Term) -> bool | None:
        """In ``V(X) op V(compl(X'))``: is X' the very sequence X (same order, same elements)?  None if not of that shape."""
        reads = self.raw_reads(value_term)
        pairs = []
        srcs = [(col, raw, self.compl_source(raw, c)) for col, raw in reads]
        for col, raw, srcx in srcs:
            if srcx is not None:
                others = [r for _, r, sx in srcs if sx is None]
                pairs.append((srcx, others))
        if not pairs:
            return None

        def strip(t: Term) -> Term:
            while is_call_to(t, *LISTY) and t[2]:
                t = t[2][0]
            return t
        return all(any(strip(srcx) == strip(o) for o in others) for srcx, others in pairs)

    def _single(self, t: Term, c: Term | None):
        if c is not None and self.is_c(t, c):
            return Single("SELF")
        # one element picked out of a collection: min(X, key=...), X[i], next(iter(X))
        if is_call_to(t, "min", "max") and len(t[2]) == 1 and dict(t[3]).get("key") is not None:
            base = self.coll(t[2][0], c)
            if isinstance(base, Coll):
                return replace(base, restricted=True, why_restricted="single element chosen by " + t[1][1] + "(key=...)")
        if t[0] == "index" and t[2][0] != "slice":
            base = self.coll(t[1], c)
            if isinstance(base, Coll) and not base.unrecognised:
                return replace(base, restricted=True, why_restricted="single element")
        if is_call_to(t, "next") and t[2]:
            base = self.coll(t[2][0], c)
            if isinstance(base, Coll) and not base.unrecognised:
                return replace(base, restricted=True, why_restricted="first element")
        if c is not None and t[0] == "bin" and t[1] in ("-", "^"):
            if self.is_c(t[3], c):
                inner = self._single(t[2], c)
                if isinstance(inner, Coll) and not inner.unrecognised:
                    return Compl(inner, "x-c" if t[1] == "-" else "xor")
            if self.is_c(t[2], c):
                inner = self._single(t[3], c)
                if isinstance(inner, Coll) and not inner.unrecognised:
                    return Compl(inner, "c-x" if t[1] == "-" else "xor")
        return Coll(ALL_CLASSES, restricted=True, why_restricted="single coalition " + show(t)[:40], unrecognised=True)

    def _col(self, col: str, cc):
        return (col, cc)


def normalise_num(n):
    """KV normalisation: any value column read at a known-filtered set is the known value (G1 of C17)."""
    if not isinstance(n, tuple):
        return n
    k = n[0]
    if k in ("LB", "UB", "VAL", "KNV"):
        cc = n[1]
        if isinstance(cc, Coll) and cc.known is True:
            return ("KV", cc)
        return n
    if k in ("ADD", "SUB", "MIN2", "MAX2"):
        a, b = normalise_num(n[1]), normalise_num(n[2])
        if k == "ADD" and repr(b) < repr(a):
            a, b = b, a
        return (k, a, b)
    if k in ("MAX", "MIN"):
        return (k, normalise_num(n[1]))
    if k == "PHI":
        return ("PHI", n[1], normalise_num(n[2]), normalise_num(n[3]))
    return n


def compl_valid(cp: Compl) -> tuple[bool, str]:
    """A complement is a set difference only when the base is nested with c in the right direction."""
    b = cp.base
    if isinstance(b, PhiC):
        r1, r2 = compl_valid(Compl(b.a, cp.form)), compl_valid(Compl(b.b, cp.form))
        return (r1[0] and r2[0], r1[1] if not r1[0] else r2[1])
    if not isinstance(b, Coll):
        return False, "complement of a non-collection"
    subs = b.classes <= {EMPTY, SELF, PSUB}
    sups = b.classes <= {SELF, PSUPER}
    if cp.form == "c-x":
        return (subs, "" if subs else f"c - x over {b.show()} is not a complement within c")
    if cp.form == "x-c":
        return (sups, "" if sups else f"x - c over {b.show()} is not the remainder of a superset")
    return (subs or sups, "" if (subs or sups) else f"c ^ x over {b.show()} is neither c\\x nor x\\c")


def split_phi(n, want: bool | None = None):
    """Enumerate the alternatives of PHI nodes: yields (conditions, phi-free numeric)."""
    def rec(x):
        if not isinstance(x, tuple):
            return [([], x)]
        k = x[0]
        if k == "PHI":
            out = []
            for conds, v in rec(x[2]):
                out.append(([(x[1], True)] + conds, v))
            for conds, v in rec(x[3]):
                out.append(([(x[1], False)] + conds, v))
            return out
        if k in ("LB", "UB", "VAL", "KV", "KNV"):
            return [(cd, (k, cc)) for cd, cc in rec_coll(x[1])]
        if k in ("ADD", "SUB", "MIN2", "MAX2"):
            out = []
            for c1, a in rec(x[1]):
                for c2, b in rec(x[2]):
                    if _consistent(c1, c2):
                        out.append((_merge(c1, c2), (k, a, b)))
            return out
        if k in ("MAX", "MIN"):
            return [(cd, (k, v)) for cd, v in rec(x[1])]
        return [([], x)]

    def rec_coll(cc):
        if isinstance(cc, PhiC):
            out = []
            for cd, v in rec_coll(cc.a):
                out.append(([(cc.test, True)] + cd, v))
            for cd, v in rec_coll(cc.b):
                out.append(([(cc.test, False)] + cd, v))
            return out
        if isinstance(cc, Compl):
            return [(cd, Compl(v, cc.form)) for cd, v in rec_coll(cc.base)]
        return [([], cc)]

    return rec(n)


def _consistent(c1, c2) -> bool:
    d = dict()
    for t, p in c1 + c2:
        if d.setdefault(t, p) != p:
            return False
    return True


def _merge(c1, c2):
    out = list(c1)
    for x in c2:
        if x not in out:
            out.append(x)
    return out
