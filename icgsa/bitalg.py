"""Bit-set algebra: bitwise integer expressions as Boolean functions of element membership.

A coalition id is a set of players.  ``&``, ``|``, ``^``, ``~`` act pointwise on membership, so an
expression over set-valued atoms A, B, ... denotes one Boolean function of (e in A, e in B, ...).
Its canonical form is its truth table (an integer over the 2^k assignments); two expressions are
equal as sets for ALL inputs iff the tables are equal.  Comparisons become quantified statements:

    X == Y   ->  forall e: not (X(e) xor Y(e))        X == 0  ->  forall e: not X(e)
    X != 0 / truthiness  ->  exists e: X(e)

This is a normal-form computation on the *formula* (no coalition or integer is ever evaluated), and it
is insensitive to behaviour-preserving rewrites (``a & ~b`` vs ``a ^ (a & b)``, ``2**p`` vs ``1 << p``).
"""
from __future__ import annotations

from .terms import Term, is_call_to, is_global, show


class Unknown(Exception):
    pass


class BitAlg:
    def __init__(self, atoms: list[str]) -> None:
        self.atoms = atoms
        self.k = len(atoms)
        self.rows = 1 << self.k
        self.full = (1 << self.rows) - 1
        self.atom_mask = {}
        for i, a in enumerate(atoms):
            m = 0
            for r in range(self.rows):
                if (r >> i) & 1:
                    m |= 1 << r
            self.atom_mask[a] = m

    def atom(self, name: str) -> int:
        return self.atom_mask[name]

    def NOT(self, x: int) -> int:
        return self.full & ~x

    # predicates are tuples ('forall_not', mask) | ('exists', mask)
    def eq(self, x: int, y: int):
        return ("forall_not", x ^ y)

    def is_empty(self, x: int):
        return ("forall_not", x)

    def nonempty(self, x: int):
        return ("exists", x)

    def subset(self, x: int, y: int):
        """x is a subset of y."""
        return ("forall_not", x & self.NOT(y))

    def neg(self, p):
        return ("exists", p[1]) if p[0] == "forall_not" else ("forall_not", p[1])

    def describe(self, mask: int) -> str:
        rows = []
        for r in range(self.rows):
            if (mask >> r) & 1:
                rows.append("".join((a if (r >> i) & 1 else "~" + a) for i, a in enumerate(self.atoms)))
        return "{" + ", ".join(rows) + "}"


class SetEval:
    """Evaluate a term into a set mask / predicate, given a mapping term -> atom and a set of 'FULL' terms."""

    def __init__(self, alg: BitAlg, atoms: dict, full_terms: list | None = None, coalition_ctor: str = "",
                 singleton_atoms: dict | None = None) -> None:
        self.alg = alg
        self.atoms = atoms                   # term -> atom name (set-valued integer terms)
        self.full_terms = full_terms or []   # terms denoting 2**n - 1
        self.ctor = coalition_ctor
        self.singletons = singleton_atoms or {}   # player term p -> atom name of {p}

    def set(self, t: Term) -> int:
        a = self.alg
        if t in self.atoms:
            return a.atom(self.atoms[t])
        if t in self.full_terms:
            return a.full
        if t[0] == "const" and t[1] == 0 and not isinstance(t[1], bool):
            return 0
        # singleton {p}: 2**p, 1 << p
        if t[0] == "bin" and ((t[1] == "**" and t[2] == ("const", 2)) or (t[1] == "<<" and t[2] == ("const", 1))) and t[3] in self.singletons:
            return a.atom(self.singletons[t[3]])
        if t[0] == "bin" and t[1] in ("&", "|", "^"):
            x, y = self.set(t[2]), self.set(t[3])
            return {"&": x & y, "|": x | y, "^": x ^ y}[t[1]]
        if t[0] == "un" and t[1] == "~":
            return a.NOT(self.set(t[2]))
        if t[0] == "call" and is_global(t[1], "numpy.bitwise_and", "numpy.bitwise_or", "numpy.bitwise_xor") and len(t[2]) == 2:
            x, y = self.set(t[2][0]), self.set(t[2][1])
            return {"bitwise_and": x & y, "bitwise_or": x | y, "bitwise_xor": x ^ y}[t[1][1].rsplit(".", 1)[-1]]
        if t[0] == "call" and is_global(t[1], "numpy.invert", "numpy.bitwise_not") and len(t[2]) == 1:
            return a.NOT(self.set(t[2][0]))
        # FULL - x  ==  FULL ^ x  (no borrow: x is a subset of FULL)
        if t[0] == "bin" and t[1] == "-" and t[2] in self.full_terms:
            return a.full ^ self.set(t[3])
        # .id of Coalition(x)
        if t[0] == "attr" and t[2] == "id" and is_call_to(t[1], self.ctor) and len(t[1][2]) == 1:
            return self.set(t[1][2][0])
        if t[0] == "call" and is_global(t[1], "int") and len(t[2]) == 1:
            return self.set(t[2][0])
        raise Unknown(show(t)[:80])

    def pred(self, t: Term):
        a = self.alg
        if t[0] == "call" and is_global(t[1], "bool") and len(t[2]) == 1:
            return self.pred(t[2][0])
        if t[0] == "un" and t[1] == "not":
            return a.neg(self.pred(t[2]))
        if t[0] == "cmp" and t[1] in ("==", "!="):
            p = a.eq(self.set(t[2]), self.set(t[3]))
            return p if t[1] == "==" else a.neg(p)
        # truthiness of a set-valued expression
        return a.nonempty(self.set(t))
